#!/usr/bin/env python3
"""C19 monitor: derived identifiers spell the documented names.

usage: c19_driver.py C19 quick|thorough --out <part.json> --seed <int> [--replay <file>]

Generates Rust crates full of `#[derive(Iden)]`, `#[derive(IdenStatic)]` and
`#[enum_def]` type definitions, compiles them against the sea-query working
tree (this is where the proc-macro, the code under test, executes), runs them
and compares every printed observable with an executable model written here
(snake_case / PascalCase word splitting, attribute precedence, identifier
quoting).  The model's case conversion is cross-checked against heck 0.4 before
any type is generated: names on which they differ are discarded as ambiguous.

Environment knobs (all optional):
  C19_REPO         sea-query checkout to build against (default /repo)
  C19_TARGET_DIR   CARGO_TARGET_DIR (default /verif/harness/target/gen19-target)
  C19_NCRATES / C19_NTYPES   override the tier's crate count / types per crate
  C19_PINNED=0     leave out the pinned probe types (see Generator.pinned_module)
  C19_KEEP_BINS=1  keep the generated crates' binaries in the target dir
  C19_FINDINGS     known-findings file (default /verif/known_findings.json)

Exit code: 0 held, 1 violation (VIOLATION line printed), 2 inconclusive.
"""
import argparse
import json
import os
import random
import re
import shutil
import subprocess
import sys
import time

ROOT = os.path.dirname(os.path.abspath(__file__))
TMPL = os.path.join(ROOT, "gen19")
HARNESS_TARGET = os.path.join(ROOT, "harness", "target")
GEN_DIR = os.path.join(HARNESS_TARGET, "gen19")
TARGET_DIR = os.environ.get("C19_TARGET_DIR") or os.path.join(HARNESS_TARGET, "gen19-target")
REPO = os.path.abspath(os.environ.get("C19_REPO") or "/repo")
REPLAYS = os.path.join(ROOT, "replays")
FINDINGS = os.environ.get("C19_FINDINGS") or os.path.join(ROOT, "known_findings.json")
PROP = "C19"
VARIANT = "gen19"
MIN_NONTRIVIAL = 20

CARGO_ENV = dict(os.environ)
CARGO_ENV.update({
    "CARGO_NET_OFFLINE": "true",
    "CARGO_TERM_COLOR": "never",
    "RUST_BACKTRACE": "0",
    "CARGO_INCREMENTAL": "0",
    "CARGO_TARGET_DIR": TARGET_DIR,
})


def say(s=""):
    print(s, flush=True)


class Inconclusive(Exception):
    pass


# ---------------------------------------------------------------------------
# The model (oracle).  Written from heck's documented word-boundary rules, as
# a declarative classification + two boundary patterns, not as a port of heck.
# ---------------------------------------------------------------------------

_BOUNDARY = re.compile(r"(?<=[Ll])(?=U)|(?<=[Uu])(?=UL)")


def model_words(name):
    """Split an identifier into words.

    1. every character that is not an ASCII letter or digit separates words
       (underscores; runs of them fold into one separator);
    2. inside a run, a word ends where a lower-case letter (or digits that
       follow lower case) is followed by an upper-case letter;
    3. inside a run of capitals (digits after capitals count as capitals) the
       last capital starts a new word when a lower-case letter follows it.
    Digits never start a word of their own."""
    words = []
    for run in re.split(r"[^A-Za-z0-9]+", name):
        if not run:
            continue
        code = []
        prev = "n"
        for ch in run:
            if "A" <= ch <= "Z":
                prev = "U"
                code.append("U")
            elif "a" <= ch <= "z":
                prev = "L"
                code.append("L")
            else:  # digit: transparent, takes the case of what precedes it
                code.append({"U": "u", "L": "l", "n": "n"}[prev])
        code = "".join(code)
        cuts = [0] + [m.start() for m in _BOUNDARY.finditer(code) if 0 < m.start() < len(run)] + [len(run)]
        for a, b in zip(cuts, cuts[1:]):
            if b > a:
                words.append(run[a:b])
    return words


def model_snake(name):
    return "_".join(w.lower() for w in model_words(name))


def model_pascal(name):
    return "".join(w[0].upper() + w[1:].lower() for w in model_words(name))


_PLAIN = re.compile(r"\A(?:[A-Za-z_][A-Za-z0-9_]*)?\Z")


def is_plain(s):
    """A name that needs no escaping under any quote: ASCII letters, digits,
    underscore, not starting with a digit (the empty string included)."""
    return bool(_PLAIN.match(s))


QUOTES = [("bt", "`", "`"), ("dq", '"', '"'), ("br", "[", "]")]


def model_quoted(s, right):
    return s.replace(right, right + right)


def model_prepare(s, left, right):
    return left + model_quoted(s, right) + right


# ---------------------------------------------------------------------------
# Name generation
# ---------------------------------------------------------------------------

KEYWORDS = set("""as break const continue crate else enum extern false fn for if impl in let loop match mod move mut
pub ref return self Self static struct super trait true type unsafe use where while async await dyn abstract become
box do final macro override priv typeof unsized virtual yield try union gen""".split())
RESERVED_NAMES = set("""Iden IdenStatic String Option Vec Some None Ok Err Result Box Default Copy Clone Send Sync Write
Debug rt run main delegated s q out""".split())

WORDS = ["Font", "Size", "User", "Name", "Server", "Request", "Error", "Value", "Key", "Data", "Sum", "Col", "Item",
         "Order", "Date", "Time", "Count", "Index", "Asset", "First", "Last", "Email", "Level", "Info", "Axis",
         "Decoder", "Http", "Sha", "Utf", "Glyph", "Cake", "Fruit", "Price", "Owner", "Group", "Parent", "Child",
         "Status", "Code", "Label", "Width", "Height", "Color", "Point", "Line", "Page", "Book", "Author", "Title",
         "Topic", "Zone", "Rate", "Hash", "Token", "Foo", "Bar", "Baz", "Qux", "My", "Is", "At", "Id"]
ACRONYMS = ["HTTP", "XML", "IO", "ID", "URL", "UTF", "SQL", "DB", "API", "JSON", "UUID", "TCP", "AB", "UI", "OS"]
DIGITS = ["2", "8", "256", "1", "64", "32", "0", "10", "3"]
LETTERS = "ABCDEFGHIJKLMNOPQRSTUVWXYZ"


def _w(r):
    return r.choice(WORDS)


def _a(r):
    return r.choice(ACRONYMS)


def _d(r):
    return r.choice(DIGITS)


def _l(r):
    return r.choice(LETTERS)


# class -> (generator, fixed examples always present)
NAME_CLASSES = {
    "pascal1": (lambda r: _w(r), ["Email", "Id"]),
    "pascal2": (lambda r: _w(r) + _w(r), ["FontSize", "FirstName", "UserId"]),
    "pascal3": (lambda r: _w(r) + _w(r) + _w(r), ["FirstNameLast"]),
    "acr_lead": (lambda r: _a(r) + _w(r) + (r.random() < 0.3 and _w(r) or ""), ["HTTPServer", "XMLHttpRequest", "IOError"]),
    "acr_mid": (lambda r: _w(r) + _a(r) + _w(r), ["MyIOError", "UserIDCol"]),
    "acr_tail": (lambda r: _w(r) + _a(r), ["ServerHTTP", "UserID"]),
    "acr_only": (lambda r: _a(r), ["HTTP", "ID"]),
    "digit_tail": (lambda r: _w(r) + _d(r), ["Utf8", "Sha256"]),
    "digit_mid": (lambda r: _w(r) + _d(r) + _w(r), ["Col2Name", "Sha256Sum"]),
    "letter_digit": (lambda r: _l(r) + _d(r), ["X1", "I32"]),
    "acr_digit_word": (lambda r: _a(r) + _d(r) + _w(r), ["UTF8Decoder"]),
    "digit_lower": (lambda r: _w(r) + _d(r) + _w(r).lower(), ["Col2name", "Sha256sum"]),
    "single_letter": (lambda r: _l(r), ["A"]),
    "two_letter": (lambda r: _l(r) + _l(r).lower(), ["Ab"]),
    "letter_word": (lambda r: _l(r) + _w(r), ["XAxis", "AValue"]),
    "word_letter": (lambda r: _w(r) + _l(r), ["AxisX"]),
    "lead_us": (lambda r: "_" + _w(r) + (r.random() < 0.5 and _w(r) or ""), ["_Foo", "_FooBar"]),
    "trail_us": (lambda r: _w(r) + (r.random() < 0.5 and _w(r) or "") + "_", ["Foo_", "FooBar_"]),
    "dbl_us": (lambda r: _w(r) + "__" + _w(r), ["Foo__Bar"]),
    "mid_us": (lambda r: _w(r) + "_" + _w(r), ["Foo_Bar"]),
    "lower_snake": (lambda r: _w(r).lower() + "_" + _w(r).lower(), ["foo_bar", "first_name"]),
    "lower_single": (lambda r: _w(r).lower(), ["foo"]),
    "lower_digit": (lambda r: r.choice([_w(r).lower() + _d(r), _w(r).lower() + "_" + _d(r),
                                        _w(r).lower() + _d(r) + "_" + _w(r).lower()]), ["utf8", "col_2", "sha256_sum"]),
    "camel_lower": (lambda r: _w(r).lower() + _w(r), ["fooBar"]),
    "shouty": (lambda r: _w(r).upper() + "_" + _w(r).upper(), ["FOO_BAR"]),
    "us_digit": (lambda r: r.choice(["_" + _d(r), _w(r) + "_" + _d(r)]), ["_1", "Foo_1"]),
    "only_us": (lambda r: r.choice(["__", "___"]), ["__"]),
    "near_table": (lambda r: r.choice(["Tables", "TableName", "table", "TABLE", "Table_", "_Table", "MyTable", "Tabl",
                                       "TableX", "Table1"]), ["table", "TABLE", "Tables"]),
    # unstructured mixes of capitals, lower case, digits and underscores
    "random_mix": (lambda r: "".join(r.choice("AaBbXxZ019_") if r.random() < 0.8 else r.choice(["HTTP", "Ab", "x_", "_Y", "2d", "D2"])
                                     for _ in range(r.randint(2, 7))), ["ABc1dEF", "aBC", "X1Y", "a1B2c", "AB_cD", "Ab1C2d"]),
    # field-name flavours for #[enum_def] structs
    "f_lower_single": (lambda r: _w(r).lower(), ["name", "id"]),
    "f_lower_snake": (lambda r: _w(r).lower() + "_" + _w(r).lower() + (r.random() < 0.3 and "_" + _w(r).lower() or ""),
                      ["first_name", "user_id"]),
    "f_lower_digit": (lambda r: r.choice([_w(r).lower() + _d(r), _w(r).lower() + "_" + _d(r),
                                          _w(r).lower() + _d(r) + "_" + _w(r).lower(), _l(r).lower() + _d(r)]),
                      ["utf8", "col_2", "sha256_sum", "x1"]),
    "f_camel": (lambda r: _w(r).lower() + _w(r), ["fooBar"]),
    "f_lead_us": (lambda r: "_" + _w(r).lower(), ["_foo"]),
    "f_dbl_us": (lambda r: _w(r).lower() + "__" + _w(r).lower(), ["foo__bar"]),
    "f_trail_us": (lambda r: _w(r).lower() + "_", ["foo_"]),
    "f_upper": (lambda r: r.choice([_a(r) + _w(r), _w(r) + _w(r), _w(r).upper() + "_" + _w(r).upper()]),
                ["HTTPServer", "FontSize"]),
}

TRIVIAL_NAME_CLASSES = {"pascal1", "lower_single", "single_letter", "two_letter", "f_lower_single"}

VARIANT_CLASS_WEIGHTS = [
    ("pascal1", 3), ("pascal2", 6), ("pascal3", 2), ("acr_lead", 4), ("acr_mid", 3), ("acr_tail", 3), ("acr_only", 2),
    ("digit_tail", 3), ("digit_mid", 3), ("letter_digit", 2), ("acr_digit_word", 2), ("digit_lower", 1),
    ("single_letter", 1), ("two_letter", 1), ("letter_word", 2), ("word_letter", 2), ("lead_us", 2), ("trail_us", 2),
    ("dbl_us", 2), ("mid_us", 2), ("lower_snake", 2), ("lower_single", 1), ("lower_digit", 1), ("camel_lower", 1),
    ("shouty", 1), ("us_digit", 1), ("only_us", 0.3), ("near_table", 1.5),
    ("random_mix", 3),
]
_PASCALISH = ("pascal1", "pascal2", "pascal3", "acr_lead", "acr_mid", "acr_tail", "digit_tail", "digit_mid", "acr_digit_word")
TYPE_CLASS_WEIGHTS = [(c, w * 3 if c in _PASCALISH else w) for c, w in VARIANT_CLASS_WEIGHTS if c not in ("only_us",)]
FIELD_CLASS_WEIGHTS = [("f_lower_single", 4), ("f_lower_snake", 5), ("f_lower_digit", 3), ("f_camel", 1.5),
                       ("f_lead_us", 1.5), ("f_dbl_us", 1.5), ("f_trail_us", 1), ("f_upper", 1)]

IDENT_RE = re.compile(r"\A[A-Za-z_][A-Za-z0-9_]*\Z")


def ident_ok(name):
    return bool(IDENT_RE.match(name)) and name != "_" and name not in KEYWORDS and name not in RESERVED_NAMES


def gen_pool(seed, k):
    """Candidate names per class, deterministic in (seed, crate index)."""
    r = random.Random(f"c19-names-{seed}-{k}")
    pool = {}
    for cls in sorted(NAME_CLASSES):
        gen, fixed = NAME_CLASSES[cls]
        names = []
        for n in fixed:
            if ident_ok(n) and n not in names:
                names.append(n)
        tries = 0
        want = 36
        while len(names) < want and tries < 400:
            tries += 1
            n = gen(r)
            if ident_ok(n) and n != "Table" and n not in names:
                names.append(n)
        pool[cls] = names
    return pool


# ---------------------------------------------------------------------------
# Rename / method strings
# ---------------------------------------------------------------------------

RENAMES = {
    "plain": ["plain_name", "my_id", "name", "surname", "EMail", "x", "_x1", "Name2", "user", "another_name",
              "something_else", "creation_date", "A", "camelCase", "HelloTable"],
    "underscore_only": ["_", "__"],
    "empty": [""],
    "dquote": ['a"b', '"', '""', '"quoted"', 'x"', '"x'],
    "backtick": ["EM`ail", "`", "Hel`lo", "``", "`a`"],
    "squote": ["it's", "'", "''"],
    "dash": ["created-at", "-", "a-b-c"],
    "space": ["first name", " ", "  x "],
    "dot": ["schema.table", ".", "a.b.c"],
    "nonascii": ["é", "café", "名", "名前", "ß", "Ünï_1"],
    "digit_first": ["1abc", "9", "2_x"],
    "rbracket": ["a]b", "]", "]]", "x]"],
    "lbracket": ["[x", "[a]", "["],
    "backslash": ["a\\b", "\\"],
    "brace": ["x{}y", "{", "}}", "{0}", "{{"],
    "control": ["a\tb", "a\nb"],
    "mixed": ['a"b`c]d', "\"`]'", "é\"`"],
    "percent": ["100%", "a%sb"],
}
SPECIAL_CHAR = {"dquote": '"', "backtick": "`", "squote": "'", "dash": "-", "space": " ", "dot": ".", "rbracket": "]",
                "lbracket": "[", "backslash": "\\", "percent": "%", "nonascii": "é"}
PLAIN_FRAGMENTS = ["a", "b", "x1", "user_id", "Na", "col", "_t", "Z9"]
PLAIN_RENAME_CLASSES = ["plain", "plain", "plain", "plain", "underscore_only", "empty"]
NONPLAIN_RENAME_CLASSES = ["dquote", "dquote", "backtick", "backtick", "squote", "dash", "space", "dot", "nonascii",
                           "nonascii", "digit_first", "rbracket", "rbracket", "lbracket", "backslash", "brace",
                           "control", "mixed", "percent"]
for _c, _items in RENAMES.items():
    for _s in _items:
        assert is_plain(_s) == (_c in ("plain", "underscore_only", "empty")), (_c, _s)


def rust_str(s):
    out = ['"']
    for ch in s:
        if ch == "\\":
            out.append("\\\\")
        elif ch == '"':
            out.append('\\"')
        elif ord(ch) < 0x20 or ord(ch) == 0x7F:
            out.append("\\u{%x}" % ord(ch))
        else:
            out.append(ch)
    out.append('"')
    return "".join(out)


# ---------------------------------------------------------------------------
# Generated program representation
# ---------------------------------------------------------------------------

class Variant:
    def __init__(self, name, ncls, form, attr):
        self.name = name          # Rust identifier of the variant
        self.ncls = ncls          # name pattern class
        self.form = form          # unit | tuple | named
        self.attr = attr          # None | (kind, ...) kind in iden_eq, iden_rename, method_eq, iden_method, flatten
        self.field = None         # field name for named variants


class TypeDef:
    def __init__(self):
        self.tid = None
        self.kind = None          # enum_iden enum_static unit_iden unit_static enum_def
        self.name = None
        self.ncls = None
        self.container = None     # None | (iden_eq|iden_rename, string, rename class)
        self.variants = []
        self.methods = []         # (name, return type, string)
        self.is_copy = False
        self.theme = None
        self.pinned = None        # label for pinned probe types
        # enum_def
        self.fields = []          # (field name, class)
        self.opts = {}            # prefix / suffix / table_name
        self.enum_name = None
        # derived
        self.source = ""
        self.instances = []
        self.path_kind = None
        self.module = None


class Instance:
    def __init__(self, expr, expected, rule, ncls, combo, nontrivial, variant, static, debug=None):
        self.iid = None
        self.expr = expr
        self.expected = expected
        self.rule = rule
        self.ncls = ncls
        self.combo = combo
        self.nontrivial = nontrivial
        self.variant = variant
        self.static = static
        self.debug = debug


def attr_label(attr):
    if attr is None:
        return "none"
    k = attr[0]
    if k in ("iden_eq", "iden_rename"):
        return f"{k}:{attr[2]}"
    if k in ("method_eq", "iden_method"):
        return f"{k}:{attr[3]}"
    return k


def attr_src(attr):
    k = attr[0]
    if k == "iden_eq":
        return f"#[iden = {rust_str(attr[1])}]"
    if k == "iden_rename":
        return f"#[iden(rename = {rust_str(attr[1])})]"
    if k == "method_eq":
        return f'#[method = "{attr[1]}"]'
    if k == "iden_method":
        return f'#[iden(method = "{attr[1]}")]'
    if k == "flatten":
        return "#[iden(flatten)]"
    raise AssertionError(k)


def weighted(r, pairs):
    total = sum(w for _, w in pairs)
    x = r.random() * total
    for c, w in pairs:
        x -= w
        if x <= 0:
            return c
    return pairs[-1][0]


class Generator:
    def __init__(self, seed, k, pool, ntypes, with_pinned):
        self.seed = seed
        self.k = k
        self.pool = pool
        self.r = random.Random(f"c19-types-{seed}-{k}")
        self.types = []
        self.modules = []
        self.method_ctr = 0
        while len(self.types) < ntypes:
            self.new_module()
        if with_pinned:
            self.pinned_module()
        for t in self.types:
            self.finish(t)

    # -- names ---------------------------------------------------------------
    def pick(self, weights, taken, extra_ok=None):
        for _ in range(200):
            cls = weighted(self.r, weights)
            names = self.pool.get(cls) or []
            if not names:
                continue
            n = self.r.choice(names)
            if n in taken:
                continue
            if extra_ok and not extra_ok(n):
                continue
            return n, cls
        raise Inconclusive("name pool exhausted")

    def rename(self, plain, allow_brace=True, quoteish=False):
        classes = PLAIN_RENAME_CLASSES if plain else NONPLAIN_RENAME_CLASSES
        if quoteish and self.r.random() < 0.7:
            # names holding a closing-quote character of some backend: only
            # these can tell escaped from unescaped output
            classes = ["dquote", "backtick", "rbracket", "mixed"]
        while True:
            c = self.r.choice(classes)
            if c == "brace" and not allow_brace:
                continue
            ch = SPECIAL_CHAR.get(c)
            if ch is not None and self.r.random() < 0.6:
                # composed: plain fragments around the special character
                a, b = self.r.choice(PLAIN_FRAGMENTS), self.r.choice(PLAIN_FRAGMENTS)
                s = self.r.choice([a + ch + b, a + ch + b, a + ch, a + ch + ch + b, ch + b, a + ch + b + ch])
                assert not is_plain(s)
                return s, c
            return self.r.choice(RENAMES[c]), c

    def rename_attr(self, plain, allow_brace=True, quoteish=False):
        s, c = self.rename(plain, allow_brace, quoteish)
        return (self.r.choice(["iden_eq", "iden_rename"]), s, c)

    # -- modules / types -----------------------------------------------------
    def register(self, t, module):
        t.tid = len(self.types)
        t.module = len(self.modules) - 1
        self.types.append(t)
        module.append(t)

    def new_module(self):
        module = []
        self.modules.append(module)
        taken = set()
        kind = weighted(self.r, [("enum_iden", 45), ("enum_static", 25), ("unit_iden", 8), ("unit_static", 7),
                                 ("enum_def", 15)])
        if kind == "enum_def":
            self.gen_enum_def(module, taken)
        elif kind.startswith("unit"):
            self.gen_unit(module, taken, kind == "unit_static")
        else:
            self.gen_enum(module, taken, kind == "enum_static", 0)

    def gen_unit(self, module, taken, static, force_nonplain=False):
        t = TypeDef()
        t.kind = "unit_static" if static else "unit_iden"
        t.name, t.ncls = self.pick(TYPE_CLASS_WEIGHTS + [("pascal2", 10)], taken)
        taken.add(t.name)
        x = self.r.random()
        if force_nonplain:
            t.container = self.rename_attr(False, allow_brace=False, quoteish=True)
        elif x < 0.5:
            t.container = None
        elif x < 0.7:
            t.container = self.rename_attr(True)
        else:
            # `{`/`}` are kept out of unit-struct renames: see pinned_module()
            t.container = self.rename_attr(False, allow_brace=False, quoteish=True)
        t.is_copy = static or self.r.random() < 0.5
        self.register(t, module)
        return t

    def gen_enum(self, module, taken, static, depth):
        r = self.r
        t = TypeDef()
        t.kind = "enum_static" if static else "enum_iden"
        if r.random() < 0.03 and "Table" not in taken:
            t.name, t.ncls = "Table", "type_named_table"
        else:
            t.name, t.ncls = self.pick(TYPE_CLASS_WEIGHTS, taken)
        taken.add(t.name)
        self.register(t, module)  # outer type gets the lower tid
        theme = weighted(r, [("plain_noattr", 22), ("plain_renames", 13), ("one_nonplain", 22), ("one_method", 6),
                             ("one_flatten", 5), ("wild", 32)])
        if theme == "one_flatten" and depth >= 2:
            theme = "one_method"
        t.theme = theme
        nvar = r.randint(1, 7)
        vtaken = set()
        has_table = r.random() < 0.65
        specs = []
        for i in range(nvar):
            n, c = self.pick(VARIANT_CLASS_WEIGHTS, vtaken)
            vtaken.add(n)
            specs.append((n, c))
        if has_table:
            pos = r.randrange(len(specs) + 1) if r.random() < 0.5 else 0
            specs.insert(pos, ("Table", "table"))
        # container attribute
        if theme == "plain_noattr":
            t.container = None
        elif theme == "plain_renames":
            t.container = self.rename_attr(True) if r.random() < 0.5 else None
        elif theme in ("one_nonplain", "one_method", "one_flatten"):
            t.container = self.rename_attr(True) if r.random() < 0.3 else None
        else:
            x = r.random()
            t.container = None if x < 0.5 else self.rename_attr(x < 0.75)
        nonplain_slot = None
        if theme == "one_nonplain":
            # exactly one non-plain name on the type, everything else plain:
            # either the container rename (seen through an attribute-less
            # `Table`) or one variant's rename
            table_idx = [i for i, (n, _) in enumerate(specs) if n == "Table"]
            if table_idx and r.random() < 0.3:
                t.container = self.rename_attr(False, quoteish=True)
                nonplain_slot = ("container", table_idx[0])
            else:
                nonplain_slot = ("variant", r.randrange(len(specs)))
        elif theme in ("one_method", "one_flatten"):
            # every name plain except one that the macro cannot see at
            # expansion time (a method's return value / a delegated value)
            nonplain_slot = (theme, r.randrange(len(specs)))
        flat_children = 0
        for i, (n, c) in enumerate(specs):
            form = "unit"
            attr = None
            if theme == "plain_noattr":
                form = weighted(r, [("unit", 8), ("tuple", 1.5), ("named", 0.5)])
            elif theme == "plain_renames":
                form = weighted(r, [("unit", 8), ("tuple", 1.5), ("named", 0.5)])
                if r.random() < 0.5:
                    attr = self.rename_attr(True)
            elif theme == "one_nonplain":
                form = weighted(r, [("unit", 8), ("tuple", 1.5), ("named", 0.5)])
                if nonplain_slot == ("variant", i):
                    attr = self.rename_attr(False, quoteish=True)
                elif nonplain_slot == ("container", i):
                    attr = None
                elif r.random() < 0.35:
                    attr = self.rename_attr(True)
            elif theme in ("one_method", "one_flatten"):
                form = weighted(r, [("unit", 8), ("tuple", 1.5), ("named", 0.5)])
                if nonplain_slot == ("one_method", i):
                    self.method_ctr += 1
                    mname = f"quoted_name_{self.method_ctr}"
                    s, sc = self.rename(False, quoteish=True)
                    rty = "&'static str" if static else r.choice(["&'static str", "&str", "::std::string::String"])
                    t.methods.append((mname, rty, s))
                    attr = (r.choice(["method_eq", "iden_method"]), mname, s, sc)
                elif nonplain_slot == ("one_flatten", i):
                    inner = self.gen_unit(module, taken, static or r.random() < 0.3, force_nonplain=True)
                    attr = ("flatten", inner)
                    form = r.choice(["tuple", "named"])
                elif r.random() < 0.35:
                    attr = self.rename_attr(True)
            else:
                form = weighted(r, [("unit", 6), ("tuple", 3), ("named", 1)])
                x = r.random()
                if x < 0.30:
                    attr = None
                elif x < 0.45:
                    attr = self.rename_attr(True)
                elif x < 0.65:
                    attr = self.rename_attr(False)
                elif x < 0.82:
                    self.method_ctr += 1
                    mname = r.choice(["custom_to_string", "m", "name_of", "ident"]) + f"_{self.method_ctr}"
                    s, sc = self.rename(r.random() < 0.4)
                    rty = "&'static str" if static else r.choice(["&'static str", "&str", "::std::string::String"])
                    t.methods.append((mname, rty, s))
                    attr = (r.choice(["method_eq", "iden_method"]), mname, s, sc)
                elif depth < 2 and flat_children < 2:
                    flat_children += 1
                    inner_kind = weighted(r, [("enum", 7), ("unit", 3)])
                    inner_static = static or r.random() < 0.3
                    if inner_kind == "unit":
                        inner = self.gen_unit(module, taken, inner_static)
                    else:
                        inner = self.gen_enum(module, taken, inner_static, depth + 1)
                    attr = ("flatten", inner)
                    form = r.choice(["tuple", "named"])
            v = Variant(n, c, form, attr)
            if form == "named":
                v.field = r.choice(["info", "first", "inner", "f", "x", "value0"])
            t.variants.append(v)
        flat_inners = [v.attr[1] for v in t.variants if v.attr and v.attr[0] == "flatten"]
        t.is_copy = static or (all(i.is_copy for i in flat_inners) and r.random() < 0.5)
        return t

    def gen_enum_def(self, module, taken):
        r = self.r

        def type_ok(n):
            s = model_snake(n)
            return bool(IDENT_RE.match(s)) and s != "_" and s not in KEYWORDS

        t = TypeDef()
        t.kind = "enum_def"
        t.name, t.ncls = self.pick(TYPE_CLASS_WEIGHTS, taken, type_ok)
        taken.add(t.name)
        opts = {}
        x = r.random()
        if x < 0.35:
            pass
        else:
            if r.random() < 0.5:
                opts["prefix"] = r.choice(["", "Enum", "My_", "E"])
            if r.random() < 0.5:
                opts["suffix"] = r.choice(["", "Def", "Iden2", "_Cols"])
            if r.random() < 0.5:
                opts["table_name"] = r.choice(["HelloTable", "my_table", "tbl2", "_t", "T", "users", "X_y_Z"])
        prefix = opts.get("prefix", "")
        suffix = opts.get("suffix", "Iden")
        if prefix + suffix == "":
            opts["suffix"] = "Def"
            suffix = "Def"
        t.opts = opts
        t.enum_name = prefix + t.name + suffix
        if not IDENT_RE.match(t.enum_name) or t.enum_name in taken or t.enum_name in KEYWORDS:
            raise Inconclusive(f"generator: bad enum_def name {t.enum_name}")
        taken.add(t.enum_name)
        nf = r.randint(1, 6)
        pascals = {"Table"}
        ftaken = set()
        for _ in range(nf):
            def field_ok(n):
                p = model_pascal(n)
                return bool(re.match(r"\A[A-Z][A-Za-z0-9]*\Z", p)) and p not in pascals

            n, c = self.pick(FIELD_CLASS_WEIGHTS, ftaken, field_ok)
            ftaken.add(n)
            pascals.add(model_pascal(n))
            t.fields.append((n, c))
        self.register(t, module)
        return t

    def pinned_module(self):
        """Fixed probe types kept apart from the random workload (stable
        signatures, so that a recorded finding can be matched exactly)."""
        module = []
        self.modules.append(module)
        for name, static, attr in [
            ("PinnedBraceUnit", False, ("iden_eq", "a{{b}}", "brace_escape")),
            ("PinnedBraceUnitStatic", True, ("iden_rename", "a{{b}}", "brace_escape")),
        ]:
            t = TypeDef()
            t.kind = "unit_static" if static else "unit_iden"
            t.name, t.ncls = name, "pascal3"
            t.container = attr
            t.is_copy = True
            t.pinned = "unit struct renamed to a string with doubled braces"
            self.register(t, module)

    # -- source text, instances, expectations --------------------------------
    def table_name(self, t):
        if t.container is not None:
            return t.container[1]
        return model_snake(t.name)

    def finish(self, t):
        if t.kind == "enum_def":
            return self.finish_enum_def(t)
        derives = []
        if t.is_copy:
            derives += ["Copy", "Clone"]
        static = t.kind.endswith("static")
        derives.append("IdenStatic" if static else "Iden")
        if self.r.random() < 0.3:
            derives.reverse()
        lines = [f"#[derive({', '.join(derives)})]"]
        if t.container is not None:
            lines.append(attr_src(t.container))
        cl = "none" if t.container is None else f"{t.container[0]}:{t.container[2]}"
        if t.kind.startswith("unit"):
            lines.append(f"pub struct {t.name};")
            expected = self.table_name(t)
            t.path_kind = "fast" if is_plain(expected) else "general"
            rule = "R.rename" if t.container is not None else "R.table"
            combo = f"{t.kind}/c:{cl}"
            if t.pinned:
                combo = "pinned/" + t.pinned
            nontrivial = t.container is not None or t.ncls not in TRIVIAL_NAME_CLASSES
            t.instances.append(Instance(t.name, expected, rule, f"type:{t.ncls}", combo, nontrivial, "(unit struct)", static))
        else:
            lines.append(f"pub enum {t.name} {{")
            all_valid = True
            for v in t.variants:
                if v.attr is not None:
                    lines.append("    " + attr_src(v.attr))
                if v.attr and v.attr[0] == "flatten":
                    inner = v.attr[1]
                    if v.form == "tuple":
                        lines.append(f"    {v.name}({inner.name}),")
                    else:
                        lines.append(f"    {v.name} {{ {v.field}: {inner.name} }},")
                elif v.form == "unit":
                    lines.append(f"    {v.name},")
                elif v.form == "tuple":
                    lines.append(f"    {v.name}(i32),")
                else:
                    lines.append(f"    {v.name} {{ {v.field}: i32 }},")
                # the model's own view of which types may skip escaping
                if v.attr is None:
                    nm = self.table_name(t) if v.name == "Table" else model_snake(v.name)
                    all_valid &= is_plain(nm)
                elif v.attr[0] in ("iden_eq", "iden_rename"):
                    all_valid &= is_plain(v.attr[1])
                else:
                    all_valid = False
            lines.append("}")
            t.path_kind = "fast" if all_valid else "general"
            if t.methods:
                lines.append(f"impl {t.name} {{")
                for (m, rty, s) in t.methods:
                    body = rust_str(s) + (".to_owned()" if rty.endswith("String") else "")
                    lines.append(f"    pub fn {m}(&self) -> {rty} {{ {body} }}")
                lines.append("}")
        t.source = "\n".join(lines)
        # instances of enums are built after all inner types are finished:
        # inner types have larger tids, so do it lazily in instances_of()

    def instances_of(self, t):
        if t.instances or t.kind in ("enum_def",) or t.kind.startswith("unit"):
            return t.instances
        static = t.kind == "enum_static"
        cl = "none" if t.container is None else f"{t.container[0]}:{t.container[2]}"
        for v in t.variants:
            a = v.attr
            # the container attribute only matters for an attribute-less `Table`
            csel = cl if (v.name == "Table" and a is None) else "-"
            base_combo = f"{t.kind}/c:{csel}/{v.form}/v:{attr_label(a)}"
            if a and a[0] == "flatten":
                inner = a[1]
                for ii in self.instances_of(inner)[:5]:
                    if v.form == "tuple":
                        expr = f"{t.name}::{v.name}({ii.expr})"
                    else:
                        expr = f"{t.name}::{v.name} {{ {v.field}: {ii.expr} }}"
                    t.instances.append(Instance(expr, ii.expected, "R.flatten", v.ncls,
                                                base_combo + ">" + ii.combo.split("/")[0], True,
                                                f"{v.name} -> {ii.variant}", static))
                continue
            if v.form == "unit":
                expr = f"{t.name}::{v.name}"
            elif v.form == "tuple":
                expr = f"{t.name}::{v.name}(0)"
            else:
                expr = f"{t.name}::{v.name} {{ {v.field}: 0 }}"
            ncls = v.ncls
            if a is None:
                if v.name == "Table":
                    expected = self.table_name(t)
                    rule = "R.table"
                    ncls = f"table:{t.ncls}"
                    nontrivial = t.container is not None or t.ncls not in TRIVIAL_NAME_CLASSES
                else:
                    expected = model_snake(v.name)
                    rule = "R.name"
                    nontrivial = v.ncls not in TRIVIAL_NAME_CLASSES
            elif a[0] in ("iden_eq", "iden_rename"):
                expected, rule, nontrivial = a[1], "R.rename", True
            else:
                expected, rule, nontrivial = a[2], "R.method", True
            t.instances.append(Instance(expr, expected, rule, ncls, base_combo, nontrivial, v.name, static))
        return t.instances

    def finish_enum_def(self, t):
        opts = ", ".join(f"{k} = {rust_str(v)}" for k, v in t.opts.items())
        lines = [f"#[enum_def({opts})]" if t.opts else "#[enum_def]"]
        lines.append(f"pub struct {t.name} {{")
        for (f, _c) in t.fields:
            lines.append(f"    pub {f}: i32,")
        lines.append("}")
        t.source = "\n".join(lines)
        t.path_kind = "default"
        ol = "+".join(sorted(t.opts)) or "none"
        table = t.opts.get("table_name", model_snake(t.name))
        t.instances.append(Instance(f"{t.enum_name}::Table", table, "R.enum_def", f"table:{t.ncls}",
                                    f"enum_def/o:{ol}/table", True, "Table", True, debug="Table"))
        for (f, c) in t.fields:
            p = model_pascal(f)
            t.instances.append(Instance(f"{t.enum_name}::{p}", f, "R.enum_def", f"field:{c}",
                                        f"enum_def/o:{ol}/field", True, p, True, debug=p))

    # -- crate text ------------------------------------------------------------
    def main_rs(self):
        out = ["// generated by /verif/c19_driver.py -- seed %s crate %s" % (self.seed, self.k),
               "#![allow(dead_code, non_camel_case_types, non_snake_case, unused, clippy::all)]", ""]
        out.append(open(os.path.join(TMPL, "rt.rs")).read())
        total = 0
        for mi, module in enumerate(self.modules):
            out.append(f"pub mod g{mi} {{")
            out.append("    use super::rt;")
            out.append("    use sea_query::{enum_def, Iden, IdenStatic};")
            for t in module:
                out.append(f"    // type {t.tid}")
                for ln in t.source.split("\n"):
                    out.append("    " + ln)
            out.append("    pub fn run(out: &mut ::std::string::String) {")
            for t in module:
                for i, inst in enumerate(self.instances_of(t)):
                    inst.iid = i
                    out.append(f"        rt::obs_iden(out, {t.tid}, {i}, &{inst.expr});")
                    total += 1
                    if inst.static:
                        out.append(f"        rt::obs_static(out, {t.tid}, {i}, &{inst.expr});")
                    if inst.debug is not None:
                        out.append(f"        rt::obs_debug(out, {t.tid}, {i}, &{inst.expr});")
            out.append("    }")
            out.append("}")
        out.append("fn main() {")
        out.append("    let mut out = ::std::string::String::new();")
        for mi in range(len(self.modules)):
            out.append(f"    g{mi}::run(&mut out);")
        out.append(f'    out.push_str("END\\t{total}\\n");')
        out.append("    use std::io::Write as _;")
        out.append("    std::io::stdout().write_all(out.as_bytes()).unwrap();")
        out.append("}")
        return "\n".join(out) + "\n"


# ---------------------------------------------------------------------------
# cargo plumbing
# ---------------------------------------------------------------------------

def run_cmd(cmd, cwd, timeout, stdin=None):
    try:
        p = subprocess.run(cmd, cwd=cwd, env=CARGO_ENV, input=stdin, stdout=subprocess.PIPE, stderr=subprocess.PIPE,
                           text=True, timeout=timeout)
    except subprocess.TimeoutExpired:
        raise Inconclusive(f"timeout ({timeout}s) running {' '.join(cmd[:3])} in {cwd}")
    return p.returncode, p.stdout, p.stderr


def lockfile_src():
    for p in (os.path.join(REPO, "Cargo.lock"), "/repo/Cargo.lock"):
        if os.path.exists(p):
            return p
    raise Inconclusive(f"{os.path.join(REPO, 'Cargo.lock')} missing")


def heck_reference(names):
    """heck 0.4's snake/pascal case of every name (built once, cached)."""
    d = os.path.join(GEN_DIR, "heck_helper")
    os.makedirs(os.path.join(d, "src"), exist_ok=True)

    def put(path, text):
        if not os.path.exists(path) or open(path).read() != text:
            with open(path, "w") as f:
                f.write(text)

    put(os.path.join(d, "Cargo.toml"), open(os.path.join(TMPL, "heck_helper.Cargo.toml.tmpl")).read())
    put(os.path.join(d, "src", "main.rs"), open(os.path.join(TMPL, "heck_helper.main.rs")).read())
    if not os.path.exists(os.path.join(d, "Cargo.lock")):
        shutil.copyfile(lockfile_src(), os.path.join(d, "Cargo.lock"))
    rc, so, se = run_cmd(["cargo", "build", "--offline", "--quiet"], d, 600)
    if rc != 0:
        raise Inconclusive("heck helper failed to build:\n" + se[-2000:])
    exe = os.path.join(TARGET_DIR, "debug", "gen19_heck_helper")
    rc, so, se = run_cmd([exe], d, 120, stdin="".join(n + "\n" for n in names))
    if rc != 0:
        raise Inconclusive("heck helper failed to run: " + se[-500:])
    ref = {}
    lines = so.split("\n")
    if "END" not in lines:
        raise Inconclusive("heck helper output truncated")
    for ln in lines:
        parts = ln.split("\t")
        if len(parts) == 3:
            ref[parts[0]] = (parts[1], parts[2])
    missing = [n for n in names if n not in ref]
    if missing:
        raise Inconclusive(f"heck helper gave no answer for {missing[:3]}")
    return ref


def write_workspace(seed, gens, tag):
    """Lay out one workspace with one member crate per generator; returns
    (workspace dir, [(k, crate dir, package name)])."""
    os.makedirs(GEN_DIR, exist_ok=True)
    ws = os.path.join(GEN_DIR, f"ws-{seed}{tag}")
    os.makedirs(ws, exist_ok=True)
    crates = []
    for g in gens:
        cdir = os.path.join(GEN_DIR, f"{seed}-{g.k}{tag}")
        os.makedirs(os.path.join(cdir, "src"), exist_ok=True)
        pkg = f"gen19_s{seed}_c{g.k}{tag.replace('-', '_')}"
        toml = open(os.path.join(TMPL, "crate.Cargo.toml.tmpl")).read()
        toml = toml.replace("@PKG@", pkg).replace("@REPO@", REPO).replace("@WSREL@", f"../ws-{seed}{tag}")
        with open(os.path.join(cdir, "Cargo.toml"), "w") as f:
            f.write(toml)
        with open(os.path.join(cdir, "src", "main.rs"), "w") as f:
            f.write(g.main_rs())
        shutil.copyfile(lockfile_src(), os.path.join(cdir, "Cargo.lock"))
        crates.append((g.k, cdir, pkg))
    members = ", ".join(f'"../{seed}-{g.k}{tag}"' for g in gens)
    with open(os.path.join(ws, "Cargo.toml"), "w") as f:
        f.write(open(os.path.join(TMPL, "ws.Cargo.toml.tmpl")).read().replace("@MEMBERS@", members))
    shutil.copyfile(lockfile_src(), os.path.join(ws, "Cargo.lock"))
    return ws, crates


def remove_bins(pkgs):
    if os.environ.get("C19_KEEP_BINS") == "1":
        return
    dbg = os.path.join(TARGET_DIR, "debug")
    for pkg in pkgs:
        for d in (dbg, os.path.join(dbg, "deps")):
            try:
                for fn in os.listdir(d):
                    if fn == pkg or fn.startswith(pkg + "-") or fn.startswith(pkg + "."):
                        p = os.path.join(d, fn)
                        if os.path.isfile(p):
                            os.remove(p)
            except OSError:
                pass
        fp = os.path.join(dbg, ".fingerprint")
        try:
            for fn in os.listdir(fp):
                if fn.startswith(pkg + "-"):
                    shutil.rmtree(os.path.join(fp, fn), ignore_errors=True)
        except OSError:
            pass


# ---------------------------------------------------------------------------
# Checking
# ---------------------------------------------------------------------------

def parse_output(text):
    obs = {}
    end = None
    for ln in text.split("\n"):
        if not ln:
            continue
        p = ln.split("\t")
        if p[0] == "O" and len(p) == 5:
            try:
                val = bytes.fromhex(p[4]).decode("utf-8")
            except ValueError:
                val = "<undecodable:" + p[4] + ">"
            obs.setdefault((int(p[1]), int(p[2])), {})[p[3]] = val
        elif p[0] == "END" and len(p) == 2:
            end = int(p[1])
    return obs, end


class Checker:
    def __init__(self, seed, tier, verbose=False, only_type=None):
        self.only_type = only_type
        self.seed = seed
        self.tier = tier
        self.verbose = verbose
        self.evaluations = 0
        self.distinct = set()
        self.counters = {}
        self.attr_combos = {}
        self.name_patterns = {}
        self.rename_classes = {}
        self.violations = []
        self.samples = []
        self.harness_errors = []

    def count(self, k, n=1):
        self.counters[k] = self.counters.get(k, 0) + n

    def violate(self, g, t, inst, rule, observable, expected, got, extra=None):
        sig = f"{rule}|name={inst.ncls}|attr={inst.combo}"
        if t.pinned:
            sig = f"{rule}|pinned|{t.pinned}"
        detail = {"crate": g.k, "type_id": t.tid, "type_source": self.full_source(g, t), "variant": inst.variant,
                  "value_expr": inst.expr, "observable": observable, "expected": expected, "got": got,
                  "path_kind": t.path_kind}
        if extra:
            detail.update(extra)
        self.violations.append({"rule": rule, "backend": "-", "signature": sig, "detail": detail})
        if self.verbose:
            say(f"  MISMATCH {rule} type {t.tid} {inst.expr} {observable}: expected {expected!r} got {got!r}")

    @staticmethod
    def full_source(g, t):
        """The type with everything in its module it depends on."""
        mod = g.modules[t.module]
        deps = []

        def walk(x):
            if x in deps:
                return
            deps.append(x)
            for v in x.variants:
                if v.attr and v.attr[0] == "flatten":
                    walk(v.attr[1])

        walk(t)
        return "\n".join(x.source for x in mod if x in deps)

    def check_crate(self, g, output):
        obs, end = parse_output(output)
        expected_instances = sum(len(g.instances_of(t)) for t in g.types)
        if end != expected_instances:
            self.harness_errors.append(f"crate {g.k}: END marker {end} != {expected_instances} instances")
            return
        self.count("crates_checked")
        for t in g.types:
            if self.only_type is not None and t.tid != self.only_type:
                continue
            self.count("types")
            self.count(f"types_kind_{t.kind}")
            self.count(f"types_path_{t.path_kind}")
            insts = g.instances_of(t)
            if t.kind.startswith("enum_") and t.kind != "enum_def":
                names_plain = [is_plain(i.expected) for i in insts if i.rule in ("R.name", "R.table", "R.rename")]
                if t.path_kind == "general" and any(names_plain):
                    self.count("types_general_path_with_some_plain_names")
                if t.theme:
                    self.count(f"enum_theme_{t.theme}")
            sample_obs = []
            for inst in insts:
                o = obs.get((t.tid, inst.iid))
                if o is None:
                    self.harness_errors.append(f"crate {g.k}: no output for type {t.tid} instance {inst.iid}")
                    continue
                self.check_instance(g, t, inst, o)
                if len(sample_obs) < 4:
                    sample_obs.append({"value": inst.expr, "to_string": o.get("to_string"),
                                       "prepare_dq": o.get("prepare:dq"), "prepare_bt": o.get("prepare:bt"),
                                       "prepare_br": o.get("prepare:br"),
                                       **({"as_str": o.get("as_str")} if inst.static else {}),
                                       **({"debug": o.get("debug")} if inst.debug else {})})
            if len(self.samples) < 8 and (t.tid % 37 == 3 or (t.kind == "enum_def" and not any(
                    s["kind"] == "enum_def" for s in self.samples)) or (t.path_kind == "general" and not any(
                    s["path_kind"] == "general" for s in self.samples))):
                self.samples.append({"crate": g.k, "type_id": t.tid, "kind": t.kind, "path_kind": t.path_kind,
                                     "source": self.full_source(g, t), "observed": sample_obs})

    def check_instance(self, g, t, inst, o):
        exp = inst.expected
        self.attr_combos[inst.combo] = self.attr_combos.get(inst.combo, 0) + 1
        self.name_patterns[inst.ncls] = self.name_patterns.get(inst.ncls, 0) + 1
        if inst.nontrivial:
            self.distinct.add((inst.ncls, inst.combo, t.path_kind))
            self.count("instances_nontrivial")
        self.count("instances")
        self.count(f"instances_rule_{inst.rule}")
        need = ["to_string", "unquoted"] + [f"{p}:{q}" for q, _, _ in QUOTES for p in ("quoted", "prepare", "general")]
        if inst.static:
            need += ["as_str", "as_ref"]
        if inst.debug is not None:
            need += ["debug"]
        for n in need:
            if n not in o:
                self.harness_errors.append(f"crate {g.k}: type {t.tid} instance {inst.iid}: observable {n} missing")
                return
        got_name = o["to_string"]
        name_bad = False
        for n in ("to_string", "unquoted"):
            self.evaluations += 1
            if o[n] != exp:
                name_bad = True
                self.violate(g, t, inst, inst.rule, n, exp, o[n])
        for qn, left, right in QUOTES:
            for p, rule in (("quoted", "R.quoted"), ("prepare", "R.prepare-fastpath"), ("general", "R.quoted")):
                self.evaluations += 1
                key = f"{p}:{qn}"
                want = model_quoted(exp, right) if p == "quoted" else model_prepare(exp, left, right)
                if o[key] == want:
                    continue
                if name_bad:
                    alt = model_quoted(got_name, right) if p == "quoted" else model_prepare(got_name, left, right)
                    if o[key] == alt:
                        # correct quoting of the (already reported) wrong name
                        self.count("quoting_mismatch_explained_by_name_violation")
                        continue
                self.violate(g, t, inst, rule, key, want, o[key],
                             {"quote": left + right, "general_path_output": o[f"general:{qn}"],
                              "to_string": got_name})
            if right in exp:
                self.count(f"quote_char_in_name_{qn}")
        if inst.static:
            for n in ("as_str", "as_ref"):
                self.evaluations += 1
                if o[n] != exp:
                    if name_bad and o[n] == got_name:
                        self.count("as_str_mismatch_explained_by_name_violation")
                        continue
                    self.violate(g, t, inst, "R.as_str" if t.kind != "enum_def" else "R.enum_def", n, exp, o[n],
                                 {"to_string": got_name})
        if inst.debug is not None:
            self.evaluations += 1
            if o["debug"] != inst.debug:
                self.violate(g, t, inst, "R.enum_def", "debug", inst.debug, o["debug"])


def load_findings():
    try:
        j = json.load(open(FINDINGS))
    except Exception:
        return []
    return [f for f in j.get("findings", []) if f.get("property") == PROP and f.get("status") == "open"]


def finding_matches(f, v):
    return f.get("rule") == v["rule"] and f.get("backend") in (v["backend"], "*") and f.get("signature") == v["signature"]


# ---------------------------------------------------------------------------
# main
# ---------------------------------------------------------------------------

def main():
    ap = argparse.ArgumentParser()
    ap.add_argument("prop")
    ap.add_argument("tier", choices=["quick", "thorough"])
    ap.add_argument("--out")
    ap.add_argument("--seed", type=int, default=1)
    ap.add_argument("--replay")
    a = ap.parse_args()
    if a.prop != PROP:
        say(f"INCONCLUSIVE: this driver only checks {PROP}")
        return 2
    t0 = time.time()
    tier, seed = a.tier, a.seed
    replay = None
    if a.replay:
        replay = json.load(open(a.replay))
        seed = int(replay["seed"])
        tier = replay.get("tier", tier)
    ncrates, ntypes = (1, 300) if tier == "quick" else (48, 600)
    if replay:
        ncrates = int(replay.get("ncrates", ncrates))
        ntypes = int(replay.get("ntypes", ntypes))
    else:
        ncrates = int(os.environ.get("C19_NCRATES", ncrates))
        ntypes = int(os.environ.get("C19_NTYPES", ntypes))
    crate_ids = list(range(ncrates))
    if replay:
        crate_ids = [int(replay["crate"])]
    with_pinned = os.environ.get("C19_PINNED", "1") != "0"
    if replay:
        with_pinned = bool(replay.get("pinned", with_pinned))
    tag = "-replay" if replay else ""

    chk = Checker(seed, tier, verbose=bool(replay), only_type=replay.get("type_id") if replay else None)
    status = 0
    why = None
    pkgs = []
    ambiguous = []
    try:
        # 1. candidate names, cross-checked against heck
        pools = {k: gen_pool(seed, k) for k in crate_ids}
        all_names = sorted({n for p in pools.values() for ns in p.values() for n in ns})
        ref = heck_reference(all_names)
        ambiguous = []
        for n in all_names:
            if (model_snake(n), model_pascal(n)) != ref[n]:
                ambiguous.append({"name": n, "model": [model_snake(n), model_pascal(n)], "heck": list(ref[n])})
        amb = {x["name"] for x in ambiguous}
        for k in pools:
            for cls in pools[k]:
                pools[k][cls] = [n for n in pools[k][cls] if n not in amb]
        chk.counters["candidate_names"] = len(all_names)
        chk.counters["ambiguous_names_discarded"] = len(ambiguous)
        # 2. programs
        gens = [Generator(seed, k, pools[k], ntypes, with_pinned and k == 0) for k in crate_ids]
        ws, crates = write_workspace(seed, gens, tag)
        pkgs = [c[2] for c in crates]
        # 3. compile: the derive macros run here
        tb = time.time()
        limit = 900 if tier == "quick" else 3 * 3600
        rc, so, se = run_cmd(["cargo", "build", "--offline"], ws, limit)
        chk.counters["build_wall_s"] = round(time.time() - tb, 1)
        if rc != 0:
            errs = [ln for ln in se.split("\n") if ln.startswith("error")][:10]
            tail = "\n".join(se.split("\n")[-60:])
            say(tail)
            raise Inconclusive("generated crate failed to compile (generator or toolchain problem, not a verdict): "
                               + " / ".join(errs)[:600])
        # 4. run + compare
        for g, (k, cdir, pkg) in zip(gens, crates):
            exe = os.path.join(TARGET_DIR, "debug", pkg)
            rc, so, se = run_cmd([exe], cdir, 300)
            if rc != 0:
                chk.harness_errors.append(f"crate {k}: generated program exited with {rc}: {se[-400:]}")
                continue
            chk.check_crate(g, so)
            if replay:
                tid = replay.get("type_id")
                for t in g.types:
                    if t.tid == tid:
                        say(f"--- replayed type {tid} (crate {k}, seed {seed}) ---")
                        say(Checker.full_source(g, t))
                        obs, _ = parse_output(so)
                        for inst in g.instances_of(t):
                            say(f"  {inst.expr}: expected identifier {inst.expected!r}")
                            for key, val in sorted(obs.get((t.tid, inst.iid), {}).items()):
                                say(f"      {key:12s} = {val!r}")
    except Inconclusive as ex:
        status = 2
        why = str(ex)
    finally:
        remove_bins(pkgs)

    # classify
    findings = load_findings()
    new_v, known_hits = [], {}
    for v in chk.violations:
        f = next((f for f in findings if finding_matches(f, v)), None)
        if f is not None:
            known_hits[f["id"]] = known_hits.get(f["id"], 0) + 1
        else:
            new_v.append(v)
    for fid in sorted(known_hits):
        f = next(f for f in findings if f["id"] == fid)
        say(f"KNOWN-FINDING: property={PROP} {f.get('what', fid)}")
    for f in findings:
        if f["id"] not in known_hits and status != 2:
            say(f"INFO: listed finding {f['id']} not reproduced by this run/variant ({VARIANT})")

    seen = {}
    new_json = []
    for v in new_v:
        key = (v["rule"], v["signature"])
        if key in seen:
            seen[key]["count"] += 1
            continue
        v = dict(v)
        v["count"] = 1
        seen[key] = v
        new_json.append(v)
    if new_json and not replay:
        os.makedirs(REPLAYS, exist_ok=True)
    for i, v in enumerate(new_json):
        if replay:
            say(f"VIOLATION property={PROP} replay={a.replay}")
            say(json.dumps(v, indent=1, ensure_ascii=False))
            continue
        if i >= 20:
            break
        d = v["detail"]
        path = os.path.join(REPLAYS, f"{PROP}-{VARIANT}-{seed}-{d['crate']}-{d['type_id']}-{i}.json")
        body = {"property": PROP, "variant": VARIANT, "tier": tier, "seed": seed, "crate": d["crate"],
                "ncrates": ncrates, "ntypes": ntypes, "type_id": d["type_id"], "type_source": d["type_source"],
                "pinned": with_pinned, "repo": REPO, "violation": v}
        with open(path, "w") as f:
            json.dump(body, f, indent=1, ensure_ascii=False)
        say(f"VIOLATION property={PROP} replay={path}")
        say(f"  rule={v['rule']} signature={v['signature']}")
        say(f"  {d['value_expr']} {d['observable']}: expected {d['expected']!r} got {d['got']!r}")

    for e in chk.harness_errors[:10]:
        say(f"INCONCLUSIVE: harness error: {e}")
    if chk.harness_errors and status == 0:
        status = 2
        why = why or "harness errors"
    distinct = len(chk.distinct)
    if replay and status == 0 and not new_v:
        say(f"replay: type {replay.get('type_id')} of crate {replay.get('crate')} (seed {seed}) matches the model on this tree")
    if status == 0 and not new_v and not replay and distinct < MIN_NONTRIVIAL:
        status = 2
        why = f"only {distinct} distinct non-trivial cases compared (minimum {MIN_NONTRIVIAL})"
    if status == 2 and why and not chk.harness_errors:
        say(f"INCONCLUSIVE: {why}")
    elif status == 2 and why and chk.harness_errors and why != "harness errors":
        say(f"INCONCLUSIVE: {why}")

    wall = time.time() - t0

    def oset(d, cap=60):
        items = sorted(d, key=lambda k: (-d[k], k))
        return {"distinct": len(d), "items": items[:cap]}

    inconclusive = {}
    if status == 2:
        inconclusive[why or "inconclusive"] = 1
    part = {
        "property": PROP, "variant": VARIANT, "tier": tier, "seed": seed, "shards": len(crate_ids),
        "wall_s": round(wall, 2),
        "report": {
            "evaluations": chk.evaluations,
            "distinct_nontrivial": distinct,
            "counters": chk.counters,
            "observed_sets": {
                "attribute_combos": oset(chk.attr_combos, 200),
                "name_patterns": oset(chk.name_patterns, 100),
                "ambiguous_names": {"distinct": len(ambiguous), "items": ambiguous[:20]},
            },
            "samples": chk.samples[:8],
            "inconclusive": inconclusive,
            "exhaustive_parts": [],
        },
        "violations_new": new_json[:50],
        "violations_new_count": len(new_v),
        "known_hits": [{"id": k, "count": v} for k, v in sorted(known_hits.items())],
        "harness_errors": chk.harness_errors[:50] + ([why] if status == 2 and why and why != "harness errors" else []),
    }
    if a.out:
        os.makedirs(os.path.dirname(os.path.abspath(a.out)), exist_ok=True)
        with open(a.out, "w") as f:
            json.dump(part, f, indent=1, ensure_ascii=False)
    say(f"[{PROP} {VARIANT} {tier}] crates={len(crate_ids)} types={chk.counters.get('types', 0)} "
        f"evaluations={chk.evaluations} distinct_nontrivial={distinct} "
        f"ambiguous_names_discarded={chk.counters.get('ambiguous_names_discarded', 0)} "
        f"new_violations={len(new_v)} known={len(known_hits)} wall={wall:.1f}s")
    if new_v:
        return 1
    return status


if __name__ == "__main__":
    try:
        rc = main()
    except SystemExit:
        raise
    except BaseException as ex:  # a crash of the harness is never a verdict
        import traceback
        traceback.print_exc()
        say(f"INCONCLUSIVE: driver crashed: {type(ex).__name__}: {ex}")
        rc = 2
    sys.exit(rc)
