#!/bin/sh
# One-time offline build of the checker binaries (each check also rebuilds incrementally).
set -e
cd "$(dirname "$0")/harness"
export CARGO_NET_OFFLINE=true
cp -f /repo/Cargo.lock Cargo.lock.repo 2>/dev/null || true
cargo build --offline --profile verif --target-dir "$PWD/target" -p vcheck-base -p vcheck-hash -p vcheck-paren -p vcheck-exact 2>&1 | tail -3
echo "setup done"
