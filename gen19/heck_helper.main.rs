// Cross-check helper for C19: prints heck 0.4's snake_case and PascalCase of
// every name read from stdin (one per line) as `name<TAB>snake<TAB>pascal`.
use heck::{ToPascalCase, ToSnakeCase};
use std::io::{BufRead, Write};

fn main() {
    let stdin = std::io::stdin();
    let stdout = std::io::stdout();
    let mut out = std::io::BufWriter::new(stdout.lock());
    for line in stdin.lock().lines() {
        let line = line.unwrap();
        let name = line.trim_end_matches(['\r', '\n']);
        writeln!(out, "{}\t{}\t{}", name, name.to_snake_case(), name.to_pascal_case()).unwrap();
    }
    writeln!(out, "END").unwrap();
}
