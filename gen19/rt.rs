// Runtime support for generated C19 crates: prints every observable of every
// generated identifier value as one tab-separated line with a hex payload:
//   O <type id> <instance id> <observable> <hex(utf8)>
pub mod rt {
    use sea_query::{Alias, Iden, IdenStatic, Quote};
    use std::fmt::Write as _;

    pub fn hex(s: &str) -> ::std::string::String {
        let mut o = ::std::string::String::with_capacity(s.len() * 2);
        for b in s.as_bytes() {
            write!(o, "{:02x}", b).unwrap();
        }
        o
    }

    pub fn quotes() -> [(&'static str, Quote); 3] {
        [
            ("bt", Quote::new(b'`')),
            ("dq", Quote::new(b'"')),
            ("br", (b'[', b']').into()),
        ]
    }

    pub fn emit(out: &mut ::std::string::String, tid: u32, iid: u32, obs: &str, val: &str) {
        writeln!(out, "O\t{}\t{}\t{}\t{}", tid, iid, obs, hex(val)).unwrap();
    }

    pub fn obs_iden<I: Iden>(out: &mut ::std::string::String, tid: u32, iid: u32, i: &I) {
        let ts = Iden::to_string(i);
        emit(out, tid, iid, "to_string", &ts);
        let mut u = ::std::string::String::new();
        i.unquoted(&mut u);
        emit(out, tid, iid, "unquoted", &u);
        for (qn, q) in quotes() {
            emit(out, tid, iid, &format!("quoted:{}", qn), &i.quoted(q));
            let mut p = ::std::string::String::new();
            i.prepare(&mut p, q);
            emit(out, tid, iid, &format!("prepare:{}", qn), &p);
            // the library's general identifier quoting applied to the same text
            let mut g = ::std::string::String::new();
            Alias::new(ts.clone()).prepare(&mut g, q);
            emit(out, tid, iid, &format!("general:{}", qn), &g);
        }
    }

    pub fn obs_static<I: IdenStatic + AsRef<str>>(
        out: &mut ::std::string::String,
        tid: u32,
        iid: u32,
        i: &I,
    ) {
        emit(out, tid, iid, "as_str", IdenStatic::as_str(i));
        emit(out, tid, iid, "as_ref", AsRef::<str>::as_ref(i));
    }

    pub fn obs_debug<D: ::std::fmt::Debug>(
        out: &mut ::std::string::String,
        tid: u32,
        iid: u32,
        d: &D,
    ) {
        emit(out, tid, iid, "debug", &format!("{:?}", d));
    }
}
