#!/usr/bin/env python3
"""Writes MANIFEST.json from checks_config.py (so the two cannot drift)."""
import json, os
from checks_config import CHECKS

ROOT = os.path.dirname(os.path.abspath(__file__))
NA = json.load(open(os.path.join(ROOT, "not_applicable.json")))
claimed = sorted(CHECKS)
checks = []
for pid in claimed:
    c = CHECKS[pid]
    checks.append({
        "property_id": pid,
        "quick_cmd": f"./check {pid} quick",
        "thorough_cmd": f"./check {pid} thorough",
        "evidence_file": f"/verif/evidence/{pid}.json",
        "replay_cmd_template": f"./check {pid} --replay {{path}}",
        "engine": "runtime-monitor",
        "level_claimed": {"category": c["level"], "text": c["level_text"], "design_ref": c["design_ref"]},
        "level_note": c["level_note"],
        "technique": c["technique"],
    })
m = {
    "version": 1,
    "setup_cmd": "./setup.sh",
    "hooks": {
        "guard": "--cfg seaql_sea_query_verif",
        "enable": "no source hooks are needed: every observation is taken at the public API (a custom SqlWriter records the text/parameter event stream); checks build /repo through a cargo path dependency",
        "baseline_off_cmd": "cd /repo && cargo nextest run --workspace --no-fail-fast --tool-config-file pb:/w/lib/nextest.toml --profile pb --test-threads 8 --offline",
        "source_commits": [],
        "add_only": True,
    },
    "engines": [
        {"name": "runtime-monitor", "path": "/verif/harness", "serves_properties": claimed,
         "kind_free_text": "Rust harness (vcore oracles + vglue drivers) linked against /repo; real SQLite 3.40.1 via FFI; dialect lexers/parsers; Miri/TSan for the concurrency slice"},
    ],
    "checks": checks,
    "not_applicable": [x for x in NA if x["property_id"] not in CHECKS],
    "notes": "All checks are runtime monitors over executions of the real code; see DESIGN.md.",
}
json.dump(m, open(os.path.join(ROOT, "MANIFEST.json"), "w"), indent=1)
print("claimed:", claimed)
