//! Supplementary Miri slices (DESIGN §6): small workloads over the pure-Rust parts of sea-query so
//! that undefined behaviour on these paths (today: the transmute in `SeaRc::eq`) is watched.
//! usage: misc-miri <C12|C15|C16|C17> <n>
use sea_query::*;

fn lcg(s: &mut u64) -> u64 {
    *s = s.wrapping_mul(6364136223846793005).wrapping_add(1442695040888963407);
    *s >> 33
}

fn c16(n: u64) -> u64 {
    let alpha = [' ', '\t', 'a', '1', '_', '$', '?', ',', '\'', '"', '`', '[', ']', '\\', 'é'];
    let mut s = 7u64;
    let mut ok = 0;
    for _ in 0..n {
        let len = (lcg(&mut s) % 12) as usize;
        let input: String = (0..len).map(|_| alpha[(lcg(&mut s) % alpha.len() as u64) as usize]).collect();
        let toks: Vec<Token> = Tokenizer::new(&input).iter().collect();
        let cat: String = toks.iter().map(|t| t.as_str()).collect();
        assert_eq!(cat, input, "tokenizer not lossless");
        assert!(toks.iter().all(|t| !t.as_str().is_empty()));
        for t in &toks {
            let _ = t.unquote();
        }
        ok += 1;
    }
    ok
}

fn c17(n: u64) -> u64 {
    let alpha = ['\\', '\'', '"', '\0', '\x08', '\t', '\n', '\r', '\x1a', '0', 'b', 'z', 'a', 'é', '%'];
    let mut s = 11u64;
    let mut ok = 0;
    for _ in 0..n {
        let len = (lcg(&mut s) % 10) as usize;
        let input: String = (0..len).map(|_| alpha[(lcg(&mut s) % alpha.len() as u64) as usize]).collect();
        for b in [&MysqlQueryBuilder as &dyn QueryBuilder, &PostgresQueryBuilder, &SqliteQueryBuilder] {
            assert_eq!(b.unescape_string(&b.escape_string(&input)), input);
            ok += 1;
        }
    }
    ok
}

fn c12(n: u64) -> u64 {
    let mut s = 13u64;
    let mut ok = 0;
    for _ in 0..n {
        let x = lcg(&mut s);
        assert_eq!(Value::from(x as i64).unwrap::<i64>(), x as i64);
        assert_eq!(Value::from(x as u16).unwrap::<u16>(), x as u16);
        assert_eq!(Value::from(f64::from_bits(x)).unwrap::<f64>().to_bits(), f64::from_bits(x).to_bits());
        let st = format!("v{x}");
        assert_eq!(Value::from(st.clone()).unwrap::<String>(), st);
        assert_eq!(Value::from(None::<i32>).unwrap::<Option<i32>>(), None);
        let t = (x as i32, st.clone(), x as u8).into_value_tuple();
        let back: (i32, String, u8) = FromValueTuple::from_value_tuple(t);
        assert_eq!(back, (x as i32, st, x as u8));
        ok += 6;
    }
    ok
}

fn c15(n: u64) -> u64 {
    // identifiers are built once and cloned, so `==` compares clones of the same Rc/Arc
    // (under Miri separately created trait objects need not share a vtable address)
    let t: DynIden = SeaRc::new(Alias::new("t1"));
    let a: DynIden = SeaRc::new(Alias::new("a"));
    let b: DynIden = SeaRc::new(Alias::new("b"));
    let mut s = 17u64;
    let mut ok = 0;
    for _ in 0..n {
        let mut q = Query::select();
        let steps = 1 + lcg(&mut s) % 8;
        for _ in 0..steps {
            match lcg(&mut s) % 7 {
                0 => {
                    q.column(a.clone());
                }
                1 => {
                    q.from(t.clone());
                }
                2 => {
                    q.and_where(Expr::col(b.clone()).gt((lcg(&mut s) % 9) as i32));
                }
                3 => {
                    q.order_by(a.clone(), Order::Desc);
                }
                4 => {
                    q.limit(lcg(&mut s) % 9);
                }
                5 => {
                    q.expr_as(Expr::col(a.clone()).add(1), b.clone());
                }
                _ => {
                    q.group_by_col(b.clone());
                }
            }
            let before = q.clone();
            assert!(before == q);
            let sql = q.to_string(SqliteQueryBuilder);
            let taken = q.take();
            assert!(taken == before, "taken != before");
            assert_eq!(taken.to_string(SqliteQueryBuilder), sql);
            assert!(q == SelectStatement::new(), "take left state behind");
            q = taken;
            let mut c = q.clone();
            c.clear_order_by();
            c.reset_limit();
            let _ = c.to_string(PostgresQueryBuilder);
            ok += 1;
        }
        let w = WindowStatement::partition_by(a.clone()).order_by(b.clone(), Order::Asc).take();
        assert!(w.clone() == w);
        let cd = ColumnDef::new(a.clone()).integer().not_null().take();
        let tc = Table::create().table(t.clone()).col(cd).take();
        let _ = tc.clone().to_string(MysqlQueryBuilder);
        ok += 2;
    }
    ok
}

fn main() {
    let args: Vec<String> = std::env::args().collect();
    let n: u64 = args.get(2).and_then(|x| x.parse().ok()).unwrap_or(50);
    let done = match args.get(1).map(|s| s.as_str()) {
        Some("C12") => c12(n),
        Some("C15") => c15(n),
        Some("C16") => c16(n),
        Some("C17") => c17(n),
        _ => panic!("usage: misc-miri <C12|C15|C16|C17> <n>"),
    };
    println!("DONE checks={done}");
}
