//! Building blocks: shared identifiers, values of every variant, nested statements.
//! Nothing here reads the clock, the environment or the file system (Miri-clean).

use sea_query::extension::mysql::*;
use sea_query::extension::postgres::*;
use sea_query::extension::sqlite::*;
use sea_query::*;
use std::sync::atomic::{AtomicBool, Ordering};
use std::sync::OnceLock;

/// `--lite` (set once in `main` before any thread exists): the same nested shapes with far
/// fewer leaves, for Miri, which interprets this program ~4 orders of magnitude slower.
pub static LITE: AtomicBool = AtomicBool::new(false);

pub fn lite() -> bool {
    LITE.load(Ordering::Relaxed)
}

#[derive(Iden, Clone, Copy, Debug)]
pub enum G {
    #[iden = "glyph"]
    Table,
    Id,
    Image,
    Aspect,
    Tags,
}

#[derive(Iden, Clone, Copy, Debug)]
pub enum F {
    #[iden = "font"]
    Table,
    Id,
    Name,
    Language,
}

#[enum_def]
#[allow(dead_code)]
pub struct Cake {
    pub id: i32,
    pub flavour: String,
}

/// Identifiers shared by *all* instances of *all* table rows: a `static` holding
/// `DynIden`s is itself a Send + Sync gate, and every clone of every instance on
/// every worker thread bumps the reference counts of these same allocations.
pub struct Pool {
    pub t: DynIden,
    pub a: DynIden,
    pub b: DynIden,
    pub c: DynIden,
    pub alias: DynIden,
    pub schema: DynIden,
}

static POOL: OnceLock<Pool> = OnceLock::new();

pub fn pool() -> &'static Pool {
    POOL.get_or_init(|| Pool {
        t: Alias::new("shared_t").into_iden(),
        a: SeaRc::new(Alias::new("col \"a\"")),
        b: G::Aspect.into_iden(),
        c: CakeIden::Flavour.into_iden(),
        alias: Alias::new("x`y").into_iden(),
        schema: Alias::new("sch").into_iden(),
    })
}

fn b<T>(v: T) -> Option<Box<T>> {
    Some(Box::new(v))
}

fn ndt() -> chrono::NaiveDateTime {
    chrono::NaiveDateTime::new(
        chrono::NaiveDate::from_ymd_opt(2024, 2, 29).unwrap(),
        chrono::NaiveTime::from_hms_opt(23, 59, 58).unwrap(),
    )
}

/// One `Some` instance of every `Value` variant (all optional value features on).
pub fn all_values_some() -> Vec<Value> {
    let east = chrono::FixedOffset::east_opt(5 * 3600 + 1800).unwrap();
    let tdate = time::Date::from_calendar_date(2023, time::Month::December, 31).unwrap();
    let ttime = time::Time::from_hms(1, 2, 3).unwrap();
    let tpdt = time::PrimitiveDateTime::new(tdate, ttime);
    vec![
        Value::Bool(Some(true)),
        Value::TinyInt(Some(-8)),
        Value::SmallInt(Some(-1600)),
        Value::Int(Some(-320_000)),
        Value::BigInt(Some(i64::MIN)),
        Value::TinyUnsigned(Some(200)),
        Value::SmallUnsigned(Some(60_000)),
        Value::Unsigned(Some(4_000_000_000)),
        Value::BigUnsigned(Some(u64::MAX)),
        Value::Float(Some(1.5)),
        Value::Double(Some(-2.25e10)),
        Value::String(Some(Box::new("it's a \\ \"string\"".to_owned()))),
        Value::Char(Some('c')),
        Value::Bytes(Some(Box::new(vec![0, 1, 254, 255, b'\'']))),
        Value::Json(b(serde_json::json!({"k": [1, 2.5, null, "v'"], "o": {"n": true}}))),
        Value::ChronoDate(b(ndt().date())),
        Value::ChronoTime(b(ndt().time())),
        Value::ChronoDateTime(b(ndt())),
        Value::ChronoDateTimeUtc(b(chrono::DateTime::<chrono::Utc>::from_naive_utc_and_offset(ndt(), chrono::Utc))),
        // constructed from a fixed offset: `Local::now()` / tz lookup must not run under Miri
        Value::ChronoDateTimeLocal(b(chrono::DateTime::<chrono::Local>::from_naive_utc_and_offset(ndt(), east))),
        Value::ChronoDateTimeWithTimeZone(b(chrono::DateTime::<chrono::FixedOffset>::from_naive_utc_and_offset(ndt(), east))),
        Value::TimeDate(b(tdate)),
        Value::TimeTime(b(ttime)),
        Value::TimeDateTime(b(tpdt)),
        Value::TimeDateTimeWithTimeZone(b(tpdt.assume_offset(time::UtcOffset::from_hms(-3, -30, 0).unwrap()))),
        Value::Uuid(b(uuid::Uuid::from_u128(0x0123_4567_89ab_cdef_0123_4567_89ab_cdef))),
        Value::Decimal(b(rust_decimal::Decimal::new(-314_159, 5))),
        Value::BigDecimal(b("12345678901234567890.0123456789".parse::<bigdecimal::BigDecimal>().unwrap())),
        Value::Array(
            ArrayType::String,
            Some(Box::new(vec![Value::from("a'b"), Value::String(None), Value::from("c")])),
        ),
        Value::Vector(b(pgvector::Vector::from(vec![1.0, -2.5, 3.25]))),
        Value::IpNetwork(b("192.168.10.0/24".parse::<ipnetwork::IpNetwork>().unwrap())),
        Value::MacAddress(b(mac_address::MacAddress::new([0xde, 0xad, 0xbe, 0xef, 0x00, 0x01]))),
    ]
}

/// Every variant twice: `Some(..)` and NULL, plus a nested array of arrays of values.
pub fn all_values() -> Vec<Value> {
    let some = all_values_some();
    let mut v = some.clone();
    v.extend(some.iter().map(|x| x.as_null()));
    v.push(Value::Array(
        ArrayType::Int,
        Some(Box::new(vec![Value::Int(Some(1)), Value::Int(None), Value::Int(Some(3))])),
    ));
    v
}

pub fn value_strings(v: &Value) -> String {
    format!(
        "{}\n{}\n{}\n{}",
        MysqlQueryBuilder.value_to_string(v),
        PostgresQueryBuilder.value_to_string(v),
        SqliteQueryBuilder.value_to_string(v),
        v
    )
}

pub fn case_stmt() -> CaseStatement {
    let p = pool();
    if lite() {
        return CaseStatement::new().case(Expr::col((p.t.clone(), p.a.clone())).is_in([1, 2]), Expr::val("small")).finally(Expr::col(p.c.clone()));
    }
    CaseStatement::new()
        .case(
            Cond::any()
                .add(Expr::col((p.t.clone(), p.a.clone())).is_in([1, 2, 3]))
                .add(Expr::col(p.b.clone()).is_null()),
            Expr::val("small"),
        )
        .case(Expr::col(p.a.clone()).gt(10).and(Expr::col(p.c.clone()).like("%x%")), Expr::col(p.c.clone()))
        .finally(Expr::cust_with_values("? || ?", ["big", "ger"]))
}

pub fn window() -> WindowStatement {
    let p = pool();
    let mut w = WindowStatement::partition_by((p.t.clone(), p.b.clone()));
    if lite() {
        w.order_by(p.a.clone(), Order::Desc).frame_start(FrameType::Rows, Frame::UnboundedPreceding);
        return w;
    }
    w.add_partition_by(Expr::col(p.c.clone()).into())
        .order_by(p.a.clone(), Order::Desc)
        .order_by_with_nulls((p.t.clone(), p.c.clone()), Order::Asc, NullOrdering::First)
        .frame_between(FrameType::Rows, Frame::UnboundedPreceding, Frame::CurrentRow);
    w
}

pub fn small_select() -> SelectStatement {
    let p = pool();
    let mut q = Query::select();
    q.column((p.t.clone(), p.a.clone()))
        .expr_as(Func::max(Expr::col(p.b.clone())), p.alias.clone())
        .from((p.schema.clone(), p.t.clone()))
        .and_where(Expr::col(p.a.clone()).between(1, 100));
    if !lite() {
        q.and_where(Expr::col((p.t.clone(), p.c.clone())).is_not_in(["u", "v"])).group_by_col((p.t.clone(), p.a.clone()));
    }
    q
}

/// Lite condition: ALL(<> string, <> json, ANY(IN (subquery), NOT ALL(LIKE .. ESCAPE, IS NOT NULL))).
fn lite_condition() -> Condition {
    let p = pool();
    Cond::all()
        .add(Expr::col((p.t.clone(), p.a.clone())).ne("it's"))
        .add(Expr::col(p.c.clone()).ne(Value::Json(b(serde_json::json!({"k": [1, null]})))))
        .add(
            Cond::any()
                .add(Expr::col(p.a.clone()).in_subquery(small_select()))
                .add(Cond::all().not().add(Expr::col(p.b.clone()).like(LikeExpr::new("a!%%").escape('!'))).add(Expr::col(p.c.clone()).is_not_null())),
        )
}

pub fn big_condition() -> Condition {
    if lite() {
        return lite_condition();
    }
    let p = pool();
    let vals = all_values_some();
    let mut c = Cond::all();
    // one comparison per Value variant so that the whole Value zoo hangs off the condition
    for (i, v) in vals.into_iter().enumerate() {
        let col = if i % 2 == 0 { p.a.clone() } else { p.c.clone() };
        c = c.add(Expr::col((p.t.clone(), col)).ne(v));
    }
    c.add(
        Cond::any()
            .add(Expr::col(p.a.clone()).in_subquery(small_select()))
            .add(Expr::exists(small_select()))
            .add(
                Cond::all()
                    .not()
                    .add(Expr::col(p.b.clone()).like(LikeExpr::new("a!%%").escape('!')))
                    .add(Expr::col(p.c.clone()).is_not_null()),
            ),
    )
    .add(Expr::tuple([Expr::col(p.a.clone()).into(), Expr::col(p.b.clone()).into()]).in_tuples([(1, "x"), (2, "y")]))
    .add(Expr::expr(case_stmt()).eq("small"))
    .add(Expr::col(p.b.clone()).eq(Expr::current_timestamp()))
    .add(Expr::col(p.c.clone()).cast_as(Alias::new("text")).eq(Expr::col(p.a.clone()).as_enum(p.alias.clone())))
}

/// Lite variant of `big_select`: CASE projection, join, nested condition with IN (subquery),
/// ORDER BY with NULLS, LIMIT (window, CTE, union have their own rows).
fn lite_select() -> SelectStatement {
    let p = pool();
    let mut q = Query::select();
    q.column((p.t.clone(), p.a.clone()))
        .expr_as(case_stmt(), p.alias.clone())
        .from(p.t.clone())
        .join(JoinType::LeftJoin, F::Table, Expr::col((F::Table, F::Id)).equals((p.t.clone(), p.b.clone())))
        .cond_where(big_condition())
        .order_by_with_nulls((p.t.clone(), p.a.clone()), Order::Desc, NullOrdering::Last)
        .limit(10);
    q
}

pub fn big_select() -> SelectStatement {
    if lite() {
        return lite_select();
    }
    let p = pool();
    let mut q = Query::select();
    q.distinct()
        .column((p.t.clone(), p.a.clone()))
        .column(ColumnRef::TableAsterisk(p.t.clone()))
        .column((p.schema.clone(), p.t.clone(), p.b.clone()))
        .expr_as(Expr::col(p.a.clone()).add(1).mul(Expr::val(2.5f64)).sub(Expr::col(p.b.clone())), p.alias.clone())
        .expr(Func::coalesce([Expr::col(p.b.clone()).into(), Expr::val("x").into(), Func::lower(Expr::col(p.c.clone())).into()]))
        .expr(case_stmt())
        .expr(SimpleExpr::SubQuery(None, Box::new(small_select().into_sub_query_statement())))
        .expr_window_as(Func::sum(Expr::col(p.c.clone())), window(), Alias::new("w_sum"))
        .expr_window_name_as(Func::count(Expr::col(Asterisk)), Alias::new("w"), Alias::new("w_cnt"))
        .window(Alias::new("w"), window())
        .from(p.t.clone())
        .from_subquery(small_select(), Alias::new("sub0"))
        .join(JoinType::LeftJoin, F::Table, Expr::col((F::Table, F::Id)).equals((p.t.clone(), p.b.clone())))
        .join_as(
            JoinType::InnerJoin,
            (p.schema.clone(), G::Table),
            p.alias.clone(),
            Cond::all().add(Expr::col((p.alias.clone(), G::Id)).equals((p.t.clone(), p.a.clone()))).add(Expr::col(G::Image).is_not_null()),
        )
        .join_subquery(
            JoinType::RightJoin,
            small_select(),
            Alias::new("sq"),
            Expr::col((Alias::new("sq"), p.a.clone())).equals((p.t.clone(), p.a.clone())),
        )
        .cond_where(big_condition())
        .group_by_columns([(p.t.clone(), p.a.clone()), (p.t.clone(), p.b.clone())])
        .add_group_by([Expr::col(p.c.clone()).into()])
        .cond_having(Cond::any().add(Func::count(Expr::col(p.a.clone())).gt(1)).add(Func::avg(Expr::col(p.b.clone())).lte(2.5)))
        .order_by_with_nulls((p.t.clone(), p.a.clone()), Order::Desc, NullOrdering::Last)
        .order_by(p.c.clone(), Order::Field(Values(vec!["m".into(), "n".into(), 3.into()])))
        .order_by_expr(Expr::col(p.b.clone()).add(1), Order::Asc)
        .limit(10)
        .offset(5)
        .union(UnionType::All, small_select())
        .union(UnionType::Distinct, small_select());
    q
}

pub fn select_mysql_ext() -> SelectStatement {
    let p = pool();
    let mut q = small_select();
    q.use_index(p.alias.clone(), IndexHintScope::Join)
        .force_index(Alias::new("ix2"), IndexHintScope::OrderBy)
        .ignore_index(Alias::new("ix3"), IndexHintScope::All)
        .lock_with_tables_behavior(LockType::Update, [p.t.clone()], LockBehavior::SkipLocked);
    q
}

pub fn select_pg_ext() -> SelectStatement {
    let p = pool();
    let mut q = small_select();
    q.distinct_on([(p.t.clone(), p.a.clone())])
        .table_sample(SampleMethod::BERNOULLI, 12.5, Some(7.0))
        .and_where(PgExpr::matches(Expr::col(p.c.clone()), PgFunc::to_tsquery("a & b", None)))
        .and_where(Expr::col(p.b.clone()).contains(Expr::val("x")))
        .and_where(Expr::col(p.a.clone()).eq(PgFunc::any(vec![1, 2, 3])))
        .expr(PgFunc::json_build_object(vec![(Expr::val("k"), Expr::col(p.a.clone()))]))
        .expr(PgFunc::date_trunc(PgDateTruncUnit::Month, Expr::col(p.b.clone())))
        .expr(PgFunc::array_agg_distinct(Expr::col(p.c.clone())))
        .lock_shared();
    q
}

pub fn select_sqlite_ext() -> SelectStatement {
    let p = pool();
    let mut q = small_select();
    q.and_where(Expr::col(p.c.clone()).glob("a*"))
        .and_where(SqliteExpr::get_json_field(Expr::col(p.b.clone()), "k").is_not_null())
        .and_where(SqliteExpr::matches(Expr::col(p.a.clone()), "q"));
    q
}

pub fn on_conflict() -> OnConflict {
    let p = pool();
    let mut oc = OnConflict::columns([p.a.clone(), p.b.clone()]);
    if lite() {
        oc.update_column(p.b.clone()).value(p.a.clone(), Expr::col(p.a.clone()).add(1));
        return oc;
    }
    oc.target_and_where(Expr::col(p.c.clone()).is_not_null())
        .update_columns([p.b.clone(), p.c.clone()])
        .value(p.a.clone(), Expr::col(p.a.clone()).add(1))
        .action_and_where(Expr::col((p.t.clone(), p.a.clone())).lt(100));
    oc
}

pub fn returning() -> ReturningClause {
    let p = pool();
    if lite() {
        return Query::returning().columns([p.a.clone(), p.b.clone()]);
    }
    Query::returning().exprs([Expr::col(p.a.clone()).into(), Expr::col(p.b.clone()).add(1), SimpleExpr::from(Func::upper(Expr::col(p.c.clone())))])
}

pub fn big_insert() -> InsertStatement {
    let p = pool();
    let mut vals = all_values_some();
    if lite() {
        vals.retain(|v| matches!(v, Value::String(_) | Value::Uuid(_) | Value::Array(..)));
    }
    let n = vals.len();
    let cols: Vec<DynIden> = (0..n)
        .map(|i| match i % 3 {
            0 => p.a.clone(),
            1 => p.b.clone(),
            _ => p.c.clone(),
        })
        .collect();
    let mut q = Query::insert();
    q.into_table((p.schema.clone(), p.t.clone()))
        .columns(cols)
        .values_panic(vals.iter().cloned().map(SimpleExpr::from));
    if !lite() {
        q.values_panic(vals.iter().map(|v| SimpleExpr::from(v.as_null())));
    }
    q.on_conflict(on_conflict()).returning(returning());
    q
}

pub fn insert_select() -> InsertStatement {
    let p = pool();
    let mut q = Query::insert();
    q.into_table(p.t.clone())
        .columns([p.a.clone(), p.alias.clone()])
        .select_from(small_select())
        .unwrap()
        .returning_all();
    q
}

pub fn big_update() -> UpdateStatement {
    let p = pool();
    let mut q = Query::update();
    q.table((p.schema.clone(), p.t.clone()))
        .value(p.a.clone(), Expr::col(p.a.clone()).add(1))
        .value(p.b.clone(), case_stmt())
        .values(all_values_some().into_iter().take(if lite() { 1 } else { 6 }).map(|v| (p.c.clone(), SimpleExpr::from(v))))
        .cond_where(big_condition())
        .order_by(p.a.clone(), Order::Asc)
        .limit(3)
        .returning(returning());
    q
}

pub fn big_delete() -> DeleteStatement {
    let p = pool();
    let mut q = Query::delete();
    q.from_table((p.schema.clone(), p.t.clone()))
        .cond_where(big_condition())
        .order_by_with_nulls(p.b.clone(), Order::Desc, NullOrdering::First)
        .limit(7)
        .returning_col(p.a.clone());
    q
}

pub fn cte() -> CommonTableExpression {
    let p = pool();
    let mut c = CommonTableExpression::new();
    c.table_name(Alias::new("cte0")).columns([p.a.clone(), p.alias.clone()]).query(small_select()).materialized(true);
    c
}

pub fn with_clause() -> WithClause {
    let p = pool();
    let base = Query::select().column(p.a.clone()).expr(Expr::val(0)).from(p.t.clone()).to_owned();
    let rec = Query::select()
        .column(p.a.clone())
        .expr(Expr::col(Alias::new("depth")).add(1))
        .from(Alias::new("walk"))
        .join(JoinType::InnerJoin, p.t.clone(), Expr::col((p.t.clone(), p.b.clone())).equals((Alias::new("walk"), p.a.clone())))
        .to_owned();
    let mut walk = CommonTableExpression::new();
    walk.table_name(Alias::new("walk"))
        .columns([p.a.clone(), Alias::new("depth").into_iden()])
        .query(base.clone().union(UnionType::All, rec).to_owned());
    let mut w = Query::with();
    if lite() {
        w.recursive(true).cte(walk);
        return w;
    }
    w.recursive(true)
        .cte(walk)
        .search(Search::new_from_order_and_expr(SearchOrder::DEPTH, SelectExpr { expr: Expr::col(p.a.clone()).into(), alias: Some(Alias::new("ord").into_iden()), window: None }))
        .cycle(Cycle::new_from_expr_set_using(Expr::col(p.a.clone()), Alias::new("looped"), Alias::new("path")));
    w
}

pub fn with_clause_plain() -> WithClause {
    let mut w = Query::with();
    w.cte(cte()).cte(CommonTableExpression::from_select(small_select()).table_name(Alias::new("cte1")).to_owned());
    w
}

pub fn with_query() -> WithQuery {
    let p = pool();
    with_clause().query(
        Query::select()
            .column(Asterisk)
            .from(Alias::new("walk"))
            .and_where(Expr::col(p.a.clone()).in_subquery(small_select()))
            .to_owned(),
    )
}

pub fn with_query_dml() -> WithQuery {
    with_clause_plain().query(big_update())
}

pub fn fk_create() -> ForeignKeyCreateStatement {
    let p = pool();
    let mut fk = ForeignKey::create();
    fk.name("fk_glyph_font")
        .from(p.t.clone(), (G::Id, p.b.clone()))
        .to(F::Table, (F::Id, F::Language))
        .on_delete(ForeignKeyAction::Cascade)
        .on_update(ForeignKeyAction::SetNull);
    fk
}

pub fn table_fk() -> TableForeignKey {
    let p = pool();
    let mut fk = TableForeignKey::new();
    fk.name("fk_t")
        .from_tbl(p.t.clone())
        .from_col(p.a.clone())
        .from_col(p.b.clone())
        .to_tbl(F::Table)
        .to_col(F::Id)
        .to_col(F::Name)
        .on_delete(ForeignKeyAction::Restrict)
        .on_update(ForeignKeyAction::NoAction);
    fk
}

pub fn index_create() -> IndexCreateStatement {
    let p = pool();
    let mut ix = Index::create();
    ix.name("ix_t_a_b")
        .table(p.t.clone())
        .col((p.a.clone(), IndexOrder::Desc))
        .col((p.b.clone(), 8, IndexOrder::Asc))
        .col(p.c.clone())
        .unique()
        .if_not_exists();
    ix
}

pub fn column_types() -> Vec<ColumnType> {
    let p = pool();
    vec![
        ColumnType::Char(Some(4)),
        ColumnType::String(StringLen::N(255)),
        ColumnType::String(StringLen::Max),
        ColumnType::Text,
        ColumnType::Blob,
        ColumnType::TinyInteger,
        ColumnType::SmallInteger,
        ColumnType::Integer,
        ColumnType::BigInteger,
        ColumnType::TinyUnsigned,
        ColumnType::SmallUnsigned,
        ColumnType::Unsigned,
        ColumnType::BigUnsigned,
        ColumnType::Float,
        ColumnType::Double,
        ColumnType::Decimal(Some((10, 2))),
        ColumnType::DateTime,
        ColumnType::Timestamp,
        ColumnType::TimestampWithTimeZone,
        ColumnType::Time,
        ColumnType::Date,
        ColumnType::Year,
        ColumnType::Interval(Some(PgInterval::DayToSecond), Some(3)),
        ColumnType::Binary(16),
        ColumnType::VarBinary(StringLen::N(32)),
        ColumnType::Bit(Some(3)),
        ColumnType::VarBit(9),
        ColumnType::Boolean,
        ColumnType::Money(Some((12, 4))),
        ColumnType::Json,
        ColumnType::JsonBinary,
        ColumnType::Uuid,
        ColumnType::Custom(p.alias.clone()),
        ColumnType::Enum { name: p.c.clone(), variants: vec![p.a.clone(), p.b.clone(), Alias::new("third").into_iden()] },
        ColumnType::Array(RcOrArc::new(ColumnType::Array(RcOrArc::new(ColumnType::Custom(p.alias.clone()))))),
        ColumnType::Vector(Some(3)),
        ColumnType::Cidr,
        ColumnType::Inet,
        ColumnType::MacAddr,
        ColumnType::LTree,
    ]
}

pub fn column_def() -> ColumnDef {
    let p = pool();
    let mut c = ColumnDef::new_with_type(p.a.clone(), ColumnType::Enum { name: p.c.clone(), variants: vec![p.a.clone(), p.b.clone()] });
    c.not_null()
        .default(Expr::val("a").cast_as(p.c.clone()))
        .check(Expr::col(p.a.clone()).is_not_null())
        .unique_key()
        .comment("a 'column'")
        .extra("/* extra */");
    c
}

pub fn table_create() -> TableCreateStatement {
    let p = pool();
    let mut t = Table::create();
    t.table((p.schema.clone(), p.t.clone()))
        .if_not_exists()
        .comment("tbl 'c'")
        .col(ColumnDef::new(G::Id).integer().not_null().auto_increment().primary_key())
        .col(column_def())
        .col(ColumnDef::new(p.b.clone()).string_len(40).null().default("x'y"));
    if !lite() {
        t.col(ColumnDef::new(p.c.clone()).decimal_len(10, 3).default(Expr::val(1.5)).check(Expr::col(p.c.clone()).gte(0)))
            .col(ColumnDef::new(G::Image).json_binary().generated(Expr::col(p.b.clone()), true))
            .col(ColumnDef::new(F::Language).timestamp_with_time_zone().default(Expr::current_timestamp()))
            .col(ColumnDef::new(F::Name).custom(p.alias.clone()).default(Keyword::Null));
    }
    t
        .index(Index::create().name("ix_inline").col(p.b.clone()).col(p.c.clone()).unique())
        .foreign_key(&mut fk_create())
        .check(Expr::col(p.b.clone()).ne(Expr::col(p.c.clone())))
        .engine("InnoDB")
        .collate("utf8mb4_general_ci")
        .character_set("utf8mb4");
    t
}

pub fn table_create_pg() -> TableCreateStatement {
    let p = pool();
    let mut t = table_create();
    t.col(ColumnDef::new(G::Tags).array(ColumnType::Array(RcOrArc::new(ColumnType::Custom(p.alias.clone())))))
        .col(ColumnDef::new(Alias::new("iv")).interval(Some(PgInterval::YearToMonth), Some(2)))
        .col(ColumnDef::new(Alias::new("vec")).vector(Some(3)))
        .col(ColumnDef::new(Alias::new("path")).ltree());
    t
}
