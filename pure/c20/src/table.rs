//! The hand-maintained type table of the C20 monitor.
//!
//! Row format: `row!(rig, "<Type>[/<instance>]", <Rust type>, <ce|c|n>, <make>, <render>)`
//!   ce = Clone + PartialEq (clone, `==`, render clone, drop), c = Clone only, n = neither.
//! The part of the name before `/` is the public type name the driver matches against
//! its scan of `pub struct|enum` in /repo/src.
//!
//! `static_gate()` additionally asserts `Send + Sync` at compile time for every public
//! type, including the few that have no public constructor (gate-only types).

use crate::vals::*;
use crate::{ex_clone, ex_clone_eq, ex_none, Rig};
use sea_query::backend::{Mode, Oper};
use sea_query::error::Error;
use sea_query::extension::mysql::*;
use sea_query::extension::postgres::*;
use sea_query::extension::sqlite::*;
use sea_query::*;

const MY: u8 = 1;
const PG: u8 = 2;
const SL: u8 = 4;
const ALL: u8 = 7;

macro_rules! row {
    ($rig:expr, $name:literal, $t:ty, ce, $make:expr, $render:expr) => {
        $rig.ship::<$t>($name, $make, $render, ex_clone_eq::<$t>)
    };
    ($rig:expr, $name:literal, $t:ty, c, $make:expr, $render:expr) => {
        $rig.ship::<$t>($name, $make, $render, ex_clone::<$t>)
    };
    ($rig:expr, $name:literal, $t:ty, n, $make:expr, $render:expr) => {
        $rig.ship::<$t>($name, $make, $render, ex_none::<$t>)
    };
}

// ---------------------------------------------------------------------------
// render helpers
// ---------------------------------------------------------------------------

/// `to_string` and `build` of a query statement on the selected backends.
fn rq<S: QueryStatementWriter>(s: &S, mask: u8) -> String {
    let mut o = String::new();
    if lite() {
        // Miri: a single `build` (SQL + collected values) on one backend:
        // ALL / *+PG -> Postgres, MySQL-only rows -> MySQL, SQLite-only rows -> SQLite
        let (q, v) = if mask & PG != 0 {
            s.build(PostgresQueryBuilder)
        } else if mask & MY != 0 {
            s.build(MysqlQueryBuilder)
        } else {
            s.build(SqliteQueryBuilder)
        };
        write!(o, "?: {q} {v:?}\n").unwrap();
        return o;
    }
    if mask & MY != 0 {
        let (q, v) = s.build(MysqlQueryBuilder);
        write!(o, "my: {}\nmy? {} {:?}\n", s.to_string(MysqlQueryBuilder), q, v).unwrap();
    }
    if mask & PG != 0 {
        let (q, v) = s.build(PostgresQueryBuilder);
        write!(o, "pg: {}\npg? {} {:?}\n", s.to_string(PostgresQueryBuilder), q, v).unwrap();
    }
    if mask & SL != 0 {
        let (q, v) = s.build(SqliteQueryBuilder);
        write!(o, "sl: {}\nsl? {} {:?}\n", s.to_string(SqliteQueryBuilder), q, v).unwrap();
    }
    o
}

/// `to_string` and `build` of a schema statement on the selected backends.
fn rs<S: SchemaStatementBuilder>(s: &S, mask: u8) -> String {
    let mut o = String::new();
    if lite() {
        if mask & PG != 0 {
            write!(o, "pg! {}\n", s.build_any(&PostgresQueryBuilder)).unwrap();
        } else if mask & MY != 0 {
            write!(o, "my! {}\n", s.build(MysqlQueryBuilder)).unwrap();
        } else {
            write!(o, "sl! {}\n", s.build(SqliteQueryBuilder)).unwrap();
        }
        return o;
    }
    if mask & MY != 0 {
        write!(o, "my: {}\nmy! {}\n", s.to_string(MysqlQueryBuilder), s.build(MysqlQueryBuilder)).unwrap();
    }
    if mask & PG != 0 {
        write!(o, "pg: {}\npg! {}\n", s.to_string(PostgresQueryBuilder), s.build_any(&PostgresQueryBuilder)).unwrap();
    }
    if mask & SL != 0 {
        write!(o, "sl: {}\nsl! {}\n", s.to_string(SqliteQueryBuilder), s.build(SqliteQueryBuilder)).unwrap();
    }
    o
}

/// An expression rendered as the single projection of a SELECT on all backends.
fn re<E: Into<SimpleExpr>>(e: E, mask: u8) -> String {
    let p = pool();
    rq(Query::select().expr(e).from(p.t.clone()), mask)
}

fn rcond(c: Condition) -> String {
    let p = pool();
    rq(Query::select().column(p.a.clone()).from(p.t.clone()).cond_where(c), ALL)
}

fn dbg<T: std::fmt::Debug>(t: &T) -> String {
    format!("{t:?}")
}

fn rtype<S>(s: &S, f: fn(&S) -> String, g: fn(&S) -> String, h: fn(&S, &mut dyn SqlWriter) -> String) -> String {
    let mut w = String::new();
    format!("pg: {}\npg! {}\npg> {}", f(s), g(s), h(s, &mut w))
}

// ---------------------------------------------------------------------------
// compile-time gate over every public type (constructible or not)
// ---------------------------------------------------------------------------

fn gate<T: Send + Sync + 'static>() {}

pub fn static_gate() {
    // identifiers
    gate::<DynIden>();
    gate::<SeaRc<dyn Iden>>();
    gate::<Alias>();
    gate::<NullAlias>();
    gate::<Asterisk>();
    gate::<Quote>();
    gate::<PgLTree>();
    gate::<MySqlType>();
    gate::<Box<dyn Iden>>();
    gate::<&'static dyn Iden>();
    // types.rs
    gate::<ColumnRef>();
    gate::<TableRef>();
    gate::<UnOper>();
    gate::<BinOper>();
    gate::<PgBinOper>();
    gate::<SqliteBinOper>();
    gate::<LogicalChainOper>();
    gate::<JoinType>();
    gate::<NullOrdering>();
    gate::<OrderExpr>();
    gate::<JoinOn>();
    gate::<Order>();
    gate::<Keyword>();
    gate::<LikeExpr>();
    gate::<SubQueryOper>();
    // expressions, functions, conditions
    gate::<Expr>();
    gate::<SimpleExpr>();
    gate::<Function>();
    gate::<FunctionCall>();
    gate::<FuncArgMod>();
    gate::<Func>();
    gate::<PgFunc>();
    gate::<PgFunction>();
    gate::<CaseStatement>();
    gate::<Condition>();
    gate::<ConditionType>();
    gate::<ConditionExpression>();
    gate::<ConditionHolder>();
    gate::<ConditionHolderContents>();
    // values
    gate::<Value>();
    gate::<Values>();
    gate::<ValueTuple>();
    gate::<ArrayType>();
    gate::<ValueTypeErr>();
    // query statements and their parts
    gate::<Query>();
    gate::<QueryStatement>();
    gate::<SubQueryStatement>();
    gate::<SelectStatement>();
    gate::<SelectDistinct>();
    gate::<SelectExpr>();
    gate::<WindowSelectType>();
    gate::<JoinExpr>();
    gate::<LockType>();
    gate::<LockBehavior>();
    gate::<LockClause>();
    gate::<UnionType>();
    gate::<InsertStatement>();
    gate::<UpdateStatement>();
    gate::<DeleteStatement>();
    gate::<OnConflict>();
    gate::<OnConflictTarget>();
    gate::<OnConflictAction>();
    gate::<OnConflictUpdate>();
    gate::<Returning>();
    gate::<ReturningClause>();
    gate::<WindowStatement>();
    gate::<Frame>();
    gate::<FrameType>();
    gate::<FrameClause>();
    gate::<CommonTableExpression>();
    gate::<SearchOrder>();
    gate::<Search>();
    gate::<Cycle>();
    gate::<WithClause>();
    gate::<WithQuery>();
    gate::<IndexHint>();
    gate::<IndexHintType>();
    gate::<IndexHintScope>();
    gate::<TableSample>();
    gate::<SampleMethod>();
    // schema statements
    gate::<SchemaStatement>();
    gate::<Table>();
    gate::<TableStatement>();
    gate::<TableCreateStatement>();
    gate::<TableOpt>();
    gate::<TablePartition>();
    gate::<TableAlterStatement>();
    gate::<TableAlterOption>();
    gate::<AddColumnOption>();
    gate::<TableDropStatement>();
    gate::<TableDropOpt>();
    gate::<TableRenameStatement>();
    gate::<TableTruncateStatement>();
    gate::<ColumnDef>();
    gate::<ColumnType>();
    gate::<ColumnSpec>();
    gate::<StringLen>();
    gate::<PgInterval>();
    gate::<PgDateTruncUnit>();
    gate::<Index>();
    gate::<IndexStatement>();
    gate::<IndexCreateStatement>();
    gate::<IndexDropStatement>();
    gate::<IndexType>();
    gate::<TableIndex>();
    gate::<IndexColumn>();
    gate::<IndexOrder>();
    gate::<ForeignKey>();
    gate::<ForeignKeyStatement>();
    gate::<ForeignKeyCreateStatement>();
    gate::<ForeignKeyDropStatement>();
    gate::<TableForeignKey>();
    gate::<ForeignKeyAction>();
    // postgres type / extension statements
    gate::<Type>();
    gate::<TypeRef>();
    gate::<TypeAs>();
    gate::<TypeCreateStatement>();
    gate::<TypeDropStatement>();
    gate::<TypeAlterStatement>();
    gate::<TypeDropOpt>();
    gate::<TypeAlterOpt>();
    gate::<TypeAlterAddOpt>();
    gate::<Extension>();
    gate::<ExtensionCreateStatement>();
    gate::<ExtensionDropStatement>();
    // writers, backends, misc
    gate::<SqlWriterValues>();
    gate::<MysqlQueryBuilder>();
    gate::<PostgresQueryBuilder>();
    gate::<SqliteQueryBuilder>();
    gate::<Oper>();
    gate::<Mode>();
    gate::<Error>();
    gate::<Token>();
    gate::<Tokenizer>();
    // iterator types the public API hands out by value
    gate::<<ValueTuple as IntoIterator>::IntoIter>();
}

/// Names asserted by `static_gate` only (no public way to construct a non-trivial instance).
pub const GATE_ONLY: &[&str] = &["OrderExpr", "LockClause", "FrameClause", "TablePartition", "AddColumnOption", "IndexColumn"];

// ---------------------------------------------------------------------------
// the table
// ---------------------------------------------------------------------------

pub fn run(rig: &mut Rig) {
    if rig.list {
        for g in GATE_ONLY {
            println!("GATEONLY {g}");
        }
    }
    queries(rig);
    exprs(rig);
    idens_and_refs(rig);
    values(rig);
    schema(rig);
    pg_ext(rig);
    misc(rig);
}

fn queries(rig: &mut Rig) {
    row!(rig, "SelectStatement", SelectStatement, ce, big_select, |t| rq(t, ALL));
    row!(rig, "SelectStatement/mysql-ext", SelectStatement, ce, select_mysql_ext, |t| rq(t, MY));
    row!(rig, "SelectStatement/postgres-ext", SelectStatement, ce, select_pg_ext, |t| rq(t, PG));
    row!(rig, "SelectStatement/sqlite-ext", SelectStatement, ce, select_sqlite_ext, |t| rq(t, SL));
    row!(rig, "InsertStatement", InsertStatement, ce, big_insert, |t| rq(t, ALL));
    row!(rig, "InsertStatement/select", InsertStatement, ce, insert_select, |t| rq(t, ALL));
    row!(rig, "UpdateStatement", UpdateStatement, ce, big_update, |t| rq(t, ALL));
    row!(rig, "DeleteStatement", DeleteStatement, ce, big_delete, |t| rq(t, ALL));
    row!(rig, "WithQuery", WithQuery, ce, with_query, |t| rq(t, ALL));
    row!(rig, "WithQuery/dml", WithQuery, ce, with_query_dml, |t| rq(t, ALL));
    row!(rig, "WithClause", WithClause, ce, with_clause, |t| rq(&t.clone().query(small_select()), ALL));
    row!(rig, "WithClause/plain", WithClause, ce, with_clause_plain, |t| rq(&t.clone().query(big_delete()), ALL));
    row!(rig, "CommonTableExpression", CommonTableExpression, ce, cte, |t| rq(
        &Query::with().cte(t.clone()).to_owned().query(small_select()),
        ALL
    ));
    row!(
        rig,
        "Search",
        Search,
        ce,
        || Search::new_from_order_and_expr(SearchOrder::BREADTH, SelectExpr { expr: Expr::col(pool().a.clone()).add(1), alias: Some(pool().alias.clone()), window: None }),
        |t| rq(&with_clause().search(t.clone()).to_owned().query(small_select()), ALL)
    );
    row!(
        rig,
        "Cycle",
        Cycle,
        ce,
        || Cycle::new_from_expr_set_using(Expr::col(pool().a.clone()).add(Expr::col(pool().b.clone())), pool().alias.clone(), pool().c.clone()),
        |t| rq(&with_clause().cycle(t.clone()).to_owned().query(small_select()), ALL)
    );
    row!(rig, "SearchOrder", SearchOrder, ce, || SearchOrder::DEPTH, dbg);
    row!(rig, "SubQueryStatement/select", SubQueryStatement, ce, || big_select().into_sub_query_statement(), |t| re(
        SimpleExpr::SubQuery(Some(SubQueryOper::Exists), Box::new(t.clone())),
        ALL
    ));
    row!(rig, "SubQueryStatement/insert", SubQueryStatement, ce, || big_insert().into_sub_query_statement(), |t| re(
        SimpleExpr::SubQuery(None, Box::new(t.clone())),
        ALL
    ));
    row!(rig, "SubQueryStatement/update", SubQueryStatement, ce, || big_update().into_sub_query_statement(), |t| re(
        SimpleExpr::SubQuery(None, Box::new(t.clone())),
        ALL
    ));
    row!(rig, "SubQueryStatement/delete", SubQueryStatement, ce, || big_delete().into_sub_query_statement(), |t| re(
        SimpleExpr::SubQuery(None, Box::new(t.clone())),
        ALL
    ));
    row!(rig, "SubQueryStatement/with", SubQueryStatement, ce, || with_query().into_sub_query_statement(), |t| re(
        SimpleExpr::SubQuery(None, Box::new(t.clone())),
        ALL
    ));
    row!(rig, "QueryStatement", QueryStatement, c, || QueryStatement::Select(big_select()), |t| match t {
        QueryStatement::Select(s) => rq(s, ALL),
        _ => unreachable!(),
    });
    row!(rig, "QueryStatement/update", QueryStatement, c, || QueryStatement::Update(big_update()), |t| match t {
        QueryStatement::Update(s) => rq(s, ALL),
        _ => unreachable!(),
    });
    row!(rig, "Query", Query, c, || Query, |_| rq(&Query::select().expr(Expr::val(1)).to_owned(), ALL));
    row!(rig, "Returning", Returning, c, Query::returning, |t| dbg(&t.clone().columns([pool().a.clone(), pool().b.clone()])));
    row!(rig, "ReturningClause", ReturningClause, ce, returning, |t| rq(
        Query::delete().from_table(pool().t.clone()).returning(t.clone()),
        ALL
    ));
    row!(rig, "OnConflict", OnConflict, ce, on_conflict, |t| rq(
        Query::insert().into_table(pool().t.clone()).columns([pool().a.clone(), pool().b.clone()]).values_panic([1.into(), "b".into()]).on_conflict(t.clone()),
        ALL
    ));
    row!(
        rig,
        "OnConflict/do-nothing",
        OnConflict,
        ce,
        || OnConflict::new().expr(Func::lower(Expr::col(pool().a.clone()))).do_nothing_on([pool().a.clone(), pool().b.clone()]).to_owned(),
        |t| rq(
            Query::insert().into_table(pool().t.clone()).columns([pool().a.clone()]).values_panic([1.into()]).on_conflict(t.clone()),
            ALL
        )
    );
    row!(
        rig,
        "OnConflictTarget",
        OnConflictTarget,
        ce,
        || OnConflictTarget::ConflictExpr(Func::lower(Expr::col(pool().a.clone())).into()),
        dbg
    );
    row!(rig, "OnConflictTarget/column", OnConflictTarget, ce, || OnConflictTarget::ConflictColumn(pool().a.clone()), dbg);
    row!(
        rig,
        "OnConflictAction",
        OnConflictAction,
        ce,
        || OnConflictAction::Update(vec![
            OnConflictUpdate::Column(pool().a.clone()),
            OnConflictUpdate::Expr(pool().b.clone(), Expr::col(pool().a.clone()).add(1))
        ]),
        dbg
    );
    row!(rig, "OnConflictAction/nothing", OnConflictAction, ce, || OnConflictAction::DoNothing(vec![pool().a.clone(), pool().a.clone()]), dbg);
    row!(rig, "OnConflictUpdate", OnConflictUpdate, ce, || OnConflictUpdate::Expr(pool().b.clone(), case_stmt().into()), dbg);
    row!(rig, "WindowStatement", WindowStatement, ce, window, |t| rq(
        Query::select().expr_window(Func::sum(Expr::col(pool().a.clone())), t.clone()).from(pool().t.clone()),
        ALL
    ));
    row!(rig, "WindowSelectType", WindowSelectType, ce, || WindowSelectType::Query(window()), dbg);
    row!(rig, "WindowSelectType/name", WindowSelectType, ce, || WindowSelectType::Name(pool().alias.clone()), dbg);
    row!(rig, "Frame", Frame, ce, || Frame::Preceding(3), dbg);
    row!(rig, "FrameType", FrameType, ce, || FrameType::Range, dbg);
    row!(
        rig,
        "SelectExpr",
        SelectExpr,
        ce,
        || SelectExpr { expr: case_stmt().into(), alias: Some(pool().alias.clone()), window: Some(WindowSelectType::Query(window())) },
        |t| rq(Query::select().expr(t.clone()).from(pool().t.clone()), ALL)
    );
    row!(
        rig,
        "JoinExpr",
        JoinExpr,
        ce,
        || JoinExpr {
            join: JoinType::FullOuterJoin,
            table: Box::new(TableRef::SubQuery(small_select(), pool().alias.clone())),
            on: Some(JoinOn::Condition(Box::new(ConditionHolder::new_with_condition(big_condition())))),
            lateral: true,
        },
        dbg
    );
    row!(rig, "JoinOn", JoinOn, ce, || JoinOn::Columns(vec![Expr::col(pool().a.clone()).into(), Expr::col((pool().t.clone(), pool().b.clone())).into()]), dbg);
    row!(rig, "JoinOn/condition", JoinOn, ce, || JoinOn::Condition(Box::new(ConditionHolder::new_with_condition(big_condition()))), dbg);
    row!(rig, "JoinType", JoinType, ce, || JoinType::CrossJoin, dbg);
    row!(rig, "LockType", LockType, ce, || LockType::KeyShare, dbg);
    row!(rig, "LockBehavior", LockBehavior, ce, || LockBehavior::Nowait, dbg);
    row!(rig, "UnionType", UnionType, ce, || UnionType::Except, dbg);
    row!(
        rig,
        "SelectDistinct",
        SelectDistinct,
        ce,
        || SelectDistinct::DistinctOn(vec![ColumnRef::Column(pool().a.clone()), ColumnRef::TableColumn(pool().t.clone(), pool().a.clone())]),
        dbg
    );
    row!(
        rig,
        "IndexHint",
        IndexHint,
        ce,
        || IndexHint { index: pool().alias.clone(), r#type: IndexHintType::Force, scope: IndexHintScope::GroupBy },
        dbg
    );
    row!(rig, "IndexHintType", IndexHintType, ce, || IndexHintType::Ignore, dbg);
    row!(rig, "IndexHintScope", IndexHintScope, ce, || IndexHintScope::OrderBy, dbg);
    row!(rig, "TableSample", TableSample, ce, || TableSample { method: SampleMethod::SYSTEM, percentage: 42.5, repeatable: Some(3.0) }, dbg);
    row!(rig, "SampleMethod", SampleMethod, ce, || SampleMethod::BERNOULLI, dbg);
}

fn every_simple_expr() -> SimpleExpr {
    let p = pool();
    // one node of every SimpleExpr variant in one tree
    let column = SimpleExpr::Column(ColumnRef::SchemaTableColumn(p.schema.clone(), p.t.clone(), p.a.clone()));
    let tuple = SimpleExpr::Tuple(vec![column.clone(), SimpleExpr::Value(1.into())]);
    let unary = SimpleExpr::Unary(UnOper::Not, Box::new(Expr::col(p.b.clone()).is_null()));
    let func = SimpleExpr::FunctionCall(Func::greatest([column.clone(), Expr::val(3).into()]));
    let sub = SimpleExpr::SubQuery(Some(SubQueryOper::Exists), Box::new(small_select().into_sub_query_statement()));
    let values = Expr::col(p.c.clone()).is_in(all_values_some().into_iter().take(5));
    let custom = SimpleExpr::Custom("1 = 1".to_owned());
    let custom_with = SimpleExpr::CustomWithExpr("? <> ?".to_owned(), vec![column.clone(), func.clone()]);
    let keyword = SimpleExpr::Keyword(Keyword::Custom(p.alias.clone()));
    let as_enum = SimpleExpr::AsEnum(p.alias.clone(), Box::new(Expr::val("v").into()));
    let case = SimpleExpr::Case(Box::new(case_stmt()));
    let constant = SimpleExpr::Constant(Value::from("const"));
    let tuple_in = Expr::expr(tuple).in_tuples([(1, 2)]);
    unary
        .and(tuple_in)
        .and(func.gt(2))
        .or(sub)
        .and(values)
        .and(custom)
        .and(custom_with)
        .and(Expr::col(p.a.clone()).eq(keyword))
        .and(Expr::col(p.b.clone()).eq(as_enum))
        .and(case.eq(constant))
}

fn exprs(rig: &mut Rig) {
    row!(rig, "SimpleExpr", SimpleExpr, ce, every_simple_expr, |t| re(t.clone(), ALL));
    row!(rig, "SimpleExpr/values", SimpleExpr, ce, || SimpleExpr::Values(all_values()), dbg);
    row!(
        rig,
        "SimpleExpr/pg-ops",
        SimpleExpr,
        ce,
        || Expr::col(pool().a.clone())
            .concatenate(Expr::col(pool().b.clone()))
            .ilike("a%")
            .and(Expr::col(pool().c.clone()).contained(Expr::val("x")))
            .and(PgExpr::get_json_field(Expr::col(pool().c.clone()), "k").eq(PgExpr::cast_json_field(Expr::col(pool().c.clone()), "k")))
            .and(Expr::col(pool().b.clone()).binary(PgBinOper::Regex, "^a"))
            .and(Expr::col(pool().a.clone()).eq(PgFunc::all(vec![1, 2]))),
        |t| re(t.clone(), PG)
    );
    row!(
        rig,
        "SimpleExpr/sqlite-ops",
        SimpleExpr,
        ce,
        || Expr::col(pool().a.clone()).glob("a*").and(Expr::col(pool().b.clone()).binary(SqliteBinOper::Match, "q")).and(SqliteExpr::cast_json_field(Expr::col(pool().c.clone()), "k").is_null()),
        |t| re(t.clone(), SL)
    );
    row!(rig, "Expr", Expr, c, || Expr::col((pool().t.clone(), pool().a.clone())), |t| re(t.clone().add(1).is_not_in([7, 8]), ALL));
    row!(rig, "Expr/case", Expr, c, || Expr::expr(case_stmt()), |t| re(t.clone().ne("z"), ALL));
    row!(rig, "Condition", Condition, ce, big_condition, |t| rcond(t.clone()));
    row!(rig, "ConditionType", ConditionType, ce, || ConditionType::Any, dbg);
    row!(rig, "ConditionExpression", ConditionExpression, ce, || ConditionExpression::Condition(big_condition()), |t| rcond(Cond::any().add(t.clone())));
    row!(rig, "ConditionExpression/expr", ConditionExpression, ce, || ConditionExpression::SimpleExpr(every_simple_expr()), |t| rcond(Cond::all().add(t.clone())));
    row!(rig, "ConditionHolder", ConditionHolder, ce, || ConditionHolder::new_with_condition(big_condition()), dbg);
    row!(
        rig,
        "ConditionHolder/chain",
        ConditionHolder,
        ce,
        || {
            let mut h = ConditionHolder::new();
            h.add_and_or(LogicalChainOper::And(Expr::col(pool().a.clone()).eq(1)));
            h.add_and_or(LogicalChainOper::Or(every_simple_expr()));
            h
        },
        dbg
    );
    row!(rig, "ConditionHolderContents", ConditionHolderContents, ce, || ConditionHolderContents::Condition(big_condition()), dbg);
    row!(rig, "LogicalChainOper", LogicalChainOper, ce, || LogicalChainOper::Or(every_simple_expr()), dbg);
    row!(rig, "CaseStatement", CaseStatement, ce, case_stmt, |t| re(t.clone(), ALL));
    row!(
        rig,
        "FunctionCall",
        FunctionCall,
        ce,
        || Func::cust(pool().alias.clone()).args([Expr::col(pool().a.clone()).into(), Func::count_distinct(Expr::col((pool().t.clone(), pool().b.clone()))).into(), case_stmt().into()]),
        |t| re(t.clone(), ALL)
    );
    row!(rig, "FunctionCall/cast", FunctionCall, ce, || Func::cast_as(Func::if_null(Expr::col(pool().a.clone()), Expr::val(0)), pool().alias.clone()), |t| re(t.clone(), ALL));
    row!(rig, "FunctionCall/pg", FunctionCall, ce, || PgFunc::ts_rank(Expr::col(pool().a.clone()), Expr::col(pool().b.clone())), |t| re(t.clone(), PG));
    row!(rig, "Function", Function, ce, || Function::Custom(pool().alias.clone()), dbg);
    row!(rig, "Function/pg", Function, ce, || Function::PgFunction(PgFunction::JsonAgg), dbg);
    row!(rig, "PgFunction", PgFunction, ce, || PgFunction::DateTrunc, dbg);
    row!(rig, "FuncArgMod", FuncArgMod, ce, || FuncArgMod { distinct: true }, dbg);
    row!(rig, "Func", Func, c, || Func, |_| re(Func::round_with_precision(Expr::col(pool().a.clone()), 2), ALL));
    row!(rig, "PgFunc", PgFunc, c, || PgFunc, |_| re(PgFunc::starts_with(Expr::col(pool().a.clone()), "x"), PG));
    row!(rig, "LikeExpr", LikeExpr, c, || LikeExpr::new("100!%%").escape('!'), |t| re(Expr::col(pool().a.clone()).not_like(t.clone()), ALL));
    row!(rig, "Keyword", Keyword, ce, || Keyword::Custom(pool().alias.clone()), |t| re(SimpleExpr::Keyword(t.clone()), ALL));
    row!(rig, "Keyword/current", Keyword, ce, || Keyword::CurrentTimestamp, |t| re(SimpleExpr::Keyword(t.clone()), ALL));
    row!(rig, "UnOper", UnOper, ce, || UnOper::Not, dbg);
    row!(rig, "BinOper", BinOper, ce, || BinOper::PgOperator(PgBinOper::Concatenate), dbg);
    row!(rig, "BinOper/custom", BinOper, ce, || BinOper::Custom("<=>"), |t| re(Expr::col(pool().a.clone()).binary(*t, 1), ALL));
    row!(rig, "PgBinOper", PgBinOper, ce, || PgBinOper::Overlap, dbg);
    row!(rig, "SqliteBinOper", SqliteBinOper, ce, || SqliteBinOper::GetJsonField, dbg);
    row!(rig, "SubQueryOper", SubQueryOper, ce, || SubQueryOper::Any, dbg);
    row!(rig, "Mode", Mode, n, || Mode::TableAlter, dbg);
    row!(rig, "Oper", Oper, n, || Oper::BinOper(BinOper::SqliteOperator(SqliteBinOper::Glob)), dbg);
}

fn rtable(t: &TableRef) -> String {
    rq(Query::select().column(Asterisk).from(t.clone()), ALL)
}

fn rcol(t: &ColumnRef) -> String {
    rq(Query::select().column(t.clone()).from(pool().t.clone()), ALL)
}

fn riden(t: &DynIden) -> String {
    let mut s = String::new();
    t.prepare(&mut s, MysqlQueryBuilder.quote());
    t.prepare(&mut s, PostgresQueryBuilder.quote());
    t.prepare(&mut s, SqliteQueryBuilder.quote());
    s.push_str(&t.to_string());
    s.push_str(&rcol(&ColumnRef::Column(t.clone())));
    s
}

fn idens_and_refs(rig: &mut Rig) {
    // DynIden == SeaRc<dyn Iden>: the instance is the pool's own allocation, so every
    // worker bumps the very reference count that all other rows' instances share.
    row!(rig, "SeaRc", DynIden, ce, || pool().a.clone(), riden);
    row!(rig, "SeaRc/derive-iden", DynIden, ce, || G::Image.into_iden(), riden);
    row!(rig, "SeaRc/enum-def", DynIden, ce, || SeaRc::new(CakeIden::Id), riden);
    row!(rig, "SeaRc/vec", Vec<DynIden>, ce, || vec![pool().a.clone(), pool().a.clone(), pool().t.clone(), pool().a.clone(), SeaRc::new(NullAlias), SeaRc::new(PgLTree), SeaRc::new(MySqlType::LongBlob)], |t| t.iter().map(riden).collect());
    row!(rig, "Alias", Alias, ce, || Alias::new("al\"ias`"), |t| riden(&t.clone().into_iden()));
    row!(rig, "NullAlias", NullAlias, c, NullAlias::new, |t| riden(&t.into_iden()));
    row!(rig, "Asterisk", Asterisk, c, || Asterisk, |t| rcol(&t.into_column_ref()));
    row!(rig, "PgLTree", PgLTree, ce, || PgLTree, |t| riden(&t.clone().into_iden()));
    row!(rig, "MySqlType", MySqlType, c, || MySqlType::MediumBlob, |t| riden(&t.into_iden()));
    row!(rig, "Quote", Quote, ce, || Quote::new(b'`'), dbg);
    row!(rig, "ColumnRef/Column", ColumnRef, ce, || ColumnRef::Column(pool().a.clone()), rcol);
    row!(rig, "ColumnRef/TableColumn", ColumnRef, ce, || ColumnRef::TableColumn(pool().t.clone(), pool().a.clone()), rcol);
    row!(rig, "ColumnRef/SchemaTableColumn", ColumnRef, ce, || ColumnRef::SchemaTableColumn(pool().schema.clone(), pool().t.clone(), pool().a.clone()), rcol);
    row!(rig, "ColumnRef/Asterisk", ColumnRef, ce, || ColumnRef::Asterisk, rcol);
    row!(rig, "ColumnRef/TableAsterisk", ColumnRef, ce, || ColumnRef::TableAsterisk(pool().t.clone()), rcol);
    row!(rig, "TableRef/Table", TableRef, ce, || TableRef::Table(pool().t.clone()), rtable);
    row!(rig, "TableRef/SchemaTable", TableRef, ce, || TableRef::SchemaTable(pool().schema.clone(), pool().t.clone()), rtable);
    row!(rig, "TableRef/DatabaseSchemaTable", TableRef, ce, || TableRef::DatabaseSchemaTable(pool().alias.clone(), pool().schema.clone(), pool().t.clone()), rtable);
    row!(rig, "TableRef/TableAlias", TableRef, ce, || TableRef::TableAlias(pool().t.clone(), pool().alias.clone()), rtable);
    row!(rig, "TableRef/SchemaTableAlias", TableRef, ce, || TableRef::SchemaTableAlias(pool().schema.clone(), pool().t.clone(), pool().alias.clone()), rtable);
    row!(
        rig,
        "TableRef/DatabaseSchemaTableAlias",
        TableRef,
        ce,
        || TableRef::DatabaseSchemaTableAlias(pool().alias.clone(), pool().schema.clone(), pool().t.clone(), pool().alias.clone()),
        rtable
    );
    row!(rig, "TableRef/SubQuery", TableRef, ce, || TableRef::SubQuery(big_select(), pool().alias.clone()), rtable);
    row!(
        rig,
        "TableRef/ValuesList",
        TableRef,
        ce,
        || TableRef::ValuesList(vec![ValueTuple::Three(1.into(), "a".into(), 2.5.into()), ValueTuple::Many(all_values_some().into_iter().take(3).collect())], pool().alias.clone()),
        rtable
    );
    row!(rig, "TableRef/FunctionCall", TableRef, ce, || TableRef::FunctionCall(Func::cust(pool().c.clone()).arg(Expr::col(pool().a.clone())), pool().alias.clone()), rtable);
    row!(rig, "Order", Order, ce, || Order::Field(Values(all_values_some())), dbg);
    row!(rig, "NullOrdering", NullOrdering, ce, || NullOrdering::Last, dbg);
}

fn values(rig: &mut Rig) {
    row!(rig, "Values", Values, ce, || Values(if lite() { all_values_some() } else { all_values() }), |t| t
        .0
        .iter()
        .enumerate()
        .filter(|(i, _)| !lite() || i % 4 == 1) // lite: all variants are cloned/compared/dropped, every 4th is rendered
        .map(|(i, v)| match (lite(), i % 3) {
            (false, _) => value_strings(v),
            (true, 0) => MysqlQueryBuilder.value_to_string(v),
            (true, 1) => PostgresQueryBuilder.value_to_string(v),
            (true, _) => SqliteQueryBuilder.value_to_string(v),
        })
        .collect::<Vec<_>>()
        .join("\n"));
    row!(rig, "Value/Array", Value, ce, || Value::Array(ArrayType::Json, Some(Box::new(all_values_some().into_iter().filter(|v| matches!(v, Value::Json(_))).collect()))), value_strings);
    row!(rig, "Value/Json", Value, ce, || all_values_some().into_iter().find(|v| matches!(v, Value::Json(_))).unwrap(), value_strings);
    row!(rig, "Value/String", Value, ce, || Value::from("shared \\'string'"), |t| re(Expr::val(t.clone()), ALL));
    row!(rig, "Value/BigDecimal", Value, ce, || all_values_some().into_iter().find(|v| matches!(v, Value::BigDecimal(_))).unwrap(), |t| re(Expr::val(t.clone()), ALL));
    row!(rig, "Value/ChronoDateTimeLocal", Value, ce, || all_values_some().into_iter().find(|v| matches!(v, Value::ChronoDateTimeLocal(_))).unwrap(), value_strings);
    row!(rig, "Value/Vec", Vec<Value>, ce, all_values, |t| re(Expr::col(pool().a.clone()).is_in(t.iter().cloned()), ALL));
    row!(rig, "ValueTuple/One", ValueTuple, ce, || ValueTuple::One("one".into()), dbg);
    row!(rig, "ValueTuple/Two", ValueTuple, ce, || ValueTuple::Two(1.into(), 2.5f32.into()), dbg);
    row!(rig, "ValueTuple/Three", ValueTuple, ce, || (1, "b", 3u64).into_value_tuple(), dbg);
    row!(rig, "ValueTuple/Many", ValueTuple, ce, || ValueTuple::Many(all_values()), |t| re(
        Expr::tuple([Expr::col(pool().a.clone()).into()]).in_tuples([t.clone()]),
        ALL
    ));
    row!(rig, "ArrayType", ArrayType, ce, || ArrayType::TimeDateTimeWithTimeZone, dbg);
    row!(rig, "ValueTypeErr", ValueTypeErr, n, || <i32 as ValueType>::try_from(Value::from("not an int")).unwrap_err(), |t| t.to_string());
    row!(
        rig,
        "SqlWriterValues",
        SqlWriterValues,
        c,
        || {
            let mut w = SqlWriterValues::new("$", true);
            big_select().build_collect_any_into(&PostgresQueryBuilder, &mut w);
            w
        },
        |t| {
            let (s, v) = t.clone().into_parts();
            format!("{s} {v:?}")
        }
    );
}

fn table_alter_my_pg() -> TableAlterStatement {
    let p = pool();
    let mut t = Table::alter();
    t.table((p.schema.clone(), p.t.clone()))
        .add_column(column_def())
        .add_column_if_not_exists(ColumnDef::new(p.b.clone()).integer().default(1))
        .modify_column(ColumnDef::new(p.c.clone()).big_integer().not_null().default(7))
        .rename_column(p.a.clone(), p.alias.clone())
        .drop_column(p.c.clone())
        .add_foreign_key(&table_fk())
        .drop_foreign_key(Alias::new("fk_old"));
    t
}

fn rcoltype(t: &ColumnType) -> String {
    let mask = if matches!(t, ColumnType::Year) { MY } else { PG };
    rs(Table::create().table(pool().t.clone()).col(ColumnDef::new_with_type(pool().a.clone(), t.clone())), mask)
}

fn schema(rig: &mut Rig) {
    row!(rig, "TableCreateStatement", TableCreateStatement, c, table_create, |t| rs(t, ALL));
    row!(rig, "TableCreateStatement/pg", TableCreateStatement, c, table_create_pg, |t| rs(t, PG));
    row!(rig, "TableAlterStatement", TableAlterStatement, c, table_alter_my_pg, |t| rs(t, MY | PG));
    row!(
        rig,
        "TableAlterStatement/sqlite",
        TableAlterStatement,
        c,
        || Table::alter().table(pool().t.clone()).add_column(ColumnDef::new(pool().a.clone()).string().not_null().default("d")).to_owned(),
        |t| rs(t, ALL)
    );
    row!(
        rig,
        "TableDropStatement",
        TableDropStatement,
        c,
        || Table::drop().table(pool().t.clone()).table((pool().schema.clone(), pool().t.clone())).if_exists().cascade().to_owned(),
        |t| rs(t, ALL)
    );
    row!(rig, "TableRenameStatement", TableRenameStatement, c, || Table::rename().table((pool().schema.clone(), pool().t.clone()), pool().alias.clone()).to_owned(), |t| rs(t, ALL));
    row!(rig, "TableTruncateStatement", TableTruncateStatement, c, || Table::truncate().table((pool().schema.clone(), pool().t.clone())).to_owned(), |t| rs(t, MY | PG));
    row!(rig, "Table", Table, n, || Table, |_| rs(&Table::drop().table(pool().t.clone()).to_owned(), ALL));
    row!(rig, "TableStatement/create", TableStatement, c, || TableStatement::Create(table_create()), |t| format!(
        "{}{}{}",
        t.to_string(MysqlQueryBuilder),
        t.build(PostgresQueryBuilder),
        t.build_any(&SqliteQueryBuilder)
    ));
    row!(rig, "TableStatement/alter", TableStatement, c, || TableStatement::Alter(table_alter_my_pg()), |t| format!("{}{}", t.to_string(MysqlQueryBuilder), t.build(PostgresQueryBuilder)));
    row!(rig, "SchemaStatement/table", SchemaStatement, c, || SchemaStatement::TableStatement(TableStatement::Create(table_create())), dbg);
    row!(rig, "SchemaStatement/index", SchemaStatement, c, || SchemaStatement::IndexStatement(IndexStatement::Create(index_create())), dbg);
    row!(rig, "SchemaStatement/fk", SchemaStatement, c, || SchemaStatement::ForeignKeyStatement(ForeignKeyStatement::Create(fk_create())), dbg);
    row!(rig, "TableOpt", TableOpt, c, || TableOpt::CharacterSet("utf8mb4".to_owned()), dbg);
    row!(rig, "TableDropOpt", TableDropOpt, c, || TableDropOpt::Cascade, dbg);
    row!(rig, "TableAlterOption", TableAlterOption, c, || TableAlterOption::ModifyColumn(column_def()), dbg);
    row!(rig, "TableAlterOption/fk", TableAlterOption, c, || TableAlterOption::AddForeignKey(table_fk()), dbg);
    row!(rig, "TableAlterOption/rename", TableAlterOption, c, || TableAlterOption::RenameColumn(pool().a.clone(), pool().a.clone()), dbg);
    row!(rig, "ColumnDef", ColumnDef, c, column_def, |t| rs(Table::create().table(pool().t.clone()).col(t.clone()), ALL));
    row!(rig, "ColumnType/all", Vec<ColumnType>, c, column_types, |t| t.iter().map(rcoltype).collect());
    row!(
        rig,
        "ColumnType/Array",
        ColumnType,
        c,
        || ColumnType::Array(RcOrArc::new(ColumnType::Array(RcOrArc::new(ColumnType::Enum { name: pool().c.clone(), variants: vec![pool().a.clone(), pool().a.clone()] })))),
        rcoltype
    );
    row!(rig, "ColumnType/Enum", ColumnType, c, || ColumnType::Enum { name: pool().c.clone(), variants: vec![pool().a.clone(), pool().b.clone()] }, |t| rs(
        Table::create().table(pool().t.clone()).col(ColumnDef::new_with_type(pool().a.clone(), t.clone())),
        ALL
    ));
    row!(rig, "ColumnSpec", ColumnSpec, c, || ColumnSpec::Generated { expr: every_simple_expr(), stored: true }, dbg);
    row!(rig, "ColumnSpec/default", ColumnSpec, c, || ColumnSpec::Default(case_stmt().into()), dbg);
    row!(rig, "StringLen", StringLen, ce, || StringLen::N(77), dbg);
    row!(rig, "PgInterval", PgInterval, ce, || PgInterval::HourToSecond, |t| t.to_string());
    row!(rig, "PgDateTruncUnit", PgDateTruncUnit, ce, || PgDateTruncUnit::Millennium, |t| t.to_string());
    row!(rig, "IndexCreateStatement", IndexCreateStatement, c, index_create, |t| rs(t, ALL));
    row!(
        rig,
        "IndexCreateStatement/pg",
        IndexCreateStatement,
        c,
        || Index::create()
            .name("ix_pg")
            .table(pool().t.clone())
            .col(pool().a.clone())
            .include(pool().b.clone())
            .index_type(IndexType::Custom(pool().alias.clone()))
            .nulls_not_distinct()
            .unique()
            .to_owned(),
        |t| rs(t, PG)
    );
    row!(rig, "IndexDropStatement", IndexDropStatement, c, || Index::drop().name("ix_t_a_b").table((pool().schema.clone(), pool().t.clone())).if_exists().to_owned(), |t| rs(t, PG | SL));
    row!(rig, "IndexDropStatement/mysql", IndexDropStatement, c, || Index::drop().name("ix_t_a_b").table(pool().t.clone()).to_owned(), |t| rs(t, ALL));
    row!(rig, "Index", Index, c, || Index, |_| rs(&index_create(), ALL));
    row!(rig, "IndexStatement", IndexStatement, c, || IndexStatement::Create(index_create()), dbg);
    row!(rig, "IndexType", IndexType, c, || IndexType::Custom(pool().alias.clone()), dbg);
    row!(rig, "IndexOrder", IndexOrder, c, || IndexOrder::Desc, dbg);
    row!(rig, "TableIndex", TableIndex, c, || index_create().get_index_spec().clone(), |t| t.get_column_names().join(","));
    row!(rig, "ForeignKeyCreateStatement", ForeignKeyCreateStatement, c, fk_create, |t| rs(t, MY | PG));
    row!(
        rig,
        "ForeignKeyCreateStatement/pg",
        ForeignKeyCreateStatement,
        c,
        || ForeignKey::create().name("fk_s").from((pool().schema.clone(), pool().t.clone()), (pool().a.clone(), pool().b.clone())).to((pool().schema.clone(), F::Table), (F::Id, F::Name)).on_delete(ForeignKeyAction::SetDefault).to_owned(),
        |t| rs(t, PG)
    );
    row!(rig, "ForeignKeyDropStatement", ForeignKeyDropStatement, c, || ForeignKey::drop().name("fk_glyph_font").table(pool().t.clone()).to_owned(), |t| rs(t, MY | PG));
    row!(rig, "ForeignKeyDropStatement/pg", ForeignKeyDropStatement, c, || ForeignKey::drop().name("fk_s").table((pool().schema.clone(), pool().t.clone())).to_owned(), |t| rs(t, PG));
    row!(rig, "ForeignKey", ForeignKey, c, || ForeignKey, |_| rs(&fk_create(), MY | PG));
    row!(rig, "ForeignKeyStatement", ForeignKeyStatement, c, || ForeignKeyStatement::Create(fk_create()), dbg);
    row!(rig, "TableForeignKey", TableForeignKey, c, table_fk, |t| format!("{:?} {:?} {:?}", t.get_ref_table(), t.get_columns(), t.get_ref_columns()));
    row!(rig, "ForeignKeyAction", ForeignKeyAction, c, || ForeignKeyAction::SetDefault, dbg);
}

fn pg_ext(rig: &mut Rig) {
    row!(
        rig,
        "TypeCreateStatement",
        TypeCreateStatement,
        c,
        || Type::create().as_enum((pool().schema.clone(), pool().alias.clone())).values([pool().a.clone(), pool().b.clone(), pool().a.clone()]).to_owned(),
        |t| rtype(t, |s| s.to_string(PostgresQueryBuilder), |s| s.build_ref(&PostgresQueryBuilder), |s, w| s.build_collect(PostgresQueryBuilder, w))
    );
    row!(
        rig,
        "TypeDropStatement",
        TypeDropStatement,
        c,
        || Type::drop().if_exists().names([pool().alias.clone().into_type_ref(), (pool().schema.clone(), pool().alias.clone()).into_type_ref()]).cascade().to_owned(),
        |t| rtype(t, |s| s.to_string(PostgresQueryBuilder), |s| s.build_ref(&PostgresQueryBuilder), |s, w| s.build_collect(PostgresQueryBuilder, w))
    );
    row!(
        rig,
        "TypeAlterStatement",
        TypeAlterStatement,
        c,
        || Type::alter().name((pool().schema.clone(), pool().alias.clone())).add_value(pool().a.clone()).if_not_exists().before(pool().b.clone()),
        |t| rtype(t, |s| s.to_string(PostgresQueryBuilder), |s| s.build_ref(&PostgresQueryBuilder), |s, w| s.build_collect(PostgresQueryBuilder, w))
    );
    row!(
        rig,
        "TypeAlterStatement/rename-value",
        TypeAlterStatement,
        c,
        || Type::alter().name(pool().alias.clone()).rename_value(pool().a.clone(), pool().b.clone()),
        |t| rtype(t, |s| s.to_string(PostgresQueryBuilder), |s| s.build_ref(&PostgresQueryBuilder), |s, w| s.build_collect(PostgresQueryBuilder, w))
    );
    row!(rig, "Type", Type, n, || Type, |_| Type::drop().name(pool().alias.clone()).to_string(PostgresQueryBuilder));
    row!(rig, "TypeRef", TypeRef, c, || TypeRef::DatabaseSchemaType(pool().alias.clone(), pool().schema.clone(), pool().alias.clone()), |t| Type::drop().name(t.clone()).to_string(PostgresQueryBuilder));
    row!(rig, "TypeAs", TypeAs, c, || TypeAs::Enum, dbg);
    row!(rig, "TypeDropOpt", TypeDropOpt, c, || TypeDropOpt::Restrict, dbg);
    row!(
        rig,
        "TypeAlterOpt",
        TypeAlterOpt,
        c,
        || TypeAlterOpt::Add { value: pool().a.clone(), placement: Some(TypeAlterAddOpt::After(pool().a.clone())), if_not_exists: true },
        dbg
    );
    row!(rig, "TypeAlterAddOpt", TypeAlterAddOpt, c, || TypeAlterAddOpt::Before(pool().b.clone()), dbg);
    row!(rig, "Extension", Extension, ce, || Extension, |_| Extension::drop().name("ltree").to_string(PostgresQueryBuilder));
    row!(
        rig,
        "ExtensionCreateStatement",
        ExtensionCreateStatement,
        ce,
        || Extension::create().name("ltree").schema("sch").version("1.2").cascade().if_not_exists().to_owned(),
        |t| rtype(t, |s| s.to_string(PostgresQueryBuilder), |s| s.build_ref(&PostgresQueryBuilder), |s, w| s.build_collect(PostgresQueryBuilder, w))
    );
    row!(
        rig,
        "ExtensionDropStatement",
        ExtensionDropStatement,
        ce,
        || Extension::drop().name("ltree").if_exists().restrict().to_owned(),
        |t| rtype(t, |s| s.to_string(PostgresQueryBuilder), |s| s.build_ref(&PostgresQueryBuilder), |s, w| s.build_collect(PostgresQueryBuilder, w))
    );
}

/// A deeply nested expression: every worker walks it recursively at the same time (rendering, Debug,
/// clone, `==`, drop). The depth is far below any sane per-rendering limit but several renderings in
/// flight add up to thousands of levels.
fn deep_expr() -> SimpleExpr {
    let depth = if crate::LITE.load(std::sync::atomic::Ordering::Relaxed) { 24 } else { 400 };
    let mut e: SimpleExpr = Expr::col(pool().a.clone()).into();
    for i in 0..depth {
        e = if i % 2 == 0 { e.add(Expr::val(i as i32)) } else { Expr::val(i as i32).mul(e) };
    }
    e
}

/// `inject_parameters` as another rendering route over shared input, preceded each time by a call that is
/// given too few values (it panics for that caller only; nothing may be left behind for the others).
fn inject_with_fault(t: &(String, Values)) -> String {
    let bad = std::panic::catch_unwind(|| inject_parameters("a = ? AND b = ?", [Value::from(1)], &MysqlQueryBuilder));
    let ok = inject_parameters(&t.0, t.1 .0.clone(), &PostgresQueryBuilder);
    format!("{} / faulty call panicked: {}", ok, bad.is_err())
}

fn misc(rig: &mut Rig) {
    row!(rig, "SimpleExpr/deep", SimpleExpr, ce, deep_expr, |t| re(t.clone(), ALL));
    row!(rig, "inject_parameters", (String, Values), n, || big_select().build(PostgresQueryBuilder), inject_with_fault);
    row!(rig, "MysqlQueryBuilder", MysqlQueryBuilder, n, || MysqlQueryBuilder, |t| {
        let (q, v) = big_select().build_any(t);
        format!("{q} {v:?} {}", table_create().build_any(t))
    });
    row!(rig, "PostgresQueryBuilder", PostgresQueryBuilder, n, || PostgresQueryBuilder, |t| {
        let (q, v) = big_select().build_any(t);
        format!("{q} {v:?} {}", table_create().build_any(t))
    });
    row!(rig, "SqliteQueryBuilder", SqliteQueryBuilder, n, || SqliteQueryBuilder, |t| {
        let (q, v) = big_select().build_any(t);
        format!("{q} {v:?} {}", table_create().build_any(t))
    });
    row!(rig, "Error", Error, n, || Query::insert().into_table(pool().t.clone()).columns([pool().a.clone()]).values([1.into(), 2.into()]).unwrap_err(), |t| t.to_string());
    row!(rig, "Token", Vec<Token>, n, || Tokenizer::new("SELECT \"a\", 'b''c' FROM `t` WHERE x = $1 AND y = ?").iter().collect(), |t| t.iter().map(|k| k.to_string()).collect());
    row!(rig, "Tokenizer", Tokenizer, n, || Tokenizer::new("a = ? AND 'q' <> [b]"), |t| Tokenizer::new(&t.chars.iter().collect::<String>()).iter().map(|k| format!("<{k}>")).collect());
}
