//! C20 monitor: "with `thread-safe`, every builder and statement type is Send + Sync".
//!
//! For every public statement / expression / condition / value / identifier type of
//! sea-query (hand-maintained table in `table.rs`) the generic `ship::<T>`:
//!   1. builds a non-trivial instance on thread A and renders it there (reference),
//!   2. moves it through an mpsc channel to thread B,
//!   3. B wraps it in an `Arc` and shares `&T` with N workers which concurrently render
//!      (three backends, `to_string` and `build`, plus `Debug`), clone, compare
//!      (`==`, exercising the `unsafe` transmute in `SeaRc::eq`) and drop their clones,
//!   4. an `async fn` builds a second instance on thread C, is suspended at a
//!      hand-written `Yield` future while holding it, and is resumed and completed on
//!      thread D (std-only `block_on`); the future is required to be `Send`.
//! Every cross-thread rendering is compared with the single-threaded one.
//!
//! `T: Send + Sync` is a bound of `ship`, and every table row is its own
//! monomorphisation, so a type losing Send/Sync fails the build with an E0277
//! diagnostic naming it (the driver turns that into a violation).
//!
//! Usage: c20 --threads N --iters M [--only a,b,c [--exact]] [--lite] [--list] [--samples]
//! (counts come from argv, never from the environment; no clock, no env, no FFI).
//!   --only a,b   run only the rows named a, b (a name without `/` selects `a` and `a/...`)
//!   --exact      `--only` names select exactly the rows of that name
//!   --lite       Miri mode: the same nested shapes with few leaves, one `build` per
//!                rendering, no `Debug` rendering, clones are compared but not re-rendered
//!   --list       print `TYPE <row>` / `GATEONLY <type>` and exit
//!   --samples    print `SAMPLE <row> <rendering>` (newlines escaped) for the evidence file
//! Output: `SHIPPED <row> threads=<n> iters=<m> renders_equal=<k> awaits=2` per row,
//! `MISMATCH <row> ...` per differing cross-thread rendering / failed `==`, and a final
//! `DONE types=<rows> total_renders=<n> awaits=<n> mismatches=<n>` (exit 3 on mismatch).

mod table;
mod vals;

/// Miri mode (`--lite`), readable from the instance constructors
pub static LITE: std::sync::atomic::AtomicBool = std::sync::atomic::AtomicBool::new(false);

use std::fmt::Debug;
use std::future::Future;
use std::pin::Pin;
use std::sync::atomic::{AtomicU64, Ordering};
use std::sync::{mpsc, Arc, Barrier};
use std::task::{Context, Poll, Wake, Waker};
use std::thread::{self, Thread, ThreadId};

// ---------------------------------------------------------------------------
// await point machinery (std only)
// ---------------------------------------------------------------------------

/// Returns `Pending` once (after waking itself), then `Ready`.
pub struct Yield(bool);

impl Future for Yield {
    type Output = ();
    fn poll(mut self: Pin<&mut Self>, cx: &mut Context<'_>) -> Poll<()> {
        if self.0 {
            Poll::Ready(())
        } else {
            self.0 = true;
            cx.waker().wake_by_ref();
            Poll::Pending
        }
    }
}

struct Unparker(Thread);

impl Wake for Unparker {
    fn wake(self: Arc<Self>) {
        self.0.unpark();
    }
}

fn thread_waker() -> Waker {
    Waker::from(Arc::new(Unparker(thread::current())))
}

/// Polls `f` exactly once on the calling thread.
fn poll_once<O>(f: &mut Pin<Box<dyn Future<Output = O> + Send>>) -> Poll<O> {
    let w = thread_waker();
    let mut cx = Context::from_waker(&w);
    f.as_mut().poll(&mut cx)
}

/// Minimal executor: polls `f` to completion on the calling thread.
fn block_on<O>(mut f: Pin<Box<dyn Future<Output = O> + Send>>) -> (O, u32) {
    let w = thread_waker();
    let mut cx = Context::from_waker(&w);
    let mut pendings = 0;
    loop {
        match f.as_mut().poll(&mut cx) {
            Poll::Ready(v) => return (v, pendings),
            Poll::Pending => {
                pendings += 1;
                thread::park();
            }
        }
    }
}

fn assert_send<F: Future + Send>(f: F) -> F {
    f
}

/// Builds the value, is suspended twice while holding it, renders it afterwards.
async fn held_across_await<T>(make: fn() -> T, render: fn(&T) -> String) -> (String, ThreadId, ThreadId) {
    let v = make();
    let built_on = thread::current().id();
    Yield(false).await; // first suspension: the driver moves the future to another thread here
    Yield(false).await; // second suspension: woken through the other thread's waker
    let s = render(&v);
    (s, built_on, thread::current().id())
}

// ---------------------------------------------------------------------------
// per-type exercise (clone / compare / drop), chosen per table row
// ---------------------------------------------------------------------------

pub struct Exercised {
    /// rendering of a clone made on the worker thread (None: type has no Clone)
    pub clone_render: Option<String>,
    /// `==` checks that did not hold (None: type has no PartialEq)
    pub eq_failed: Option<&'static str>,
}

pub type Exercise<T> = fn(&T, Option<fn(&T) -> String>) -> Exercised;

pub fn ex_clone_eq<T: Clone + PartialEq>(t: &T, render: Option<fn(&T) -> String>) -> Exercised {
    let c = t.clone();
    let c2 = c.clone();
    let mut eq_failed = None;
    #[allow(clippy::eq_op)]
    if !(t == t) {
        eq_failed = Some("t == t");
    } else if !(c == *t) {
        eq_failed = Some("clone == original");
    } else if !(*t == c2) {
        eq_failed = Some("original == clone-of-clone");
    } else if c != c2 {
        eq_failed = Some("!(clone != clone-of-clone)");
    }
    drop(c2);
    let s = render.map(|r| r(&c));
    drop(c);
    Exercised { clone_render: s, eq_failed }
}

pub fn ex_clone<T: Clone>(t: &T, render: Option<fn(&T) -> String>) -> Exercised {
    let c = t.clone();
    let c2 = c.clone();
    drop(c);
    let s = render.map(|r| r(&c2));
    drop(c2);
    Exercised { clone_render: s, eq_failed: None }
}

pub fn ex_none<T>(_t: &T, _render: Option<fn(&T) -> String>) -> Exercised {
    Exercised { clone_render: None, eq_failed: None }
}

// ---------------------------------------------------------------------------
// the shipping harness
// ---------------------------------------------------------------------------

pub struct Rig {
    pub threads: usize,
    pub iters: usize,
    pub only: Option<Vec<String>>,
    /// `--exact`: `--only` names select exactly the row of that name (not `Name/...` too)
    pub exact: bool,
    /// `--lite`: small instances, no Debug rendering, clones are not re-rendered (Miri)
    pub lite: bool,
    pub list: bool,
    pub samples: bool,
    pub types: usize,
    pub total_renders: u64,
    pub awaits: u64,
    pub mismatches: u64,
    pub seen: Vec<&'static str>,
}

fn clip(s: &str) -> String {
    let mut o: String = s.chars().take(400).collect();
    if o.len() < s.len() {
        o.push_str("...");
    }
    o.replace('\\', "\\\\").replace('\n', "\\n")
}

impl Rig {
    fn wanted(&self, name: &str) -> bool {
        match &self.only {
            None => true,
            Some(v) => {
                let base = name.split('/').next().unwrap_or(name);
                v.iter().any(|w| w == name || (!self.exact && w == base))
            }
        }
    }

    /// The monitor proper. `T: Send + Sync` is the compile-time half of the property.
    pub fn ship<T>(&mut self, name: &'static str, make: fn() -> T, render: fn(&T) -> String, exercise: Exercise<T>)
    where
        T: Send + Sync + Debug + 'static,
    {
        if self.list {
            // (quadratic duplicate check only here: it is far too slow for Miri)
            assert!(!self.seen.contains(&name), "duplicate table row {name}");
            self.seen.push(name);
            println!("TYPE {name}");
            return;
        }
        if !self.wanted(name) {
            return;
        }
        self.seen.push(name);
        let threads = self.threads;
        let iters = self.iters;
        let lite = self.lite;
        let full = move |t: &T| -> String {
            if lite {
                format!("{}\n-- debug --\n", render(t))
            } else {
                format!("{}\n-- debug --\n{:?}", render(t), t)
            }
        };

        // thread A: build + reference rendering, then move the value away
        let (tx, rx) = mpsc::channel::<(T, String, String, ThreadId)>();
        let a = thread::Builder::new()
            .name(format!("A:{name}"))
            .spawn(move || {
                // The value that is shipped and shared is NEVER rendered before the workers do it
                // concurrently (a lazily filled cache behind `&self` would otherwise be warm already);
                // the reference rendering comes from a second, identically built instance.
                let v = make();
                let reference = make();
                let sql = render(&reference);
                let expect = if lite { format!("{}\n-- debug --\n", sql) } else { format!("{}\n-- debug --\n{:?}", sql, reference) };
                drop(reference);
                tx.send((v, expect, sql, thread::current().id())).expect("send to B");
            })
            .expect("spawn A");

        // thread B: receive, share with workers
        let equal = Arc::new(AtomicU64::new(0));
        let equal_b = equal.clone();
        let b = thread::Builder::new()
            .name(format!("B:{name}"))
            .spawn(move || {
                let (v, expect, sql, built_on) = rx.recv().expect("recv from A");
                assert_ne!(built_on, thread::current().id());
                let shared = Arc::new(v);
                let expect = Arc::new(expect);
                let barrier = Arc::new(Barrier::new(threads));
                let mut hs = Vec::new();
                for w in 0..threads {
                    let shared = shared.clone();
                    let expect = expect.clone();
                    let barrier = barrier.clone();
                    let equal = equal_b.clone();
                    hs.push(
                        thread::Builder::new()
                            .name(format!("W{w}:{name}"))
                            .spawn(move || -> Vec<String> {
                                let mut bad = Vec::new();
                                barrier.wait();
                                let t: &T = &shared;
                                for it in 0..iters {
                                    let got = full(t);
                                    if got == *expect {
                                        equal.fetch_add(1, Ordering::Relaxed);
                                    } else {
                                        bad.push(format!("thread={w} iter={it} kind=render got={} want={}", clip(&got), clip(&expect)));
                                    }
                                    // clone / compare / render the clone / drop it, all on this thread
                                    let ex = exercise(t, if lite { None } else { Some(render) });
                                    if let Some(cr) = ex.clone_render {
                                        // the clone's SQL must equal the SQL half of the reference
                                        if expect.starts_with(cr.as_str()) && expect[cr.len()..].starts_with("\n-- debug --\n") {
                                            equal.fetch_add(1, Ordering::Relaxed);
                                        } else {
                                            bad.push(format!("thread={w} iter={it} kind=clone-render got={} want={}", clip(&cr), clip(&expect)));
                                        }
                                    }
                                    if let Some(which) = ex.eq_failed {
                                        bad.push(format!("thread={w} iter={it} kind=eq failed={which}"));
                                    }
                                }
                                // the last worker to finish drops the value on a worker thread
                                drop(shared);
                                bad
                            })
                            .expect("spawn worker"),
                    );
                }
                drop(shared);
                let mut bad = Vec::new();
                for h in hs {
                    bad.extend(h.join().expect("worker panicked"));
                }
                (bad, sql, expect)
            })
            .expect("spawn B");
        a.join().expect("thread A panicked");
        let (mut bad, sql, expect) = b.join().expect("thread B panicked");

        // await point: first poll on thread C (value is built there and held in the
        // suspended future), the future is then moved to thread D and completed there.
        let (ftx, frx) = mpsc::channel::<Pin<Box<dyn Future<Output = (String, ThreadId, ThreadId)> + Send>>>();
        let c = thread::Builder::new()
            .name(format!("C:{name}"))
            .spawn(move || {
                let mut fut: Pin<Box<dyn Future<Output = _> + Send>> = Box::pin(assert_send(held_across_await::<T>(make, render)));
                assert!(poll_once(&mut fut).is_pending(), "future must suspend at the first await point");
                ftx.send(fut).expect("send future");
            })
            .expect("spawn C");
        let d = thread::Builder::new()
            .name(format!("D:{name}"))
            .spawn(move || {
                let fut = frx.recv().expect("recv future");
                let ((s, built_on, rendered_on), pendings) = block_on(fut);
                assert_eq!(pendings, 1, "second await point must suspend once on thread D");
                assert_ne!(built_on, rendered_on, "await point was not crossed between threads");
                assert_eq!(rendered_on, thread::current().id());
                s
            })
            .expect("spawn D");
        c.join().expect("thread C panicked");
        let awaited = d.join().expect("thread D panicked");
        let mut k = equal.load(Ordering::Relaxed);
        if awaited == sql {
            k += 1;
        } else {
            bad.push(format!("thread=D kind=await-render got={} want={}", clip(&awaited), clip(&expect)));
        }
        self.awaits += 2;
        self.types += 1;
        self.total_renders += k;
        for m in &bad {
            self.mismatches += 1;
            println!("MISMATCH {name} {m}");
        }
        if self.samples {
            println!("SAMPLE {name} {}", clip(&sql));
        }
        println!("SHIPPED {name} threads={threads} iters={iters} renders_equal={k} awaits=2");
    }
}

fn main() {
    let mut rig = Rig {
        threads: 4,
        iters: 4,
        only: None,
        exact: false,
        lite: false,
        list: false,
        samples: false,
        types: 0,
        total_renders: 0,
        awaits: 0,
        mismatches: 0,
        seen: Vec::new(),
    };
    let args: Vec<String> = std::env::args().skip(1).collect();
    let mut i = 0;
    while i < args.len() {
        match args[i].as_str() {
            "--threads" => {
                i += 1;
                rig.threads = args[i].parse().expect("--threads N");
            }
            "--iters" => {
                i += 1;
                rig.iters = args[i].parse().expect("--iters M");
            }
            "--only" => {
                i += 1;
                rig.only = Some(args[i].split(',').map(|s| s.to_string()).collect());
            }
            "--list" => rig.list = true,
            "--exact" => rig.exact = true,
            "--lite" => {
                LITE.store(true, Ordering::Relaxed);
                rig.lite = true;
                vals::LITE.store(true, Ordering::Relaxed);
            }
            "--samples" => rig.samples = true,
            other => panic!("unknown argument {other}"),
        }
        i += 1;
    }
    assert!(rig.threads >= 2, "need at least 2 worker threads");
    table::static_gate();
    table::run(&mut rig);
    if let Some(only) = &rig.only {
        // every --only name must have selected at least one row (`seen` holds the rows run)
        for w in only {
            assert!(
                rig.seen.iter().any(|n| n == w || n.split('/').next() == Some(w.as_str())),
                "--only names unknown type {w}"
            );
        }
    }
    if !rig.list {
        println!(
            "DONE types={} total_renders={} awaits={} mismatches={}",
            rig.types, rig.total_renders, rig.awaits, rig.mismatches
        );
    }
    if rig.mismatches > 0 {
        std::process::exit(3);
    }
}
