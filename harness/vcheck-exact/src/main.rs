fn main() {
    std::process::exit(vglue::main_with_variant("exact"));
}
