//! Deterministic PRNG (splitmix64 seeding + xoshiro256**). Every case of every
//! shard gets its own stream derived from (seed, property, shard, case), so a
//! single case can be regenerated in isolation for replay.

#[derive(Clone, Debug)]
pub struct Rng {
    s: [u64; 4],
}

pub fn splitmix(x: &mut u64) -> u64 {
    *x = x.wrapping_add(0x9E37_79B9_7F4A_7C15);
    let mut z = *x;
    z = (z ^ (z >> 30)).wrapping_mul(0xBF58_476D_1CE4_E5B9);
    z = (z ^ (z >> 27)).wrapping_mul(0x94D0_49BB_1331_11EB);
    z ^ (z >> 31)
}

pub fn hash_str(s: &str) -> u64 {
    // FNV-1a 64
    let mut h: u64 = 0xcbf29ce484222325;
    for b in s.as_bytes() {
        h ^= *b as u64;
        h = h.wrapping_mul(0x100000001b3);
    }
    h
}

pub fn hash_bytes(s: &[u8]) -> u64 {
    let mut h: u64 = 0xcbf29ce484222325;
    for b in s {
        h ^= *b as u64;
        h = h.wrapping_mul(0x100000001b3);
    }
    h
}

pub fn mix(a: u64, b: u64) -> u64 {
    let mut x = a ^ b.rotate_left(32) ^ 0x2545_F491_4F6C_DD1D;
    splitmix(&mut x)
}

impl Rng {
    pub fn new(seed: u64) -> Self {
        let mut x = seed;
        let s = [
            splitmix(&mut x),
            splitmix(&mut x),
            splitmix(&mut x),
            splitmix(&mut x),
        ];
        Rng { s }
    }

    /// Stream for case `n` of shard `shard` of property `prop` under `seed`.
    pub fn for_case(seed: u64, prop: &str, shard: u64, n: u64) -> Self {
        let h = mix(mix(mix(seed, hash_str(prop)), shard), n);
        Rng::new(h)
    }

    pub fn next_u64(&mut self) -> u64 {
        let result = self.s[1].wrapping_mul(5).rotate_left(7).wrapping_mul(9);
        let t = self.s[1] << 17;
        self.s[2] ^= self.s[0];
        self.s[3] ^= self.s[1];
        self.s[1] ^= self.s[2];
        self.s[0] ^= self.s[3];
        self.s[2] ^= t;
        self.s[3] = self.s[3].rotate_left(45);
        result
    }

    pub fn next_u32(&mut self) -> u32 {
        (self.next_u64() >> 32) as u32
    }

    /// uniform in 0..n (n > 0)
    pub fn below(&mut self, n: usize) -> usize {
        debug_assert!(n > 0);
        ((self.next_u64() >> 11) % (n as u64)) as usize
    }

    pub fn range(&mut self, lo: i64, hi_incl: i64) -> i64 {
        lo + self.below((hi_incl - lo + 1) as usize) as i64
    }

    /// true with probability num/den
    pub fn chance(&mut self, num: usize, den: usize) -> bool {
        self.below(den) < num
    }

    pub fn coin(&mut self) -> bool {
        self.next_u64() & 1 == 1
    }

    pub fn pick<'a, T>(&mut self, xs: &'a [T]) -> &'a T {
        &xs[self.below(xs.len())]
    }

    pub fn pick_weighted(&mut self, weights: &[u32]) -> usize {
        let total: u32 = weights.iter().sum();
        let mut r = self.below(total as usize) as u32;
        for (i, w) in weights.iter().enumerate() {
            if r < *w {
                return i;
            }
            r -= w;
        }
        weights.len() - 1
    }

    pub fn shuffle<T>(&mut self, xs: &mut [T]) {
        for i in (1..xs.len()).rev() {
            let j = self.below(i + 1);
            xs.swap(i, j);
        }
    }

    /// Random unicode string biased to an alphabet of "interesting" chars.
    pub fn string_from(&mut self, alphabet: &[char], max_len: usize, wild: bool) -> String {
        let n = self.below(max_len + 1);
        let mut s = String::new();
        for _ in 0..n {
            if wild && self.chance(1, 4) {
                s.push(self.any_char());
            } else {
                s.push(*self.pick(alphabet));
            }
        }
        s
    }

    pub fn any_char(&mut self) -> char {
        loop {
            let c = match self.below(6) {
                0 => self.below(0x80) as u32,
                1 => self.below(0x800) as u32,
                2 => self.below(0x10000) as u32,
                3 => 0x10000 + self.below(0x100000) as u32,
                4 => 0x20 + self.below(0x5f) as u32,
                _ => self.below(0x3000) as u32,
            };
            if let Some(ch) = char::from_u32(c) {
                return ch;
            }
        }
    }
}
