pub mod lex;
pub mod prng;
pub mod px;
pub mod report;
pub mod run;
#[cfg(feature = "sqlite")]
pub mod sqlite;
