pub mod lex;
pub mod prng;
pub mod px;
pub mod report;
pub mod run;
pub mod stmt;
#[cfg(feature = "sqlite")]
pub mod sqlite;
