pub mod lex;
pub mod prng;
pub mod report;
pub mod run;
#[cfg(feature = "sqlite")]
pub mod sqlite;
