//! Shard runner, verdict handling and known-finding matching shared by all
//! checker binaries.

use crate::report::{Report, Violation};
use serde_json::{json, Value as J};
use std::cell::RefCell;
use std::panic::{catch_unwind, AssertUnwindSafe};
use std::time::Instant;

#[derive(Clone, Copy, Debug, PartialEq, Eq)]
pub enum Tier {
    Quick,
    Thorough,
}

#[derive(Clone, Debug)]
pub struct Ctx {
    pub prop: String,
    pub seed: u64,
    pub tier: Tier,
    pub shard: u64,
    pub nshards: u64,
    /// replay exactly this (shard, case)
    pub replay: Option<(u64, u64)>,
    pub verbose: bool,
    /// build variant label ("base", "hash", "paren", "ts", ...)
    pub variant: String,
}

impl Ctx {
    pub fn quick(&self) -> bool {
        self.tier == Tier::Quick
    }
    /// pick the quick or thorough size
    pub fn size(&self, quick: u64, thorough: u64) -> u64 {
        if self.quick() {
            quick
        } else {
            thorough
        }
    }
    /// should case `n` (a global index within an enumeration) run on this shard?
    pub fn mine(&self, n: u64) -> bool {
        if let Some((_, c)) = self.replay {
            return c == n;
        }
        n % self.nshards == self.shard
    }
    /// for per-shard random streams: should local case `n` run?
    pub fn wants(&self, n: u64) -> bool {
        match self.replay {
            Some((_, c)) => c == n,
            None => true,
        }
    }
    pub fn rng(&self, stream: &str, n: u64) -> crate::prng::Rng {
        crate::prng::Rng::for_case(self.seed, &format!("{}/{}", self.prop, stream), self.shard, n)
    }
    /// rng that does not depend on the shard (for enumerations indexed globally)
    pub fn rng_global(&self, stream: &str, n: u64) -> crate::prng::Rng {
        crate::prng::Rng::for_case(self.seed, &format!("{}/{}", self.prop, stream), 0, n)
    }
}

thread_local! {
    static LAST_PANIC: RefCell<Option<String>> = RefCell::new(None);
}

pub fn install_quiet_panic_hook() {
    std::panic::set_hook(Box::new(|info| {
        let msg = if let Some(s) = info.payload().downcast_ref::<&str>() {
            s.to_string()
        } else if let Some(s) = info.payload().downcast_ref::<String>() {
            s.clone()
        } else {
            "<non-string panic>".to_string()
        };
        let loc = info
            .location()
            .map(|l| format!("{}:{}", l.file(), l.line()))
            .unwrap_or_default();
        LAST_PANIC.with(|p| *p.borrow_mut() = Some(format!("{msg} @ {loc}")));
    }));
}

/// Run `f`, turning a panic into Err(message @ location).
pub fn guard<T>(f: impl FnOnce() -> T) -> Result<T, String> {
    match catch_unwind(AssertUnwindSafe(f)) {
        Ok(v) => Ok(v),
        Err(_) => Err(LAST_PANIC
            .with(|p| p.borrow_mut().take())
            .unwrap_or_else(|| "<panic>".to_string())),
    }
}

/// Strip the line number from a "msg @ file:line" panic string so signatures
/// survive unrelated edits.
pub fn panic_sig(p: &str) -> String {
    match p.rfind(':') {
        Some(i) if p[i + 1..].chars().all(|c| c.is_ascii_digit()) => p[..i].to_string(),
        _ => p.to_string(),
    }
}

pub type CheckFn = fn(&Ctx, &mut Report);

pub struct Args {
    pub prop: String,
    pub tier: Tier,
    pub seed: u64,
    pub out: Option<String>,
    pub replay: Option<String>,
    pub shards: u64,
    pub variant: String,
    pub findings: String,
    pub replays_dir: String,
}

pub fn parse_args(variant: &str) -> Args {
    let argv: Vec<String> = std::env::args().collect();
    let mut a = Args {
        prop: String::new(),
        tier: Tier::Quick,
        seed: std::env::var("VERIF_SEED")
            .ok()
            .and_then(|s| s.trim().parse::<i64>().ok())
            .map(|v| v as u64)
            .unwrap_or(1),
        out: None,
        replay: None,
        shards: 0,
        variant: variant.to_string(),
        findings: "/verif/known_findings.json".to_string(),
        replays_dir: "/verif/replays".to_string(),
    };
    let mut i = 1;
    let mut pos = 0;
    while i < argv.len() {
        match argv[i].as_str() {
            "--out" => {
                a.out = Some(argv[i + 1].clone());
                i += 1;
            }
            "--replay" => {
                a.replay = Some(argv[i + 1].clone());
                i += 1;
            }
            "--seed" => {
                a.seed = argv[i + 1].parse::<i64>().expect("seed") as u64;
                i += 1;
            }
            "--shards" => {
                a.shards = argv[i + 1].parse().expect("shards");
                i += 1;
            }
            "--findings" => {
                a.findings = argv[i + 1].clone();
                i += 1;
            }
            s => {
                if pos == 0 {
                    a.prop = s.to_string();
                } else if pos == 1 {
                    a.tier = match s {
                        "quick" => Tier::Quick,
                        "thorough" => Tier::Thorough,
                        _ => panic!("tier must be quick|thorough"),
                    };
                }
                pos += 1;
            }
        }
        i += 1;
    }
    if a.shards == 0 {
        a.shards = match a.tier {
            Tier::Quick => 8,
            Tier::Thorough => 16,
        };
    }
    a
}

#[derive(Clone, Debug)]
pub struct Finding {
    pub id: String,
    pub property: String,
    pub status: String,
    pub rule: String,
    pub backend: String,
    pub signature: String,
    pub what: String,
}

pub fn load_findings(path: &str) -> Vec<Finding> {
    let txt = match std::fs::read_to_string(path) {
        Ok(t) => t,
        Err(_) => return vec![],
    };
    if txt.trim().is_empty() {
        return vec![];
    }
    let j: J = serde_json::from_str(&txt).expect("known_findings.json must parse");
    let mut out = vec![];
    if let Some(arr) = j.get("findings").and_then(|f| f.as_array()) {
        for f in arr {
            let g = |k: &str| f.get(k).and_then(|v| v.as_str()).unwrap_or("").to_string();
            out.push(Finding {
                id: g("id"),
                property: g("property"),
                status: g("status"),
                rule: g("rule"),
                backend: g("backend"),
                signature: g("signature"),
                what: g("what"),
            });
        }
    }
    out
}

fn matches(f: &Finding, prop: &str, v: &Violation) -> bool {
    f.status == "open"
        && f.property == prop
        && f.rule == v.rule
        && (f.backend == v.backend || f.backend == "*")
        && f.signature == v.sig
}

/// Run a check over all shards (threads), classify violations, write the part
/// file, print KNOWN-FINDING / VIOLATION lines and return the exit code.
pub fn run(args: &Args, check: CheckFn) -> i32 {
    install_quiet_panic_hook();
    let t0 = Instant::now();
    let findings = load_findings(&args.findings);

    let replay: Option<(u64, u64, u64)> = args.replay.as_ref().map(|p| {
        let txt = std::fs::read_to_string(p).expect("replay file");
        let j: J = serde_json::from_str(&txt).expect("replay json");
        (
            j["seed"].as_u64().unwrap(),
            j["shard"].as_u64().unwrap(),
            j["case"].as_u64().unwrap(),
        )
    });

    let mut merged = Report::new();
    let mut harness_errors: Vec<String> = vec![];
    if let Some((seed, shard, case)) = replay {
        let nshards = {
            let txt = std::fs::read_to_string(args.replay.as_ref().unwrap()).unwrap();
            let j: J = serde_json::from_str(&txt).unwrap();
            j["nshards"].as_u64().unwrap_or(args.shards)
        };
        let ctx = Ctx {
            prop: args.prop.clone(),
            seed,
            tier: args.tier,
            shard,
            nshards,
            replay: Some((shard, case)),
            verbose: true,
            variant: args.variant.clone(),
        };
        let mut r = Report::new();
        if let Err(p) = guard(|| check(&ctx, &mut r)) {
            harness_errors.push(p);
        }
        merged.merge(r);
    } else {
        let nshards = args.shards;
        let results: Vec<(Report, Option<String>)> = std::thread::scope(|s| {
            let mut hs = vec![];
            for shard in 0..nshards {
                let ctx = Ctx {
                    prop: args.prop.clone(),
                    seed: args.seed,
                    tier: args.tier,
                    shard,
                    nshards,
                    replay: None,
                    verbose: false,
                    variant: args.variant.clone(),
                };
                hs.push(
                    std::thread::Builder::new()
                        .stack_size(256 << 20)
                        .spawn_scoped(s, move || {
                            let mut r = Report::new();
                            let e = guard(|| check(&ctx, &mut r)).err();
                            (r, e)
                        })
                        .unwrap(),
                );
            }
            hs.into_iter().map(|h| h.join().unwrap()).collect()
        });
        for (r, e) in results {
            merged.merge(r);
            if let Some(e) = e {
                harness_errors.push(e);
            }
        }
    }

    // classify
    let mut new_v: Vec<&Violation> = vec![];
    let mut known_hits: std::collections::BTreeMap<String, u64> = Default::default();
    for v in &merged.violations {
        if let Some(f) = findings.iter().find(|f| matches(f, &args.prop, v)) {
            *known_hits.entry(f.id.clone()).or_insert(0) += 1;
        } else {
            new_v.push(v);
        }
    }
    for (id, _) in &known_hits {
        let f = findings.iter().find(|f| &f.id == id).unwrap();
        println!("KNOWN-FINDING: property={} {}", args.prop, f.what);
    }
    let open_not_hit: Vec<&Finding> = findings
        .iter()
        .filter(|f| f.status == "open" && f.property == args.prop && !known_hits.contains_key(&f.id))
        .collect();
    for f in &open_not_hit {
        println!(
            "INFO: listed finding {} not reproduced by this run/variant ({})",
            f.id, args.variant
        );
    }

    // replay files for new violations, deduplicated by (rule, backend, sig)
    let mut seen = std::collections::BTreeSet::new();
    let mut replay_paths = vec![];
    let mut new_json = vec![];
    if replay.is_none() {
        let _ = std::fs::create_dir_all(&args.replays_dir);
    }
    for v in &new_v {
        let key = (v.rule.clone(), v.backend.clone(), v.sig.clone());
        if !seen.insert(key) {
            continue;
        }
        new_json.push(v.to_json());
        if replay.is_some() {
            println!("VIOLATION property={} replay={}", args.prop, args.replay.as_ref().unwrap());
            if args.replay.is_some() {
                println!("{}", serde_json::to_string_pretty(&v.to_json()).unwrap());
            }
            continue;
        }
        if replay_paths.len() >= 20 {
            continue;
        }
        let path = format!(
            "{}/{}-{}-{}-{}-{}-{}.json",
            args.replays_dir,
            args.prop,
            args.variant,
            args.seed,
            v.shard,
            v.case,
            replay_paths.len()
        );
        let body = json!({
            "property": args.prop,
            "variant": args.variant,
            "tier": if args.tier == Tier::Quick {"quick"} else {"thorough"},
            "seed": args.seed,
            "nshards": args.shards,
            "shard": v.shard,
            "case": v.case,
            "violation": v.to_json(),
        });
        let _ = std::fs::write(&path, serde_json::to_string_pretty(&body).unwrap());
        println!("VIOLATION property={} replay={}", args.prop, path);
        println!(
            "  rule={} backend={} signature={}",
            v.rule, v.backend, v.sig
        );
        replay_paths.push(path);
    }

    for e in &harness_errors {
        println!("INCONCLUSIVE: harness error in shard: {e}");
    }
    let inconclusive = !harness_errors.is_empty();

    let wall = t0.elapsed().as_secs_f64();
    let part = json!({
        "property": args.prop,
        "variant": args.variant,
        "tier": if args.tier == Tier::Quick {"quick"} else {"thorough"},
        "seed": args.seed,
        "shards": args.shards,
        "wall_s": wall,
        "report": merged.to_json(),
        "violations_new": new_json,
        "violations_new_count": new_v.len(),
        "known_hits": known_hits.iter().map(|(k,v)| json!({"id":k,"count":v})).collect::<Vec<_>>(),
        "harness_errors": harness_errors,
    });
    if let Some(out) = &args.out {
        if let Some(dir) = std::path::Path::new(out).parent() {
            let _ = std::fs::create_dir_all(dir);
        }
        std::fs::write(out, serde_json::to_string_pretty(&part).unwrap()).expect("write part");
    }
    println!(
        "[{} {} {}] evaluations={} distinct_nontrivial={} new_violations={} known={} wall={:.1}s",
        args.prop,
        args.variant,
        if args.tier == Tier::Quick { "quick" } else { "thorough" },
        merged.evaluations,
        merged.distinct.len(),
        new_v.len(),
        known_hits.len(),
        wall
    );
    if !new_v.is_empty() {
        1
    } else if inconclusive {
        2
    } else {
        0
    }
}
