//! Minimal hand-written binding to the system libsqlite3 (3.40.1). This is the
//! "E" oracle: the real engine decides what a rendered statement means.

use std::ffi::{c_char, c_int, c_void, CStr, CString};

#[repr(C)]
struct Sqlite3 {
    _p: [u8; 0],
}
#[repr(C)]
struct Sqlite3Stmt {
    _p: [u8; 0],
}

extern "C" {
    fn sqlite3_open_v2(
        filename: *const c_char,
        db: *mut *mut Sqlite3,
        flags: c_int,
        vfs: *const c_char,
    ) -> c_int;
    fn sqlite3_close(db: *mut Sqlite3) -> c_int;
    fn sqlite3_progress_handler(
        db: *mut Sqlite3,
        n_ops: c_int,
        cb: Option<unsafe extern "C" fn(*mut c_void) -> c_int>,
        arg: *mut c_void,
    );
    fn sqlite3_errmsg(db: *mut Sqlite3) -> *const c_char;
    fn sqlite3_prepare_v2(
        db: *mut Sqlite3,
        sql: *const c_char,
        n: c_int,
        stmt: *mut *mut Sqlite3Stmt,
        tail: *mut *const c_char,
    ) -> c_int;
    fn sqlite3_step(stmt: *mut Sqlite3Stmt) -> c_int;
    fn sqlite3_finalize(stmt: *mut Sqlite3Stmt) -> c_int;
    fn sqlite3_column_count(stmt: *mut Sqlite3Stmt) -> c_int;
    fn sqlite3_column_type(stmt: *mut Sqlite3Stmt, i: c_int) -> c_int;
    fn sqlite3_column_int64(stmt: *mut Sqlite3Stmt, i: c_int) -> i64;
    fn sqlite3_column_double(stmt: *mut Sqlite3Stmt, i: c_int) -> f64;
    fn sqlite3_column_blob(stmt: *mut Sqlite3Stmt, i: c_int) -> *const c_void;
    fn sqlite3_column_bytes(stmt: *mut Sqlite3Stmt, i: c_int) -> c_int;
    fn sqlite3_column_name(stmt: *mut Sqlite3Stmt, i: c_int) -> *const c_char;
    fn sqlite3_bind_parameter_count(stmt: *mut Sqlite3Stmt) -> c_int;
    fn sqlite3_bind_null(stmt: *mut Sqlite3Stmt, i: c_int) -> c_int;
    fn sqlite3_bind_int64(stmt: *mut Sqlite3Stmt, i: c_int, v: i64) -> c_int;
    fn sqlite3_bind_double(stmt: *mut Sqlite3Stmt, i: c_int, v: f64) -> c_int;
    fn sqlite3_bind_text(
        stmt: *mut Sqlite3Stmt,
        i: c_int,
        s: *const c_char,
        n: c_int,
        d: isize,
    ) -> c_int;
    fn sqlite3_bind_blob(
        stmt: *mut Sqlite3Stmt,
        i: c_int,
        s: *const c_void,
        n: c_int,
        d: isize,
    ) -> c_int;
    fn sqlite3_changes(db: *mut Sqlite3) -> c_int;
    fn sqlite3_libversion() -> *const c_char;
}

const SQLITE_OK: c_int = 0;
const SQLITE_ROW: c_int = 100;
const SQLITE_DONE: c_int = 101;
const SQLITE_TRANSIENT: isize = -1;
const OPEN_READWRITE: c_int = 0x2;
const OPEN_CREATE: c_int = 0x4;
const OPEN_MEMORY: c_int = 0x80;
const OPEN_NOMUTEX: c_int = 0x8000;

#[derive(Clone, Debug)]
pub enum SqlVal {
    Null,
    Int(i64),
    Real(f64),
    Text(Vec<u8>),
    Blob(Vec<u8>),
}

impl PartialEq for SqlVal {
    fn eq(&self, o: &Self) -> bool {
        match (self, o) {
            (SqlVal::Null, SqlVal::Null) => true,
            (SqlVal::Int(a), SqlVal::Int(b)) => a == b,
            (SqlVal::Real(a), SqlVal::Real(b)) => a.to_bits() == b.to_bits() || a == b,
            (SqlVal::Text(a), SqlVal::Text(b)) => a == b,
            (SqlVal::Blob(a), SqlVal::Blob(b)) => a == b,
            _ => false,
        }
    }
}
impl Eq for SqlVal {}

impl SqlVal {
    pub fn text(s: &str) -> SqlVal {
        SqlVal::Text(s.as_bytes().to_vec())
    }
    pub fn show(&self) -> String {
        match self {
            SqlVal::Null => "NULL".into(),
            SqlVal::Int(i) => format!("{i}"),
            SqlVal::Real(r) => format!("{r:?}r"),
            SqlVal::Text(t) => format!("{:?}", String::from_utf8_lossy(t)),
            SqlVal::Blob(b) => format!("x'{}'", b.iter().map(|x| format!("{x:02X}")).collect::<String>()),
        }
    }
    /// total order key for multiset comparison
    pub fn key(&self) -> String {
        match self {
            SqlVal::Null => "0".into(),
            SqlVal::Int(i) => format!("1:{i}"),
            SqlVal::Real(r) => format!("2:{:016x}", r.to_bits()),
            SqlVal::Text(t) => format!("3:{}", t.iter().map(|x| format!("{x:02x}")).collect::<String>()),
            SqlVal::Blob(b) => format!("4:{}", b.iter().map(|x| format!("{x:02x}")).collect::<String>()),
        }
    }
}

pub type Row = Vec<SqlVal>;

pub fn show_rows(rows: &[Row]) -> String {
    let mut s = String::new();
    for (i, r) in rows.iter().enumerate() {
        if i > 0 {
            s.push_str(" | ");
        }
        if i >= 12 {
            s.push_str(&format!("… ({} rows)", rows.len()));
            break;
        }
        s.push_str(&r.iter().map(|v| v.show()).collect::<Vec<_>>().join(","));
    }
    s
}

pub fn sort_rows(rows: &mut [Row]) {
    rows.sort_by_key(|r| r.iter().map(|v| v.key()).collect::<Vec<_>>().join("|"));
}

pub struct Db {
    db: *mut Sqlite3,
    /// virtual-machine step accounting of the statement being run (see `STEP_BUDGET_CALLBACKS`)
    steps: Box<std::cell::Cell<u64>>,
}

/// The engine's progress handler is called every `STEP_GRAIN` virtual-machine operations; a statement that
/// needs more than `STEP_BUDGET_CALLBACKS` calls (20 million operations — the fixtures hold a few dozen rows,
/// ordinary statements need a few thousand) is interrupted and fails with "interrupted". This bounds
/// non-terminating statements (a recursive CTE that lost its stop condition) in logical steps, not wall time.
const STEP_GRAIN: c_int = 10_000;
const STEP_BUDGET_CALLBACKS: u64 = 2_000;

unsafe extern "C" fn progress_cb(arg: *mut c_void) -> c_int {
    let cell = &*(arg as *const std::cell::Cell<u64>);
    let n = cell.get() + 1;
    cell.set(n);
    (n > STEP_BUDGET_CALLBACKS) as c_int
}

#[derive(Debug, Clone, PartialEq, Eq)]
pub struct SqlErr {
    pub code: i32,
    pub msg: String,
    /// true when the error came from prepare (syntax / resolution), false when from step (runtime)
    pub at_prepare: bool,
}

pub struct QueryResult {
    pub names: Vec<String>,
    pub rows: Vec<Row>,
    pub changes: i64,
}

pub fn version() -> String {
    unsafe { CStr::from_ptr(sqlite3_libversion()).to_string_lossy().into_owned() }
}

impl Db {
    pub fn memory() -> Db {
        let mut db: *mut Sqlite3 = std::ptr::null_mut();
        let name = CString::new(":memory:").unwrap();
        let rc = unsafe {
            sqlite3_open_v2(
                name.as_ptr(),
                &mut db,
                OPEN_READWRITE | OPEN_CREATE | OPEN_MEMORY | OPEN_NOMUTEX,
                std::ptr::null(),
            )
        };
        assert_eq!(rc, SQLITE_OK, "sqlite3_open_v2 failed");
        let steps = Box::new(std::cell::Cell::new(0u64));
        unsafe { sqlite3_progress_handler(db, STEP_GRAIN, Some(progress_cb), &*steps as *const std::cell::Cell<u64> as *mut c_void) };
        Db { db, steps }
    }

    /// True when the last statement was cut off by the step budget.
    pub fn step_budget_exceeded(&self) -> bool {
        self.steps.get() > STEP_BUDGET_CALLBACKS
    }

    fn err(&self, code: c_int, at_prepare: bool) -> SqlErr {
        let msg = unsafe { CStr::from_ptr(sqlite3_errmsg(self.db)).to_string_lossy().into_owned() };
        SqlErr {
            code: code as i32,
            msg,
            at_prepare,
        }
    }

    /// Prepare one statement. Trailing text other than whitespace / `;` is an error
    /// ("statement continued": this is how an injection shows up).
    fn prepare(&self, sql: &str) -> Result<*mut Sqlite3Stmt, SqlErr> {
        if sql.as_bytes().contains(&0) {
            return Err(SqlErr {
                code: -1,
                msg: "NUL in SQL text".into(),
                at_prepare: true,
            });
        }
        let c = CString::new(sql).unwrap();
        let mut stmt: *mut Sqlite3Stmt = std::ptr::null_mut();
        let mut tail: *const c_char = std::ptr::null();
        let rc = unsafe { sqlite3_prepare_v2(self.db, c.as_ptr(), -1, &mut stmt, &mut tail) };
        if rc != SQLITE_OK {
            return Err(self.err(rc, true));
        }
        if stmt.is_null() {
            return Err(SqlErr {
                code: -2,
                msg: "empty statement".into(),
                at_prepare: true,
            });
        }
        let rest = unsafe { CStr::from_ptr(tail).to_bytes() };
        if rest.iter().any(|b| !matches!(b, b' ' | b'\t' | b'\n' | b'\r' | b';')) {
            unsafe { sqlite3_finalize(stmt) };
            return Err(SqlErr {
                code: -3,
                msg: format!("trailing text after statement: {:?}", String::from_utf8_lossy(rest)),
                at_prepare: true,
            });
        }
        Ok(stmt)
    }

    pub fn param_count(&self, sql: &str) -> Result<usize, SqlErr> {
        let stmt = self.prepare(sql)?;
        let n = unsafe { sqlite3_bind_parameter_count(stmt) } as usize;
        unsafe { sqlite3_finalize(stmt) };
        Ok(n)
    }

    pub fn query(&self, sql: &str, binds: &[SqlVal]) -> Result<QueryResult, SqlErr> {
        self.steps.set(0);
        let stmt = self.prepare(sql)?;
        let want = unsafe { sqlite3_bind_parameter_count(stmt) } as usize;
        if want != binds.len() {
            unsafe { sqlite3_finalize(stmt) };
            return Err(SqlErr {
                code: -4,
                msg: format!("statement has {want} parameters, {} values supplied", binds.len()),
                at_prepare: true,
            });
        }
        for (i, b) in binds.iter().enumerate() {
            let idx = (i + 1) as c_int;
            let rc = unsafe {
                match b {
                    SqlVal::Null => sqlite3_bind_null(stmt, idx),
                    SqlVal::Int(v) => sqlite3_bind_int64(stmt, idx, *v),
                    SqlVal::Real(v) => sqlite3_bind_double(stmt, idx, *v),
                    SqlVal::Text(t) => sqlite3_bind_text(
                        stmt,
                        idx,
                        t.as_ptr() as *const c_char,
                        t.len() as c_int,
                        SQLITE_TRANSIENT,
                    ),
                    SqlVal::Blob(t) => {
                        if t.is_empty() {
                            // zero-length blob, not NULL
                            sqlite3_bind_blob(stmt, idx, b"".as_ptr() as *const c_void, 0, SQLITE_TRANSIENT)
                        } else {
                            sqlite3_bind_blob(
                                stmt,
                                idx,
                                t.as_ptr() as *const c_void,
                                t.len() as c_int,
                                SQLITE_TRANSIENT,
                            )
                        }
                    }
                }
            };
            if rc != SQLITE_OK {
                let e = self.err(rc, true);
                unsafe { sqlite3_finalize(stmt) };
                return Err(e);
            }
        }
        let ncol = unsafe { sqlite3_column_count(stmt) };
        let mut names = vec![];
        for i in 0..ncol {
            let p = unsafe { sqlite3_column_name(stmt, i) };
            names.push(if p.is_null() {
                String::new()
            } else {
                unsafe { String::from_utf8_lossy(CStr::from_ptr(p).to_bytes()).into_owned() }
            });
        }
        let mut rows = vec![];
        loop {
            let rc = unsafe { sqlite3_step(stmt) };
            if rc == SQLITE_ROW {
                let mut row = Vec::with_capacity(ncol as usize);
                for i in 0..ncol {
                    let t = unsafe { sqlite3_column_type(stmt, i) };
                    row.push(match t {
                        1 => SqlVal::Int(unsafe { sqlite3_column_int64(stmt, i) }),
                        2 => SqlVal::Real(unsafe { sqlite3_column_double(stmt, i) }),
                        3 | 4 => {
                            let p = unsafe { sqlite3_column_blob(stmt, i) } as *const u8;
                            let n = unsafe { sqlite3_column_bytes(stmt, i) } as usize;
                            let v = if p.is_null() || n == 0 {
                                vec![]
                            } else {
                                unsafe { std::slice::from_raw_parts(p, n).to_vec() }
                            };
                            if t == 3 {
                                SqlVal::Text(v)
                            } else {
                                SqlVal::Blob(v)
                            }
                        }
                        _ => SqlVal::Null,
                    });
                }
                rows.push(row);
                if rows.len() > 200_000 {
                    unsafe { sqlite3_finalize(stmt) };
                    return Err(SqlErr {
                        code: -5,
                        msg: "row limit exceeded".into(),
                        at_prepare: false,
                    });
                }
            } else if rc == SQLITE_DONE {
                break;
            } else {
                let e = self.err(rc, false);
                unsafe { sqlite3_finalize(stmt) };
                return Err(e);
            }
        }
        unsafe { sqlite3_finalize(stmt) };
        let changes = unsafe { sqlite3_changes(self.db) } as i64;
        Ok(QueryResult { names, rows, changes })
    }

    pub fn exec(&self, sql: &str) -> Result<(), SqlErr> {
        self.query(sql, &[]).map(|_| ())
    }

    /// Execute several `;`-separated statements that are known not to contain `;` inside literals.
    pub fn exec_script(&self, script: &str) -> Result<(), SqlErr> {
        for s in script.split(';') {
            if s.trim().is_empty() {
                continue;
            }
            self.exec(s)?;
        }
        Ok(())
    }

    pub fn rows(&self, sql: &str) -> Result<Vec<Row>, SqlErr> {
        self.query(sql, &[]).map(|r| r.rows)
    }
}

impl Drop for Db {
    fn drop(&mut self) {
        unsafe { sqlite3_close(self.db) };
    }
}

#[cfg(test)]
mod step_budget_tests {
    use super::*;

    #[test]
    fn runaway_recursion_is_interrupted_and_the_connection_stays_usable() {
        let db = Db::memory();
        let t0 = std::time::Instant::now();
        let r = db.rows("WITH RECURSIVE c(n) AS (SELECT 1 UNION ALL SELECT n + 1 FROM c) SELECT count(*) FROM c");
        assert!(r.is_err(), "unbounded recursion must be interrupted");
        assert!(db.step_budget_exceeded());
        assert!(t0.elapsed().as_secs() < 30);
        let r = db.rows("SELECT 41 + 1").unwrap();
        assert_eq!(r[0][0], SqlVal::Int(42));
        assert!(!db.step_budget_exceeded());
    }
}
