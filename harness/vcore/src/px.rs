//! Expression parsers ("G" oracle, expression part): one precedence model per
//! dialect (DESIGN.md Appendix B). Strict: anything not derivable is an error.
//! Parentheses never appear in the tree (they only steer parsing).

use crate::lex::{Dialect, Tok, Token};
use crate::stmt::Tree;

#[derive(Clone, Debug, PartialEq)]
pub enum PX {
    /// (qualified) column / bare word path, `*` as last part allowed
    Col(Vec<String>),
    Str(String),
    Bytes(Vec<u8>),
    Num(String),
    Param(Option<u32>),
    /// NULL TRUE FALSE CURRENT_DATE CURRENT_TIME CURRENT_TIMESTAMP DEFAULT and other bare keywords
    Kw(String),
    Unary(String, Box<PX>),
    Bin(Box<PX>, String, Box<PX>),
    Between { not: bool, e: Box<PX>, lo: Box<PX>, hi: Box<PX> },
    Like { op: String, e: Box<PX>, pat: Box<PX>, esc: Option<Box<PX>> },
    In { not: bool, e: Box<PX>, list: Vec<PX> },
    InSub { not: bool, e: Box<PX>, sub: Box<PX> },
    IsNull { not: bool, e: Box<PX> },
    Func { name: String, args: Vec<(bool, PX)>, star: bool },
    Cast(Box<PX>, String),
    Case { whens: Vec<(PX, PX)>, els: Option<Box<PX>> },
    Tuple(Vec<PX>),
    /// subquery: optional operator (EXISTS ANY SOME ALL) and the token text of the statement
    Sub(Option<String>, String),
    /// ARRAY [..]
    Array(Vec<PX>),
    /// expr OVER (...) / OVER name — window text kept as token text
    Over(Box<PX>, String),
    /// parsed subquery (statement-level parsing)
    SubT(Option<String>, Box<Tree>),
    /// expr OVER ( parsed window specification )
    OverT(Box<PX>, Box<Tree>),
}

#[derive(Clone, Debug, PartialEq)]
pub struct ParseErr {
    pub at: usize,
    pub msg: String,
}

pub struct P<'a> {
    pub d: Dialect,
    pub t: &'a [Token],
    pub i: usize,
    /// words that end an expression in the enclosing clause grammar (upper case)
    pub stop: Vec<&'static str>,
    /// parse subqueries and window specifications instead of keeping their token text
    pub parse_subqueries: bool,
}

pub type R<T> = Result<T, ParseErr>;

// binding levels (higher binds tighter); 100 = primary
#[derive(Clone, Copy, Debug, PartialEq)]
enum Assoc {
    Left,
    Non,
}

struct OpInfo {
    level: u8,
    assoc: Assoc,
    /// minimum level required of the left operand (MySQL predicate ops need a bit_expr)
    left_min: u8,
    /// level at which the right operand is parsed
    right_min: u8,
}

impl<'a> P<'a> {
    pub fn new(d: Dialect, t: &'a [Token]) -> Self {
        P { d, t, i: 0, stop: vec![], parse_subqueries: false }
    }
    pub fn peek(&self) -> Option<&'a Tok> {
        self.t.get(self.i).map(|t| &t.tok)
    }
    pub fn peek_n(&self, n: usize) -> Option<&'a Tok> {
        self.t.get(self.i + n).map(|t| &t.tok)
    }
    pub fn eof(&self) -> bool {
        self.i >= self.t.len()
    }
    pub fn err<T>(&self, msg: impl Into<String>) -> R<T> {
        Err(ParseErr { at: self.i, msg: msg.into() })
    }
    pub fn is_word(&self, w: &str) -> bool {
        matches!(self.peek(), Some(t) if t.is_word(w))
    }
    pub fn is_word_n(&self, n: usize, w: &str) -> bool {
        matches!(self.peek_n(n), Some(t) if t.is_word(w))
    }
    pub fn eat_word(&mut self, w: &str) -> bool {
        if self.is_word(w) {
            self.i += 1;
            true
        } else {
            false
        }
    }
    pub fn expect_word(&mut self, w: &str) -> R<()> {
        if self.eat_word(w) {
            Ok(())
        } else {
            self.err(format!("expected {w}, found {}", self.here()))
        }
    }
    pub fn eat(&mut self, t: &Tok) -> bool {
        if self.peek() == Some(t) {
            self.i += 1;
            true
        } else {
            false
        }
    }
    pub fn expect(&mut self, t: &Tok) -> R<()> {
        if self.eat(t) {
            Ok(())
        } else {
            self.err(format!("expected {}, found {}", t.short(), self.here()))
        }
    }
    pub fn here(&self) -> String {
        self.peek().map(|t| t.short()).unwrap_or_else(|| "<end>".into())
    }
    pub fn text(&self, from: usize, to: usize) -> String {
        self.t[from..to].iter().map(|t| t.tok.short()).collect::<Vec<_>>().join(" ")
    }

    /// Skip a balanced parenthesised group starting at `(`; returns token text inside.
    pub fn skip_parens(&mut self) -> R<String> {
        self.expect(&Tok::LParen)?;
        let start = self.i;
        let mut depth = 1;
        while let Some(t) = self.peek() {
            match t {
                Tok::LParen => depth += 1,
                Tok::RParen => {
                    depth -= 1;
                    if depth == 0 {
                        let s = self.text(start, self.i);
                        self.i += 1;
                        return Ok(s);
                    }
                }
                _ => {}
            }
            self.i += 1;
        }
        self.err("unbalanced parentheses")
    }

    /// `( statement )` as a subquery node
    fn subquery(&mut self, op: Option<String>) -> R<PX> {
        if self.parse_subqueries {
            self.expect(&Tok::LParen)?;
            let saved = std::mem::take(&mut self.stop);
            let t = self.select_stmt();
            self.stop = saved;
            let t = t?;
            self.expect(&Tok::RParen)?;
            Ok(PX::SubT(op, Box::new(t)))
        } else {
            let s = self.skip_parens()?;
            Ok(PX::Sub(op, s))
        }
    }

    fn starts_subquery(&self) -> bool {
        self.peek() == Some(&Tok::LParen)
            && (self.is_word_n(1, "SELECT") || self.is_word_n(1, "WITH") || self.is_word_n(1, "VALUES"))
    }

    // ---- operator tables ---------------------------------------------------

    /// Binary operator starting at the current token: (normalised name, tokens consumed, info)
    fn binop(&self) -> Option<(String, usize, OpInfo)> {
        let d = self.d;
        let t = self.peek()?;
        let w = |n: usize, s: &str| self.is_word_n(n, s);
        let lv = |level: u8, assoc: Assoc| OpInfo { level, assoc, left_min: 0, right_min: level + 1 };
        match d {
            Dialect::Sqlite => {
                // levels: OR0 AND1 NOT2 EQ3 CMP4 ESC5 BIT6 ADD7 MUL8 CONCAT9
                if let Tok::Op(o) = t {
                    let l = match o.as_str() {
                        "||" | "->" | "->>" => 9,
                        "*" | "/" | "%" => 8,
                        "+" | "-" => 7,
                        "&" | "|" | "<<" | ">>" => 6,
                        "<" | ">" | "<=" | ">=" => 4,
                        "=" | "==" | "<>" | "!=" => 3,
                        _ => return None,
                    };
                    return Some((o.clone(), 1, lv(l, Assoc::Left)));
                }
                if w(0, "OR") {
                    return Some(("OR".into(), 1, lv(0, Assoc::Left)));
                }
                if w(0, "AND") {
                    return Some(("AND".into(), 1, lv(1, Assoc::Left)));
                }
                if w(0, "IS") {
                    if w(1, "NOT") {
                        if w(2, "DISTINCT") && w(3, "FROM") {
                            return Some(("IS NOT DISTINCT FROM".into(), 4, lv(3, Assoc::Left)));
                        }
                        return Some(("IS NOT".into(), 2, lv(3, Assoc::Left)));
                    }
                    if w(1, "DISTINCT") && w(2, "FROM") {
                        return Some(("IS DISTINCT FROM".into(), 3, lv(3, Assoc::Left)));
                    }
                    return Some(("IS".into(), 1, lv(3, Assoc::Left)));
                }
                for k in ["LIKE", "GLOB", "MATCH", "REGEXP", "IN", "BETWEEN"] {
                    if w(0, k) {
                        return Some((k.into(), 1, lv(3, Assoc::Left)));
                    }
                    if w(0, "NOT") && w(1, k) {
                        return Some((format!("NOT {k}"), 2, lv(3, Assoc::Left)));
                    }
                }
                None
            }
            Dialect::Mysql => {
                // OR0 XOR1 AND2 NOT3 CMP5 PRED6 |7 &8 SHIFT9 ADD10 MUL11 ^12
                if let Tok::Op(o) = t {
                    let l = match o.as_str() {
                        "^" => 12,
                        "*" | "/" | "%" => 11,
                        "+" | "-" => 10,
                        "<<" | ">>" => 9,
                        "&" => 8,
                        "|" => 7,
                        "=" | "<=>" | ">=" | ">" | "<=" | "<" | "<>" | "!=" => {
                            // bool_pri comp_op predicate
                            return Some((o.clone(), 1, OpInfo { level: 5, assoc: Assoc::Left, left_min: 0, right_min: 6 }));
                        }
                        "||" => 0,
                        "&&" => 2,
                        "->" | "->>" => 13,
                        _ => return None,
                    };
                    return Some((o.clone(), 1, lv(l, Assoc::Left)));
                }
                if w(0, "OR") {
                    return Some(("OR".into(), 1, lv(0, Assoc::Left)));
                }
                if w(0, "XOR") {
                    return Some(("XOR".into(), 1, lv(1, Assoc::Left)));
                }
                if w(0, "AND") {
                    return Some(("AND".into(), 1, lv(2, Assoc::Left)));
                }
                if w(0, "DIV") || w(0, "MOD") {
                    return Some((t.short(), 1, lv(11, Assoc::Left)));
                }
                if w(0, "IS") {
                    let n = if w(1, "NOT") { ("IS NOT", 2) } else { ("IS", 1) };
                    return Some((n.0.into(), n.1, OpInfo { level: 5, assoc: Assoc::Left, left_min: 0, right_min: 100 }));
                }
                for k in ["LIKE", "REGEXP", "RLIKE", "IN", "BETWEEN"] {
                    let info = || OpInfo { level: 6, assoc: Assoc::Non, left_min: 7, right_min: 7 };
                    if w(0, k) {
                        return Some((k.into(), 1, info()));
                    }
                    if w(0, "NOT") && w(1, k) {
                        return Some((format!("NOT {k}"), 2, info()));
                    }
                }
                None
            }
            Dialect::Postgres => {
                // OR0 AND1 NOT2 IS3 CMP4 PRED5 OTHER6 ADD7 MUL8 ^9
                if let Tok::Op(o) = t {
                    let l = match o.as_str() {
                        "^" => 9,
                        "*" | "/" | "%" => 8,
                        "+" | "-" => 7,
                        "<" | ">" | "=" | "<=" | ">=" | "<>" | "!=" => {
                            return Some((o.clone(), 1, lv(4, Assoc::Non)));
                        }
                        "::" => return None,
                        _ => 6,
                    };
                    return Some((o.clone(), 1, lv(l, Assoc::Left)));
                }
                if w(0, "OR") {
                    return Some(("OR".into(), 1, lv(0, Assoc::Left)));
                }
                if w(0, "AND") {
                    return Some(("AND".into(), 1, lv(1, Assoc::Left)));
                }
                if w(0, "IS") {
                    if w(1, "NOT") {
                        if w(2, "DISTINCT") && w(3, "FROM") {
                            return Some(("IS NOT DISTINCT FROM".into(), 4, lv(3, Assoc::Non)));
                        }
                        return Some(("IS NOT".into(), 2, OpInfo { level: 3, assoc: Assoc::Non, left_min: 0, right_min: 100 }));
                    }
                    if w(1, "DISTINCT") && w(2, "FROM") {
                        return Some(("IS DISTINCT FROM".into(), 3, lv(3, Assoc::Non)));
                    }
                    return Some(("IS".into(), 1, OpInfo { level: 3, assoc: Assoc::Non, left_min: 0, right_min: 100 }));
                }
                for k in ["LIKE", "ILIKE", "IN", "BETWEEN"] {
                    if w(0, k) {
                        return Some((k.into(), 1, lv(5, Assoc::Non)));
                    }
                    if w(0, "NOT") && w(1, k) {
                        return Some((format!("NOT {k}"), 2, lv(5, Assoc::Non)));
                    }
                }
                if w(0, "SIMILAR") && w(1, "TO") {
                    return Some(("SIMILAR TO".into(), 2, lv(5, Assoc::Non)));
                }
                None
            }
        }
    }

    fn not_level(&self) -> u8 {
        match self.d {
            Dialect::Sqlite => 2,
            Dialect::Mysql => 3,
            Dialect::Postgres => 2,
        }
    }
    fn and_level(&self) -> u8 {
        match self.d {
            Dialect::Sqlite => 1,
            Dialect::Mysql => 2,
            Dialect::Postgres => 1,
        }
    }

    pub fn expr(&mut self) -> R<PX> {
        self.expr_bp(0).map(|x| x.0)
    }

    /// returns (tree, level of the top operator; 100 for primaries / parenthesised)
    pub fn expr_bp(&mut self, min: u8) -> R<(PX, u8)> {
        let (mut lhs, mut lhs_level) = self.prefix(min)?;
        loop {
            if let Some(Tok::Word(w)) = self.peek() {
                let up = w.to_ascii_uppercase();
                if self.stop.iter().any(|s| *s == up) {
                    break;
                }
            }
            // postfix ISNULL / NOTNULL (SQLite, Postgres)
            if self.d != Dialect::Mysql && (self.is_word("ISNULL") || self.is_word("NOTNULL")) {
                let lvl = 3;
                if lvl < min {
                    break;
                }
                let not = self.is_word("NOTNULL");
                self.i += 1;
                lhs = PX::IsNull { not, e: Box::new(lhs) };
                lhs_level = lvl;
                continue;
            }
            let (name, ntok, info) = match self.binop() {
                Some(x) => x,
                None => break,
            };
            if info.level < min {
                break;
            }
            if info.assoc == Assoc::Non && lhs_level == info.level {
                return self.err(format!("operator {name} is non-associative here"));
            }
            if lhs_level < info.left_min {
                return self.err(format!("left operand of {name} must be parenthesised in this dialect"));
            }
            self.i += ntok;
            let base = name.strip_prefix("NOT ").unwrap_or(&name).to_string();
            let not = name.starts_with("NOT ");
            match base.as_str() {
                "BETWEEN" => {
                    let (lo_min, hi_min) = match self.d {
                        // lo: anything up to the AND that belongs to BETWEEN; hi: strictly tighter than BETWEEN
                        Dialect::Sqlite => (self.and_level() + 1, info.level + 1),
                        // bit_expr AND predicate
                        Dialect::Mysql => (7, 6),
                        // b_expr AND a_expr %prec BETWEEN
                        Dialect::Postgres => (4, info.level + 1),
                    };
                    let lo = self.expr_bp(lo_min)?.0;
                    self.expect_word("AND")?;
                    let hi = self.expr_bp(hi_min)?.0;
                    lhs = PX::Between { not, e: Box::new(lhs), lo: Box::new(lo), hi: Box::new(hi) };
                }
                "IN" => {
                    if self.starts_subquery() {
                        let sub = self.subquery(None)?;
                        lhs = PX::InSub { not, e: Box::new(lhs), sub: Box::new(sub) };
                    } else {
                        self.expect(&Tok::LParen)?;
                        let mut list = vec![];
                        if !self.eat(&Tok::RParen) {
                            loop {
                                list.push(self.expr()?);
                                if self.eat(&Tok::Comma) {
                                    continue;
                                }
                                self.expect(&Tok::RParen)?;
                                break;
                            }
                        } else if self.d != Dialect::Sqlite {
                            return self.err("empty IN list");
                        }
                        lhs = PX::In { not, e: Box::new(lhs), list };
                    }
                }
                "LIKE" | "ILIKE" | "GLOB" | "MATCH" | "REGEXP" | "RLIKE" | "SIMILAR TO" => {
                    let pat = self.expr_bp(info.right_min)?.0;
                    let mut esc = None;
                    if self.is_word("ESCAPE") && (base == "LIKE" || base == "ILIKE" || base == "SIMILAR TO" || base == "GLOB") {
                        self.i += 1;
                        let emin = match self.d {
                            Dialect::Sqlite => 6,
                            Dialect::Mysql => 100,
                            Dialect::Postgres => info.level + 1,
                        };
                        esc = Some(Box::new(self.expr_bp(emin)?.0));
                    }
                    lhs = PX::Like { op: name.clone(), e: Box::new(lhs), pat: Box::new(pat), esc };
                }
                "IS" | "IS NOT" if info.right_min == 100 => {
                    // MySQL / Postgres: IS [NOT] NULL | TRUE | FALSE | UNKNOWN
                    let k = match self.peek() {
                        Some(Tok::Word(w)) if ["NULL", "TRUE", "FALSE", "UNKNOWN"].contains(&w.to_ascii_uppercase().as_str()) => {
                            w.to_ascii_uppercase()
                        }
                        _ => return self.err(format!("IS must be followed by NULL/TRUE/FALSE/UNKNOWN, found {}", self.here())),
                    };
                    self.i += 1;
                    lhs = PX::Bin(Box::new(lhs), name.clone(), Box::new(PX::Kw(k)));
                }
                _ => {
                    // ANY / SOME / ALL (subquery) on the right of a comparison
                    let rhs = self.expr_bp(info.right_min)?.0;
                    lhs = PX::Bin(Box::new(lhs), name.clone(), Box::new(rhs));
                }
            }
            lhs_level = info.level;
        }
        Ok((lhs, lhs_level))
    }

    fn prefix(&mut self, min: u8) -> R<(PX, u8)> {
        // unary NOT
        if self.is_word("NOT") {
            let nl = self.not_level();
            if nl < min && self.d == Dialect::Mysql {
                // MySQL: NOT expr is not a predicate / bit_expr operand
                return self.err("NOT needs parentheses here");
            }
            self.i += 1;
            let (e, _) = self.expr_bp(nl)?;
            return Ok((PX::Unary("NOT".into(), Box::new(e)), nl));
        }
        if let Some(Tok::Op(o)) = self.peek() {
            if o == "-" || o == "+" || o == "~" || (o == "!" && self.d == Dialect::Mysql) {
                let o = o.clone();
                self.i += 1;
                let ul = match self.d {
                    Dialect::Sqlite => 11,
                    Dialect::Mysql => 13,
                    Dialect::Postgres => 12,
                };
                // -<number> is a literal
                if let (true, Some(Tok::Num(n))) = (o == "-", self.peek()) {
                    let n = n.clone();
                    self.i += 1;
                    return self.postfix(PX::Num(format!("-{n}")));
                }
                let (e, _) = self.expr_bp(ul)?;
                return Ok((PX::Unary(o, Box::new(e)), ul));
            }
        }
        let p = self.primary()?;
        self.postfix(p)
    }

    fn postfix(&mut self, mut p: PX) -> R<(PX, u8)> {
        // Postgres cast `::type`, subscripts
        loop {
            if self.d == Dialect::Postgres && matches!(self.peek(), Some(Tok::Op(o)) if o == "::") {
                self.i += 1;
                let ty = self.type_name()?;
                p = PX::Cast(Box::new(p), ty);
                continue;
            }
            if self.is_word("OVER") {
                self.i += 1;
                if self.parse_subqueries && self.peek() == Some(&Tok::LParen) {
                    self.i += 1;
                    let w = self.window_spec_pub()?;
                    self.expect(&Tok::RParen)?;
                    p = PX::OverT(Box::new(p), Box::new(w));
                    continue;
                }
                let w = if self.peek() == Some(&Tok::LParen) {
                    format!("( {} )", self.skip_parens()?)
                } else {
                    match self.peek() {
                        Some(Tok::Ident(n)) => {
                            let s = format!("ID<{n}>");
                            self.i += 1;
                            s
                        }
                        _ => return self.err("expected window name or ( after OVER"),
                    }
                };
                p = PX::Over(Box::new(p), w);
                continue;
            }
            break;
        }
        Ok((p, 100))
    }

    pub fn type_name(&mut self) -> R<String> {
        let start = self.i;
        match self.peek() {
            Some(Tok::Word(_)) | Some(Tok::Ident(_)) => self.i += 1,
            _ => return self.err(format!("expected type name, found {}", self.here())),
        }
        // schema-qualified or multi-word type names, parameters, []
        loop {
            match self.peek() {
                Some(Tok::Dot) => {
                    self.i += 1;
                    match self.peek() {
                        Some(Tok::Word(_)) | Some(Tok::Ident(_)) => self.i += 1,
                        _ => return self.err("expected name after ."),
                    }
                }
                Some(Tok::Word(w))
                    if ["PRECISION", "VARYING", "WITH", "WITHOUT", "TIME", "ZONE", "UNSIGNED", "SIGNED", "INTEGER"]
                        .contains(&w.to_ascii_uppercase().as_str()) =>
                {
                    self.i += 1
                }
                Some(Tok::LParen) => {
                    self.skip_parens()?;
                }
                Some(Tok::LBracket) => {
                    self.i += 1;
                    self.expect(&Tok::RBracket)?;
                }
                _ => break,
            }
        }
        Ok(self.text(start, self.i))
    }

    fn primary(&mut self) -> R<PX> {
        let t = match self.peek() {
            Some(t) => t,
            None => return self.err("unexpected end of expression"),
        };
        match t {
            Tok::Str(s) => {
                self.i += 1;
                Ok(PX::Str(s.clone()))
            }
            Tok::Bytes(b) => {
                self.i += 1;
                Ok(PX::Bytes(b.clone()))
            }
            Tok::Num(n) => {
                self.i += 1;
                Ok(PX::Num(n.clone()))
            }
            Tok::Param(n) => {
                self.i += 1;
                Ok(PX::Param(*n))
            }
            Tok::Op(o) if o == "*" => {
                self.i += 1;
                Ok(PX::Col(vec!["*".into()]))
            }
            Tok::LParen => {
                if self.starts_subquery() {
                    return self.subquery(None);
                }
                self.i += 1;
                let saved = std::mem::take(&mut self.stop);
                let first = self.expr();
                self.stop = saved;
                let first = first?;
                if self.eat(&Tok::RParen) {
                    return Ok(first);
                }
                let mut items = vec![first];
                while self.eat(&Tok::Comma) {
                    let saved = std::mem::take(&mut self.stop);
                    let e = self.expr();
                    self.stop = saved;
                    items.push(e?);
                }
                self.expect(&Tok::RParen)?;
                Ok(PX::Tuple(items))
            }
            Tok::Ident(_) => self.column_or_call(),
            Tok::Word(w) => {
                let up = w.to_ascii_uppercase();
                match up.as_str() {
                    "NULL" | "TRUE" | "FALSE" | "CURRENT_DATE" | "CURRENT_TIME" | "CURRENT_TIMESTAMP" | "DEFAULT" => {
                        self.i += 1;
                        Ok(PX::Kw(up))
                    }
                    "EXISTS" | "ANY" | "SOME" | "ALL" if self.peek_n(1) == Some(&Tok::LParen) => {
                        self.i += 1;
                        if self.starts_subquery() {
                            self.subquery(Some(up))
                        } else if up != "EXISTS" && self.d == Dialect::Postgres {
                            // ANY(array expr)
                            self.i -= 1;
                            self.column_or_call()
                        } else {
                            self.err(format!("{up} must be followed by a subquery"))
                        }
                    }
                    "NOT" => self.err("unexpected NOT"),
                    "CASE" => self.case(),
                    "CAST" if self.peek_n(1) == Some(&Tok::LParen) => {
                        self.i += 2;
                        let saved = std::mem::replace(&mut self.stop, vec!["AS"]);
                        let e = self.expr();
                        self.stop = saved;
                        let e = e?;
                        self.expect_word("AS")?;
                        let ty = self.type_name()?;
                        self.expect(&Tok::RParen)?;
                        Ok(PX::Cast(Box::new(e), ty))
                    }
                    "ARRAY" if self.d == Dialect::Postgres && self.peek_n(1) == Some(&Tok::LBracket) => {
                        self.i += 2;
                        let mut items = vec![];
                        if !self.eat(&Tok::RBracket) {
                            loop {
                                items.push(self.expr()?);
                                if self.eat(&Tok::Comma) {
                                    continue;
                                }
                                self.expect(&Tok::RBracket)?;
                                break;
                            }
                        }
                        Ok(PX::Array(items))
                    }
                    "VALUES" if self.d == Dialect::Mysql && self.peek_n(1) == Some(&Tok::LParen) => self.column_or_call(),
                    "SELECT" | "FROM" | "WHERE" | "GROUP" | "HAVING" | "ORDER" | "LIMIT" | "OFFSET" | "UNION" | "AND" | "OR"
                    | "THEN" | "ELSE" | "END" | "WHEN" | "AS" | "ON" | "JOIN" | "SET" | "VALUES" | "INTO" | "BETWEEN"
                    | "IN" | "LIKE" | "IS" | "ESCAPE" => self.err(format!("unexpected keyword {up}")),
                    _ => self.column_or_call(),
                }
            }
            other => self.err(format!("unexpected token {}", other.short())),
        }
    }

    fn case(&mut self) -> R<PX> {
        self.expect_word("CASE")?;
        let mut whens = vec![];
        if !self.is_word("WHEN") {
            return self.err("CASE operand form not expected");
        }
        while self.eat_word("WHEN") {
            let saved = std::mem::replace(&mut self.stop, vec!["THEN"]);
            let c = self.expr();
            self.stop = saved;
            let c = c?;
            self.expect_word("THEN")?;
            let saved = std::mem::replace(&mut self.stop, vec!["WHEN", "ELSE", "END"]);
            let r = self.expr();
            self.stop = saved;
            whens.push((c, r?));
        }
        let mut els = None;
        if self.eat_word("ELSE") {
            let saved = std::mem::replace(&mut self.stop, vec!["END"]);
            let e = self.expr();
            self.stop = saved;
            els = Some(Box::new(e?));
        }
        self.expect_word("END")?;
        Ok(PX::Case { whens, els })
    }

    fn column_or_call(&mut self) -> R<PX> {
        let mut parts = vec![];
        let mut last_was_word;
        loop {
            match self.peek() {
                Some(Tok::Ident(n)) => {
                    parts.push(n.clone());
                    last_was_word = false;
                    self.i += 1;
                }
                Some(Tok::Word(w)) => {
                    parts.push(w.clone());
                    last_was_word = true;
                    self.i += 1;
                }
                Some(Tok::Op(o)) if o == "*" && !parts.is_empty() => {
                    parts.push("*".into());
                    self.i += 1;
                    return Ok(PX::Col(parts));
                }
                _ => return self.err(format!("expected name, found {}", self.here())),
            }
            if self.peek() == Some(&Tok::Dot) {
                self.i += 1;
                continue;
            }
            break;
        }
        if self.peek() == Some(&Tok::LParen) && last_was_word && !self.starts_subquery() {
            // function call
            self.i += 1;
            let name = parts.join(".").to_ascii_uppercase();
            let mut args = vec![];
            let mut star = false;
            if !self.eat(&Tok::RParen) {
                loop {
                    if matches!(self.peek(), Some(Tok::Op(o)) if o == "*") && matches!(self.peek_n(1), Some(Tok::RParen) | Some(Tok::Comma)) {
                        self.i += 1;
                        star = true;
                        args.push((false, PX::Col(vec!["*".into()])));
                    } else {
                        let distinct = self.eat_word("DISTINCT");
                        let saved = std::mem::take(&mut self.stop);
                        let e = self.expr();
                        self.stop = saved;
                        args.push((distinct, e?));
                    }
                    if self.eat(&Tok::Comma) {
                        continue;
                    }
                    self.expect(&Tok::RParen)?;
                    break;
                }
            }
            return Ok(PX::Func { name, args, star });
        }
        if last_was_word && parts.len() == 1 {
            // bare word used as an atom (custom keyword / opaque fragment)
            return Ok(PX::Kw(parts.pop().unwrap()));
        }
        Ok(PX::Col(parts))
    }
}

/// Parse a complete expression from tokens; all tokens must be consumed.
pub fn parse_expr(d: Dialect, toks: &[Token]) -> R<PX> {
    let mut p = P::new(d, toks);
    let e = p.expr()?;
    if !p.eof() {
        return p.err(format!("trailing tokens after expression: {}", p.here()));
    }
    Ok(e)
}

impl PX {
    /// compact printable form
    pub fn show(&self) -> String {
        match self {
            PX::Col(p) => p.join("."),
            PX::Str(s) => format!("'{s}'"),
            PX::Bytes(b) => format!("x{}", b.len()),
            PX::Num(n) => n.clone(),
            PX::Param(None) => "?".into(),
            PX::Param(Some(n)) => format!("${n}"),
            PX::Kw(k) => k.clone(),
            PX::Unary(o, e) => format!("({o} {})", e.show()),
            PX::Bin(l, o, r) => format!("({} {o} {})", l.show(), r.show()),
            PX::Between { not, e, lo, hi } => {
                format!("({} {}BETWEEN {} AND {})", e.show(), if *not { "NOT " } else { "" }, lo.show(), hi.show())
            }
            PX::Like { op, e, pat, esc } => format!(
                "({} {op} {}{})",
                e.show(),
                pat.show(),
                esc.as_ref().map(|x| format!(" ESCAPE {}", x.show())).unwrap_or_default()
            ),
            PX::In { not, e, list } => format!(
                "({} {}IN [{}])",
                e.show(),
                if *not { "NOT " } else { "" },
                list.iter().map(|x| x.show()).collect::<Vec<_>>().join(", ")
            ),
            PX::InSub { not, e, sub } => format!("({} {}IN {})", e.show(), if *not { "NOT " } else { "" }, sub.show()),
            PX::IsNull { not, e } => format!("({} {})", e.show(), if *not { "NOTNULL" } else { "ISNULL" }),
            PX::Func { name, args, .. } => format!(
                "{name}({})",
                args.iter()
                    .map(|(d, x)| format!("{}{}", if *d { "DISTINCT " } else { "" }, x.show()))
                    .collect::<Vec<_>>()
                    .join(", ")
            ),
            PX::Cast(e, t) => format!("CAST({} AS {t})", e.show()),
            PX::Case { whens, els } => format!(
                "CASE{}{} END",
                whens.iter().map(|(c, r)| format!(" WHEN {} THEN {}", c.show(), r.show())).collect::<String>(),
                els.as_ref().map(|e| format!(" ELSE {}", e.show())).unwrap_or_default()
            ),
            PX::Tuple(v) => format!("<{}>", v.iter().map(|x| x.show()).collect::<Vec<_>>().join(", ")),
            PX::Sub(o, s) => format!("{}SUB[{s}]", o.clone().map(|x| x + " ").unwrap_or_default()),
            PX::Array(v) => format!("ARRAY[{}]", v.iter().map(|x| x.show()).collect::<Vec<_>>().join(", ")),
            PX::Over(e, w) => format!("{} OVER {w}", e.show()),
            PX::SubT(o, t) => format!("{}SUB[{}]", o.clone().map(|x| x + " ").unwrap_or_default(), t.show()),
            PX::OverT(e, w) => format!("{} OVER {}", e.show(), w.show()),
        }
    }
}
