//! Dialect lexers ("L" oracle). Written from the engines' manuals (see
//! DESIGN.md Appendix A), independently of sea-query's own escape routines.

#[derive(Clone, Copy, PartialEq, Eq, Debug, Hash, PartialOrd, Ord)]
pub enum Dialect {
    Mysql,
    Postgres,
    Sqlite,
}

impl Dialect {
    pub fn name(&self) -> &'static str {
        match self {
            Dialect::Mysql => "mysql",
            Dialect::Postgres => "postgres",
            Dialect::Sqlite => "sqlite",
        }
    }
    pub const ALL: [Dialect; 3] = [Dialect::Mysql, Dialect::Postgres, Dialect::Sqlite];
}

#[derive(Clone, Debug, PartialEq)]
pub enum Tok {
    /// bare word (keyword or unquoted identifier), original spelling
    Word(String),
    /// quoted identifier, decoded
    Ident(String),
    /// string literal, decoded
    Str(String),
    /// hex / binary literal, decoded
    Bytes(Vec<u8>),
    /// numeric literal, original spelling
    Num(String),
    /// `?` (None) or `$n` / `?n` (Some(n))
    Param(Option<u32>),
    Op(String),
    LParen,
    RParen,
    Comma,
    Dot,
    Semi,
    LBracket,
    RBracket,
}

#[derive(Clone, Debug, PartialEq)]
pub struct Token {
    pub tok: Tok,
    pub start: usize,
    pub end: usize,
}

#[derive(Clone, Debug, PartialEq)]
pub struct LexErr {
    pub at: usize,
    pub msg: String,
}

impl Tok {
    pub fn is_word(&self, w: &str) -> bool {
        matches!(self, Tok::Word(x) if x.eq_ignore_ascii_case(w))
    }
    pub fn is_op(&self, o: &str) -> bool {
        matches!(self, Tok::Op(x) if x == o)
    }
    pub fn short(&self) -> String {
        match self {
            Tok::Word(w) => w.to_ascii_uppercase(),
            Tok::Ident(i) => format!("ID<{i}>"),
            Tok::Str(s) => format!("STR<{s}>"),
            Tok::Bytes(b) => format!("HEX<{}>", b.iter().map(|x| format!("{x:02X}")).collect::<String>()),
            Tok::Num(n) => format!("NUM<{n}>"),
            Tok::Param(None) => "?".into(),
            Tok::Param(Some(n)) => format!("${n}"),
            Tok::Op(o) => o.clone(),
            Tok::LParen => "(".into(),
            Tok::RParen => ")".into(),
            Tok::Comma => ",".into(),
            Tok::Dot => ".".into(),
            Tok::Semi => ";".into(),
            Tok::LBracket => "[".into(),
            Tok::RBracket => "]".into(),
        }
    }
}

pub fn shorts(ts: &[Token]) -> String {
    ts.iter().map(|t| t.tok.short()).collect::<Vec<_>>().join(" ")
}

struct Lx<'a> {
    d: Dialect,
    s: &'a str,
    b: &'a [u8],
    i: usize,
}

fn is_word_start(c: char) -> bool {
    c.is_ascii_alphabetic() || c == '_' || (c as u32) >= 0x80
}
fn is_word_char(c: char) -> bool {
    c.is_ascii_alphanumeric() || c == '_' || c == '$' || (c as u32) >= 0x80
}

const PG_OPCHARS: &str = "+-*/<>=~!@#%^&|`?";

impl<'a> Lx<'a> {
    fn peek(&self) -> Option<char> {
        self.s[self.i..].chars().next()
    }
    fn peek_at(&self, off: usize) -> Option<u8> {
        self.b.get(self.i + off).copied()
    }
    fn err<T>(&self, msg: &str) -> Result<T, LexErr> {
        Err(LexErr {
            at: self.i,
            msg: msg.to_string(),
        })
    }

    /// Quoted run delimited by `q`, with doubled `q` as escape; optional backslash escapes.
    /// Returns decoded content; `self.i` is left after the closing quote.
    fn quoted(&mut self, q: char, backslash: Backslash) -> Result<String, LexErr> {
        debug_assert_eq!(self.peek(), Some(q));
        self.i += q.len_utf8();
        let mut out = String::new();
        loop {
            let c = match self.peek() {
                Some(c) => c,
                None => return self.err("unterminated quoted run"),
            };
            self.i += c.len_utf8();
            if c == q {
                if self.peek() == Some(q) {
                    self.i += q.len_utf8();
                    out.push(q);
                    continue;
                }
                return Ok(out);
            }
            if c == '\\' && backslash != Backslash::None {
                let e = match self.peek() {
                    Some(e) => e,
                    None => return self.err("unterminated quoted run (backslash at end)"),
                };
                self.i += e.len_utf8();
                match backslash {
                    Backslash::Mysql => match e {
                        '0' => out.push('\0'),
                        '\'' => out.push('\''),
                        '"' => out.push('"'),
                        'b' => out.push('\x08'),
                        'n' => out.push('\n'),
                        'r' => out.push('\r'),
                        't' => out.push('\t'),
                        'Z' => out.push('\x1a'),
                        '\\' => out.push('\\'),
                        '%' => out.push_str("\\%"),
                        '_' => out.push_str("\\_"),
                        other => out.push(other),
                    },
                    Backslash::PgE => match e {
                        'b' => out.push('\x08'),
                        'f' => out.push('\x0c'),
                        'n' => out.push('\n'),
                        'r' => out.push('\r'),
                        't' => out.push('\t'),
                        '0'..='7' => {
                            let mut v = e.to_digit(8).unwrap();
                            for _ in 0..2 {
                                match self.peek() {
                                    Some(d @ '0'..='7') => {
                                        v = v * 8 + d.to_digit(8).unwrap();
                                        self.i += 1;
                                    }
                                    _ => break,
                                }
                            }
                            match char::from_u32(v & 0xff) {
                                Some('\0') | None => return self.err("invalid byte from octal escape"),
                                Some(ch) if (ch as u32) < 0x80 => out.push(ch),
                                Some(_) => return self.err("non-ASCII byte escape (encoding dependent)"),
                            }
                        }
                        'x' => {
                            let mut v = 0u32;
                            let mut n = 0;
                            while n < 2 {
                                match self.peek() {
                                    Some(d) if d.is_ascii_hexdigit() => {
                                        v = v * 16 + d.to_digit(16).unwrap();
                                        self.i += 1;
                                        n += 1;
                                    }
                                    _ => break,
                                }
                            }
                            if n == 0 {
                                out.push('x');
                            } else {
                                match char::from_u32(v) {
                                    Some('\0') | None => return self.err("invalid byte from hex escape"),
                                    Some(ch) if (ch as u32) < 0x80 => out.push(ch),
                                    Some(_) => return self.err("non-ASCII byte escape (encoding dependent)"),
                                }
                            }
                        }
                        'u' | 'U' => {
                            let want = if e == 'u' { 4 } else { 8 };
                            let mut v = 0u32;
                            for _ in 0..want {
                                match self.peek() {
                                    Some(d) if d.is_ascii_hexdigit() => {
                                        v = v * 16 + d.to_digit(16).unwrap();
                                        self.i += 1;
                                    }
                                    _ => return self.err("invalid Unicode escape"),
                                }
                            }
                            match char::from_u32(v) {
                                Some('\0') | None => return self.err("invalid Unicode escape value"),
                                Some(ch) => out.push(ch),
                            }
                        }
                        other => out.push(other),
                    },
                    Backslash::None => unreachable!(),
                }
                continue;
            }
            out.push(c);
        }
    }

    fn number(&mut self) -> Result<Tok, LexErr> {
        let start = self.i;
        // hex
        if self.peek_at(0) == Some(b'0')
            && matches!(self.peek_at(1), Some(b'x') | Some(b'X'))
            && self.peek_at(2).map(|c| c.is_ascii_hexdigit()).unwrap_or(false)
            && self.d != Dialect::Postgres
        {
            self.i += 2;
            while self.peek_at(0).map(|c| c.is_ascii_hexdigit()).unwrap_or(false) {
                self.i += 1;
            }
        } else {
            while self.peek_at(0).map(|c| c.is_ascii_digit()).unwrap_or(false) {
                self.i += 1;
            }
            if self.peek_at(0) == Some(b'.') {
                self.i += 1;
                while self.peek_at(0).map(|c| c.is_ascii_digit()).unwrap_or(false) {
                    self.i += 1;
                }
            }
            if matches!(self.peek_at(0), Some(b'e') | Some(b'E')) {
                let mut j = 1;
                if matches!(self.peek_at(j), Some(b'+') | Some(b'-')) {
                    j += 1;
                }
                if self.peek_at(j).map(|c| c.is_ascii_digit()).unwrap_or(false) {
                    self.i += j;
                    while self.peek_at(0).map(|c| c.is_ascii_digit()).unwrap_or(false) {
                        self.i += 1;
                    }
                }
            }
        }
        if let Some(c) = self.peek() {
            if is_word_char(c) {
                if self.d == Dialect::Mysql {
                    // MySQL: an identifier may start with a digit
                    while self.peek().map(is_word_char).unwrap_or(false) {
                        self.i += self.peek().unwrap().len_utf8();
                    }
                    return Ok(Tok::Word(self.s[start..self.i].to_string()));
                }
                return self.err("trailing junk after numeric literal");
            }
        }
        Ok(Tok::Num(self.s[start..self.i].to_string()))
    }

    fn hex_body(&mut self) -> Result<Vec<u8>, LexErr> {
        let body = self.quoted('\'', Backslash::None)?;
        if body.len() % 2 != 0 || !body.bytes().all(|c| c.is_ascii_hexdigit()) {
            return self.err("malformed hex literal");
        }
        Ok((0..body.len() / 2)
            .map(|k| u8::from_str_radix(&body[2 * k..2 * k + 2], 16).unwrap())
            .collect())
    }
}

#[derive(Clone, Copy, PartialEq, Eq)]
enum Backslash {
    None,
    Mysql,
    PgE,
}

const FIXED_OPS: [&str; 24] = [
    "<=>", "->>", "<<", ">>", "<=", ">=", "<>", "!=", "==", "||", "&&", "->", ":=", "=", "<", ">", "+", "-", "*",
    "/", "%", "&", "|", "~",
];

pub fn lex(d: Dialect, sql: &str) -> Result<Vec<Token>, LexErr> {
    let mut lx = Lx {
        d,
        s: sql,
        b: sql.as_bytes(),
        i: 0,
    };
    let mut out = vec![];
    while let Some(c) = lx.peek() {
        let start = lx.i;
        // whitespace
        if c == ' ' || c == '\t' || c == '\n' || c == '\r' || c == '\x0c' {
            lx.i += 1;
            continue;
        }
        // comments
        if c == '-' && lx.peek_at(1) == Some(b'-') {
            let is_comment = match d {
                Dialect::Mysql => matches!(lx.peek_at(2), None | Some(b' ') | Some(b'\t') | Some(b'\n') | Some(b'\r')),
                _ => true,
            };
            if is_comment {
                while let Some(ch) = lx.peek() {
                    if ch == '\n' {
                        break;
                    }
                    lx.i += ch.len_utf8();
                }
                continue;
            }
        }
        if c == '#' && d == Dialect::Mysql {
            while let Some(ch) = lx.peek() {
                if ch == '\n' {
                    break;
                }
                lx.i += ch.len_utf8();
            }
            continue;
        }
        if c == '/' && lx.peek_at(1) == Some(b'*') {
            lx.i += 2;
            let mut depth = 1;
            loop {
                match (lx.peek_at(0), lx.peek_at(1)) {
                    (Some(b'*'), Some(b'/')) => {
                        lx.i += 2;
                        depth -= 1;
                        if depth == 0 {
                            break;
                        }
                    }
                    (Some(b'/'), Some(b'*')) if d == Dialect::Postgres => {
                        lx.i += 2;
                        depth += 1;
                    }
                    (Some(_), _) => {
                        lx.i += 1;
                        while !sql.is_char_boundary(lx.i) {
                            lx.i += 1;
                        }
                    }
                    (None, _) => {
                        if d == Dialect::Sqlite {
                            break; // SQLite: unterminated comment runs to end of input
                        }
                        return lx.err("unterminated comment");
                    }
                }
            }
            continue;
        }
        let tok = match c {
            '(' => {
                lx.i += 1;
                Tok::LParen
            }
            ')' => {
                lx.i += 1;
                Tok::RParen
            }
            ',' => {
                lx.i += 1;
                Tok::Comma
            }
            ';' => {
                lx.i += 1;
                Tok::Semi
            }
            '.' if !lx.peek_at(1).map(|c| c.is_ascii_digit()).unwrap_or(false) => {
                lx.i += 1;
                Tok::Dot
            }
            '\'' => {
                let bs = if d == Dialect::Mysql { Backslash::Mysql } else { Backslash::None };
                Tok::Str(lx.quoted('\'', bs)?)
            }
            '"' => match d {
                Dialect::Mysql => Tok::Str(lx.quoted('"', Backslash::Mysql)?),
                _ => {
                    let s = lx.quoted('"', Backslash::None)?;
                    if s.is_empty() && d == Dialect::Postgres {
                        return lx.err("zero-length delimited identifier");
                    }
                    Tok::Ident(s)
                }
            },
            '`' => match d {
                Dialect::Postgres => {
                    // backtick is an operator character in Postgres
                    lx.i += 1;
                    Tok::Op("`".into())
                }
                _ => Tok::Ident(lx.quoted('`', Backslash::None)?),
            },
            '[' => match d {
                Dialect::Sqlite => {
                    lx.i += 1;
                    let st = lx.i;
                    loop {
                        match lx.peek() {
                            Some(']') => break,
                            Some(ch) => lx.i += ch.len_utf8(),
                            None => return lx.err("unterminated [identifier]"),
                        }
                    }
                    let s = sql[st..lx.i].to_string();
                    lx.i += 1;
                    Tok::Ident(s)
                }
                Dialect::Postgres => {
                    lx.i += 1;
                    Tok::LBracket
                }
                Dialect::Mysql => return lx.err("unexpected character ["),
            },
            ']' => match d {
                Dialect::Postgres => {
                    lx.i += 1;
                    Tok::RBracket
                }
                _ => return lx.err("unexpected character ]"),
            },
            '?' => match d {
                Dialect::Mysql => {
                    lx.i += 1;
                    Tok::Param(None)
                }
                Dialect::Sqlite => {
                    lx.i += 1;
                    let st = lx.i;
                    while lx.peek_at(0).map(|c| c.is_ascii_digit()).unwrap_or(false) {
                        lx.i += 1;
                    }
                    if lx.i > st {
                        Tok::Param(Some(sql[st..lx.i].parse().map_err(|_| LexErr {
                            at: st,
                            msg: "parameter number too large".into(),
                        })?))
                    } else {
                        Tok::Param(None)
                    }
                }
                Dialect::Postgres => pg_operator(&mut lx)?,
            },
            '$' => match d {
                Dialect::Postgres => {
                    if lx.peek_at(1).map(|c| c.is_ascii_digit()).unwrap_or(false) {
                        lx.i += 1;
                        let st = lx.i;
                        while lx.peek_at(0).map(|c| c.is_ascii_digit()).unwrap_or(false) {
                            lx.i += 1;
                        }
                        if lx.peek().map(is_word_start).unwrap_or(false) {
                            return lx.err("trailing junk after parameter");
                        }
                        Tok::Param(Some(sql[st..lx.i].parse().map_err(|_| LexErr {
                            at: st,
                            msg: "parameter number too large".into(),
                        })?))
                    } else {
                        // dollar quoting: $tag$ ... $tag$
                        let rest = &sql[lx.i + 1..];
                        let tag_end = rest.find('$');
                        match tag_end {
                            Some(te)
                                if rest[..te].chars().all(|c| is_word_char(c) && c != '$')
                                    && !rest[..te].chars().next().map(|c| c.is_ascii_digit()).unwrap_or(false) =>
                            {
                                let tag = &sql[lx.i..lx.i + te + 2];
                                let body_start = lx.i + te + 2;
                                match sql[body_start..].find(tag) {
                                    Some(p) => {
                                        let body = sql[body_start..body_start + p].to_string();
                                        lx.i = body_start + p + tag.len();
                                        Tok::Str(body)
                                    }
                                    None => return lx.err("unterminated dollar-quoted string"),
                                }
                            }
                            _ => return lx.err("syntax error at or near \"$\""),
                        }
                    }
                }
                Dialect::Sqlite => {
                    // $name parameter
                    lx.i += 1;
                    let st = lx.i;
                    while lx.peek().map(is_word_char).unwrap_or(false) {
                        lx.i += lx.peek().unwrap().len_utf8();
                    }
                    if lx.i == st {
                        return lx.err("unrecognized token: \"$\"");
                    }
                    Tok::Param(None)
                }
                Dialect::Mysql => return lx.err("unexpected character $"),
            },
            ':' | '@' if d == Dialect::Sqlite && lx.peek_at(1).map(|c| is_word_start(c as char)).unwrap_or(false) => {
                lx.i += 1;
                while lx.peek().map(is_word_char).unwrap_or(false) {
                    lx.i += lx.peek().unwrap().len_utf8();
                }
                Tok::Param(None)
            }
            '0'..='9' => lx.number()?,
            '.' => lx.number()?,
            c if is_word_start(c) => {
                // prefixed literals
                let next = lx.peek_at(1);
                if (c == 'x' || c == 'X') && next == Some(b'\'') {
                    lx.i += 1;
                    Tok::Bytes(lx.hex_body()?)
                } else if (c == 'e' || c == 'E') && next == Some(b'\'') && d == Dialect::Postgres {
                    lx.i += 1;
                    Tok::Str(lx.quoted('\'', Backslash::PgE)?)
                } else {
                    while lx.peek().map(is_word_char).unwrap_or(false) {
                        lx.i += lx.peek().unwrap().len_utf8();
                    }
                    Tok::Word(sql[start..lx.i].to_string())
                }
            }
            _ => {
                if d == Dialect::Postgres {
                    if PG_OPCHARS.contains(c) {
                        pg_operator(&mut lx)?
                    } else if c == ':' && lx.peek_at(1) == Some(b':') {
                        lx.i += 2;
                        Tok::Op("::".into())
                    } else {
                        return lx.err(&format!("unexpected character {c:?}"));
                    }
                } else {
                    let rest = &sql[lx.i..];
                    match FIXED_OPS.iter().find(|o| rest.starts_with(**o)) {
                        Some(o) => {
                            if d == Dialect::Mysql && (*o == "==" ) {
                                // MySQL has no == ; it lexes as = =
                                lx.i += 1;
                                Tok::Op("=".into())
                            } else if d == Dialect::Sqlite && (*o == "<=>" || *o == ":=" || *o == "&&") {
                                // not SQLite operators: take the shorter prefix
                                let alt = match *o {
                                    "<=>" => "<=",
                                    "&&" => "&",
                                    _ => return lx.err("unrecognized token"),
                                };
                                lx.i += alt.len();
                                Tok::Op(alt.into())
                            } else {
                                lx.i += o.len();
                                Tok::Op(o.to_string())
                            }
                        }
                        None => {
                            if c == '!' && d == Dialect::Mysql {
                                lx.i += 1;
                                Tok::Op("!".into())
                            } else if c == '^' && d == Dialect::Mysql {
                                lx.i += 1;
                                Tok::Op("^".into())
                            } else if c == '@' && d == Dialect::Mysql {
                                lx.i += 1;
                                Tok::Op("@".into())
                            } else {
                                return lx.err(&format!("unrecognized token: {c:?}"));
                            }
                        }
                    }
                }
            }
        };
        out.push(Token {
            tok,
            start,
            end: lx.i,
        });
    }
    Ok(out)
}

fn pg_operator(lx: &mut Lx) -> Result<Tok, LexErr> {
    let st = lx.i;
    let mut j = lx.i;
    let b = lx.b;
    while j < b.len() && PG_OPCHARS.as_bytes().contains(&b[j]) {
        // stop at comment starts
        if b[j] == b'-' && b.get(j + 1) == Some(&b'-') {
            break;
        }
        if b[j] == b'/' && b.get(j + 1) == Some(&b'*') {
            break;
        }
        j += 1;
    }
    if j == st {
        return lx.err("empty operator");
    }
    let mut op = &lx.s[st..j];
    // a multi-char operator cannot end in + or - unless it contains one of ~ ! @ # % ^ & | ` ?
    if op.len() > 1 && !op.chars().any(|c| "~!@#%^&|`?".contains(c)) {
        while op.len() > 1 && (op.ends_with('+') || op.ends_with('-')) {
            op = &op[..op.len() - 1];
        }
    }
    lx.i = st + op.len();
    Ok(Tok::Op(op.to_string()))
}

// ---------------------------------------------------------------------------
// Independent encoders (used by reference renderers / transliteration)

pub fn sqlite_str(s: &str) -> String {
    format!("'{}'", s.replace('\'', "''"))
}

pub fn sqlite_ident(s: &str) -> String {
    format!("\"{}\"", s.replace('"', "\"\""))
}

pub fn sqlite_blob(b: &[u8]) -> String {
    format!("x'{}'", b.iter().map(|x| format!("{x:02X}")).collect::<String>())
}

/// The raw source text of a token.
pub fn raw<'a>(sql: &'a str, t: &Token) -> &'a str {
    &sql[t.start..t.end]
}
