//! DDL grammars ("G" oracle, schema part; DESIGN.md Appendix G): strict
//! recursive-descent parsers for the MySQL 8.0 and PostgreSQL 15 forms of the
//! schema statements sea-query renders.

use crate::lex::{Dialect, Tok, Token};
use crate::px::{ParseErr, P, R};
use crate::stmt::Tree;

fn n(label: &str, kids: Vec<Tree>) -> Tree {
    Tree::N(label.to_string(), kids)
}
fn a(s: impl Into<String>) -> Tree {
    Tree::A(s.into())
}

pub struct DdlCtx {
    /// names of user-defined types that may appear as column types (enum / custom types)
    pub custom_types: Vec<String>,
}

impl<'a> P<'a> {
    fn my(&self) -> bool {
        self.d == Dialect::Mysql
    }
    fn pgsql(&self) -> bool {
        self.d == Dialect::Postgres
    }

    fn qident(&mut self) -> R<String> {
        match self.peek() {
            Some(Tok::Ident(x)) => {
                self.i += 1;
                Ok(x.clone())
            }
            _ => self.err(format!("expected quoted identifier, found {}", self.here())),
        }
    }

    fn qualified(&mut self) -> R<Tree> {
        let mut parts = vec![self.qident()?];
        while self.peek() == Some(&Tok::Dot) {
            self.i += 1;
            parts.push(self.qident()?);
        }
        Ok(a(parts.join(".")))
    }

    fn word(&mut self) -> R<String> {
        match self.peek() {
            Some(Tok::Word(w)) => {
                self.i += 1;
                Ok(w.clone())
            }
            _ => self.err(format!("expected a word, found {}", self.here())),
        }
    }

    fn num_params(&mut self, min: usize, max: usize) -> R<String> {
        // optional "(n[, m])"
        if self.peek() != Some(&Tok::LParen) {
            if min > 0 {
                return self.err("type needs a length / precision");
            }
            return Ok(String::new());
        }
        if max == 0 {
            return self.err("type takes no parameters");
        }
        self.i += 1;
        let mut ps = vec![];
        loop {
            match self.peek() {
                Some(Tok::Num(x)) => {
                    ps.push(x.clone());
                    self.i += 1;
                }
                _ => return self.err("expected numeric type parameter"),
            }
            if self.eat(&Tok::Comma) {
                continue;
            }
            self.expect(&Tok::RParen)?;
            break;
        }
        if ps.len() < min.max(1) || ps.len() > max {
            return self.err("wrong number of type parameters");
        }
        Ok(format!("({})", ps.join(",")))
    }

    /// exactly one type of the dialect's type table
    fn column_type(&mut self, cx: &DdlCtx) -> R<Tree> {
        let w = match self.peek() {
            Some(Tok::Word(w)) => w.clone(),
            _ => return self.err(format!("expected a type name, found {}", self.here())),
        };
        let lw = w.to_ascii_lowercase();
        self.i += 1;
        let mut out;
        if self.my() {
            out = match lw.as_str() {
                "char" => format!("char{}", self.num_params(0, 1)?),
                "varchar" => format!("varchar{}", self.num_params(1, 1)?),
                "text" | "blob" | "datetime" | "timestamp" | "time" | "date" | "year" | "bool" | "json" | "float" | "double" => {
                    format!("{lw}{}", self.num_params(0, 0)?)
                }
                "tinyint" | "smallint" | "int" | "bigint" => {
                    let mut t = lw.clone();
                    if self.eat_word("UNSIGNED") {
                        t.push_str(" unsigned");
                    }
                    t
                }
                "decimal" => {
                    let p = self.num_params(0, 2)?;
                    format!("decimal{p}")
                }
                "binary" => format!("binary{}", self.num_params(1, 1)?),
                "varbinary" => format!("varbinary{}", self.num_params(1, 1)?),
                "bit" => format!("bit{}", self.num_params(0, 1)?),
                "enum" => {
                    self.expect(&Tok::LParen)?;
                    let mut labels = vec![];
                    loop {
                        match self.peek() {
                            Some(Tok::Str(s)) => {
                                labels.push(format!("'{s}'"));
                                self.i += 1;
                            }
                            _ => return self.err("expected enum label"),
                        }
                        if self.eat(&Tok::Comma) {
                            continue;
                        }
                        self.expect(&Tok::RParen)?;
                        break;
                    }
                    format!("enum({})", labels.join(","))
                }
                other if cx.custom_types.iter().any(|c| c.eq_ignore_ascii_case(other)) => other.to_string(),
                other => return self.err(format!("`{other}` is not a MySQL column type")),
            };
        } else {
            out = match lw.as_str() {
                "char" => format!("char{}", self.num_params(0, 1)?),
                "varchar" => format!("varchar{}", self.num_params(0, 1)?),
                "text" | "smallint" | "integer" | "bigint" | "smallserial" | "serial" | "bigserial" | "real" | "date" | "bytea" | "bool" | "money" | "json"
                | "jsonb" | "uuid" | "cidr" | "inet" | "macaddr" | "ltree" => format!("{lw}{}", self.num_params(0, 0)?),
                "double" => {
                    self.expect_word("precision")?;
                    "double precision".into()
                }
                "decimal" => format!("decimal{}", self.num_params(0, 2)?),
                "timestamp" | "time" => {
                    let mut t = format!("{lw}{}", self.num_params(0, 1)?);
                    if self.is_word("without") || self.is_word("with") {
                        let wo = self.word()?.to_ascii_lowercase();
                        self.expect_word("time")?;
                        self.expect_word("zone")?;
                        t.push_str(&format!(" {wo} time zone"));
                    }
                    t
                }
                "interval" => {
                    let mut t = "interval".to_string();
                    while matches!(self.peek(), Some(Tok::Word(w)) if ["YEAR", "MONTH", "DAY", "HOUR", "MINUTE", "SECOND", "TO"].contains(&w.to_ascii_uppercase().as_str())) {
                        t.push(' ');
                        t.push_str(&self.word()?.to_ascii_lowercase());
                    }
                    t.push_str(&self.num_params(0, 1)?);
                    t
                }
                "bit" => format!("bit{}", self.num_params(0, 1)?),
                "varbit" => format!("varbit{}", self.num_params(0, 1)?),
                "vector" => format!("vector{}", self.num_params(0, 1)?),
                other if cx.custom_types.iter().any(|c| c.eq_ignore_ascii_case(other)) => other.to_string(),
                other => return self.err(format!("`{other}` is not a PostgreSQL column type")),
            };
            while self.peek() == Some(&Tok::LBracket) {
                self.i += 1;
                self.expect(&Tok::RBracket)?;
                out.push_str("[]");
            }
        }
        Ok(a(format!("type {out}")))
    }

    fn column_def(&mut self, cx: &DdlCtx) -> R<Tree> {
        let name = self.qident()?;
        let mut kids = vec![a(name), self.column_type(cx)?];
        loop {
            if self.eat_word("NULL") {
                kids.push(a("NULL"));
            } else if self.is_word("NOT") && self.is_word_n(1, "NULL") {
                self.i += 2;
                kids.push(a("NOT NULL"));
            } else if self.eat_word("DEFAULT") {
                kids.push(n("DEFAULT", vec![Tree::E(self.expr()?)]));
            } else if self.is_word("AUTO_INCREMENT") {
                if !self.my() {
                    return self.err("AUTO_INCREMENT is MySQL syntax");
                }
                self.i += 1;
                kids.push(a("AUTO_INCREMENT"));
            } else if self.eat_word("UNIQUE") {
                kids.push(a("UNIQUE"));
            } else if self.is_word("PRIMARY") && self.is_word_n(1, "KEY") {
                self.i += 2;
                kids.push(a("PRIMARY KEY"));
            } else if self.is_word("CHECK") {
                kids.push(self.check()?);
            } else if self.is_word("GENERATED") {
                self.i += 1;
                self.expect_word("ALWAYS")?;
                self.expect_word("AS")?;
                self.expect(&Tok::LParen)?;
                let e = self.expr()?;
                self.expect(&Tok::RParen)?;
                let kind = if self.eat_word("STORED") {
                    "STORED"
                } else if self.is_word("VIRTUAL") {
                    if self.pgsql() {
                        return self.err("Postgres has STORED generated columns only");
                    }
                    self.i += 1;
                    "VIRTUAL"
                } else {
                    return self.err("expected STORED or VIRTUAL");
                };
                kids.push(n("GENERATED", vec![Tree::E(e), a(kind)]));
            } else if self.is_word("COLLATE") && self.my() {
                // MySQL column attribute (any position among the attributes)
                self.i += 1;
                let name = self.word()?;
                kids.push(n("COLLATE", vec![a(name)]));
            } else if self.is_word("COMMENT") {
                if !self.my() {
                    return self.err("column COMMENT is MySQL syntax");
                }
                self.i += 1;
                match self.peek() {
                    Some(Tok::Str(s)) => {
                        kids.push(n("COMMENT", vec![a(format!("'{s}'"))]));
                        self.i += 1;
                    }
                    _ => return self.err("expected comment string"),
                }
            } else {
                break;
            }
        }
        Ok(n("column", kids))
    }

    fn check(&mut self) -> R<Tree> {
        self.expect_word("CHECK")?;
        self.expect(&Tok::LParen)?;
        let e = self.expr()?;
        self.expect(&Tok::RParen)?;
        Ok(n("CHECK", vec![Tree::E(e)]))
    }

    fn index_cols(&mut self) -> R<Vec<Tree>> {
        self.expect(&Tok::LParen)?;
        let mut v = vec![];
        loop {
            let c = self.qident()?;
            let mut item = vec![a(c)];
            if self.peek() == Some(&Tok::LParen) {
                if !self.my() {
                    return self.err("column prefix length is MySQL syntax");
                }
                item.push(a(format!("prefix{}", self.num_params(1, 1)?)));
            }
            if self.eat_word("ASC") {
                item.push(a("ASC"));
            } else if self.eat_word("DESC") {
                item.push(a("DESC"));
            }
            v.push(n("icol", item));
            if self.eat(&Tok::Comma) {
                continue;
            }
            self.expect(&Tok::RParen)?;
            return Ok(v);
        }
    }

    fn id_list(&mut self) -> R<Vec<Tree>> {
        self.expect(&Tok::LParen)?;
        let mut v = vec![];
        loop {
            v.push(a(self.qident()?));
            if self.eat(&Tok::Comma) {
                continue;
            }
            self.expect(&Tok::RParen)?;
            return Ok(v);
        }
    }

    fn fk_action(&mut self) -> R<String> {
        if self.eat_word("RESTRICT") {
            Ok("RESTRICT".into())
        } else if self.eat_word("CASCADE") {
            Ok("CASCADE".into())
        } else if self.eat_word("SET") {
            if self.eat_word("NULL") {
                Ok("SET NULL".into())
            } else {
                self.expect_word("DEFAULT")?;
                Ok("SET DEFAULT".into())
            }
        } else if self.eat_word("NO") {
            self.expect_word("ACTION")?;
            Ok("NO ACTION".into())
        } else {
            self.err("expected a referential action")
        }
    }

    /// CONSTRAINT name FOREIGN KEY (cols) REFERENCES t (cols) [ON DELETE a] [ON UPDATE a]
    fn fk_clause(&mut self) -> R<Tree> {
        self.expect_word("CONSTRAINT")?;
        let name = self.qident()?;
        self.expect_word("FOREIGN")?;
        self.expect_word("KEY")?;
        let cols = self.id_list()?;
        self.expect_word("REFERENCES")?;
        let t = self.qualified()?;
        let rcols = self.id_list()?;
        let mut kids = vec![a(name), n("cols", cols), t, n("ref cols", rcols)];
        if self.is_word("ON") && self.is_word_n(1, "DELETE") {
            self.i += 2;
            kids.push(a(format!("ON DELETE {}", self.fk_action()?)));
        }
        if self.is_word("ON") && self.is_word_n(1, "UPDATE") {
            self.i += 2;
            kids.push(a(format!("ON UPDATE {}", self.fk_action()?)));
        }
        Ok(n("foreign key", kids))
    }

    fn table_element(&mut self, cx: &DdlCtx) -> R<Tree> {
        if let Some(Tok::Ident(_)) = self.peek() {
            return self.column_def(cx);
        }
        if self.is_word("CHECK") {
            return self.check();
        }
        if self.is_word("CONSTRAINT") && self.is_word_n(2, "FOREIGN") {
            return self.fk_clause();
        }
        if self.my() {
            // [PRIMARY] [UNIQUE] [FULLTEXT] KEY [name] [USING t] (cols)
            let mut kids = vec![];
            if self.eat_word("PRIMARY") {
                kids.push(a("PRIMARY"));
            }
            if self.eat_word("UNIQUE") {
                kids.push(a("UNIQUE"));
            }
            if self.eat_word("FULLTEXT") {
                kids.push(a("FULLTEXT"));
            }
            self.expect_word("KEY")?;
            if let Some(Tok::Ident(x)) = self.peek() {
                kids.push(a(format!("name {x}")));
                self.i += 1;
            }
            if self.eat_word("USING") {
                kids.push(a(format!("USING {}", self.word()?.to_ascii_uppercase())));
            }
            kids.push(n("cols", self.index_cols()?));
            return Ok(n("index", kids));
        }
        // Postgres: [CONSTRAINT name] (PRIMARY KEY | UNIQUE) [NULLS NOT DISTINCT] (cols) [INCLUDE (..)]
        let mut kids = vec![];
        if self.eat_word("CONSTRAINT") {
            kids.push(a(format!("name {}", self.qident()?)));
        }
        if self.eat_word("PRIMARY") {
            self.expect_word("KEY")?;
            kids.push(a("PRIMARY KEY"));
        } else if self.eat_word("UNIQUE") {
            kids.push(a("UNIQUE"));
        } else {
            return self.err(format!("expected a table element, found {}", self.here()));
        }
        if self.eat_word("NULLS") {
            self.expect_word("NOT")?;
            self.expect_word("DISTINCT")?;
            kids.push(a("NULLS NOT DISTINCT"));
        }
        kids.push(n("cols", self.index_cols()?));
        if self.eat_word("INCLUDE") {
            kids.push(n("INCLUDE", self.id_list()?));
        }
        Ok(n("index", kids))
    }

    fn create_table(&mut self, cx: &DdlCtx, temporary: bool) -> R<Tree> {
        let mut kids = vec![];
        if temporary {
            kids.push(a("TEMPORARY"));
        }
        if self.is_word("IF") {
            self.i += 1;
            self.expect_word("NOT")?;
            self.expect_word("EXISTS")?;
            kids.push(a("IF NOT EXISTS"));
        }
        kids.push(self.qualified()?);
        self.expect(&Tok::LParen)?;
        let mut elems = vec![];
        loop {
            elems.push(self.table_element(cx)?);
            if self.eat(&Tok::Comma) {
                continue;
            }
            self.expect(&Tok::RParen)?;
            break;
        }
        kids.push(n("elements", elems));
        // MySQL table options
        while !self.eof() {
            if !self.my() {
                return self.err(format!("table options are MySQL syntax, found {}", self.here()));
            }
            if self.eat_word("COMMENT") {
                match self.peek() {
                    Some(Tok::Str(s)) => {
                        kids.push(a(format!("COMMENT '{s}'")));
                        self.i += 1;
                    }
                    _ => return self.err("expected comment string"),
                }
            } else if self.is_word("ENGINE") || self.is_word("COLLATE") {
                let k = self.word()?.to_ascii_uppercase();
                self.expect(&Tok::Op("=".into()))?;
                kids.push(a(format!("{k}={}", self.word()?)));
            } else if self.eat_word("DEFAULT") {
                self.expect_word("CHARSET")?;
                self.expect(&Tok::Op("=".into()))?;
                kids.push(a(format!("DEFAULT CHARSET={}", self.word()?)));
            } else {
                return self.err(format!("unexpected table option {}", self.here()));
            }
        }
        Ok(n("create table", kids))
    }

    fn alter_table(&mut self, cx: &DdlCtx) -> R<Tree> {
        let mut kids = vec![self.qualified()?];
        if self.is_word("RENAME") && self.is_word_n(1, "TO") {
            if self.my() {
                return self.err("MySQL renames tables with RENAME TABLE");
            }
            self.i += 2;
            kids.push(n("RENAME TO", vec![self.qualified()?]));
            return Ok(n("alter table", kids));
        }
        loop {
            let act = if self.is_word("ADD") && self.is_word_n(1, "COLUMN") {
                self.i += 2;
                let mut k = vec![];
                if self.is_word("IF") {
                    self.i += 1;
                    self.expect_word("NOT")?;
                    self.expect_word("EXISTS")?;
                    k.push(a("IF NOT EXISTS"));
                }
                k.push(self.column_def(cx)?);
                n("ADD COLUMN", k)
            } else if self.is_word("MODIFY") {
                if !self.my() {
                    return self.err("MODIFY COLUMN is MySQL syntax");
                }
                self.i += 1;
                self.expect_word("COLUMN")?;
                n("MODIFY COLUMN", vec![self.column_def(cx)?])
            } else if self.is_word("ALTER") && self.is_word_n(1, "COLUMN") {
                if !self.pgsql() {
                    return self.err("ALTER COLUMN .. is Postgres syntax here");
                }
                self.i += 2;
                let c = self.qident()?;
                if self.eat_word("TYPE") {
                    let t = self.column_type(cx)?;
                    let mut k = vec![a(c), t];
                    if self.eat_word("USING") {
                        k.push(n("USING", vec![Tree::E(self.expr()?)]));
                    }
                    n("ALTER COLUMN TYPE", k)
                } else if self.eat_word("SET") {
                    if self.eat_word("NOT") {
                        self.expect_word("NULL")?;
                        n("SET NOT NULL", vec![a(c)])
                    } else {
                        self.expect_word("DEFAULT")?;
                        n("SET DEFAULT", vec![a(c), Tree::E(self.expr()?)])
                    }
                } else if self.eat_word("DROP") {
                    self.expect_word("NOT")?;
                    self.expect_word("NULL")?;
                    n("DROP NOT NULL", vec![a(c)])
                } else {
                    return self.err("unknown ALTER COLUMN action");
                }
            } else if self.is_word("ADD") && (self.is_word_n(1, "UNIQUE") || self.is_word_n(1, "PRIMARY")) {
                if !self.pgsql() {
                    return self.err("ADD UNIQUE/PRIMARY KEY (col) is generated for Postgres only");
                }
                self.i += 1;
                let what = if self.eat_word("UNIQUE") {
                    "ADD UNIQUE"
                } else {
                    self.i += 1;
                    self.expect_word("KEY")?;
                    "ADD PRIMARY KEY"
                };
                n(what, self.id_list()?)
            } else if self.is_word("ADD") && self.is_word_n(1, "CHECK") {
                self.i += 1;
                n("ADD CHECK", vec![self.check()?])
            } else if self.is_word("ADD") && self.is_word_n(1, "CONSTRAINT") {
                self.i += 1;
                n("ADD", vec![self.fk_clause()?])
            } else if self.is_word("RENAME") && self.is_word_n(1, "COLUMN") {
                self.i += 2;
                let f = self.qident()?;
                self.expect_word("TO")?;
                let t = self.qident()?;
                n("RENAME COLUMN", vec![a(f), a(t)])
            } else if self.is_word("DROP") && self.is_word_n(1, "COLUMN") {
                self.i += 2;
                n("DROP COLUMN", vec![a(self.qident()?)])
            } else if self.is_word("DROP") && self.is_word_n(1, "FOREIGN") {
                if !self.my() {
                    return self.err("DROP FOREIGN KEY is MySQL syntax");
                }
                self.i += 2;
                self.expect_word("KEY")?;
                n("DROP FOREIGN KEY", vec![a(self.qident()?)])
            } else if self.is_word("DROP") && self.is_word_n(1, "CONSTRAINT") {
                if !self.pgsql() {
                    return self.err("DROP CONSTRAINT is generated for Postgres only");
                }
                self.i += 2;
                n("DROP CONSTRAINT", vec![a(self.qident()?)])
            } else {
                return self.err(format!("expected an ALTER TABLE action, found {}", self.here()));
            };
            kids.push(act);
            if self.eat(&Tok::Comma) {
                continue;
            }
            break;
        }
        Ok(n("alter table", kids))
    }

    fn create_index(&mut self, unique: bool, fulltext: bool) -> R<Tree> {
        let mut kids = vec![];
        if unique {
            kids.push(a("UNIQUE"));
        }
        if fulltext {
            kids.push(a("FULLTEXT"));
        }
        if self.is_word("IF") {
            if !self.pgsql() {
                return self.err("CREATE INDEX IF NOT EXISTS is not MySQL syntax");
            }
            self.i += 1;
            self.expect_word("NOT")?;
            self.expect_word("EXISTS")?;
            kids.push(a("IF NOT EXISTS"));
        }
        kids.push(a(format!("name {}", self.qident()?)));
        self.expect_word("ON")?;
        kids.push(self.qualified()?);
        if self.pgsql() && self.eat_word("USING") {
            kids.push(a(format!("USING {}", self.word()?.to_ascii_uppercase())));
        }
        kids.push(n("cols", self.index_cols()?));
        if self.my() && self.eat_word("USING") {
            kids.push(a(format!("USING {}", self.word()?.to_ascii_uppercase())));
        }
        if self.is_word("INCLUDE") {
            if !self.pgsql() {
                return self.err("INCLUDE is Postgres syntax");
            }
            self.i += 1;
            kids.push(n("INCLUDE", self.id_list()?));
        }
        if self.is_word("NULLS") {
            if !self.pgsql() {
                return self.err("NULLS NOT DISTINCT is Postgres syntax");
            }
            self.i += 1;
            self.expect_word("NOT")?;
            self.expect_word("DISTINCT")?;
            kids.push(a("NULLS NOT DISTINCT"));
        }
        if self.is_word("WHERE") {
            if !self.pgsql() {
                return self.err("partial indexes are not MySQL syntax");
            }
            self.i += 1;
            kids.push(n("WHERE", vec![Tree::E(self.expr()?)]));
        }
        Ok(n("create index", kids))
    }

    fn drop_opts(&mut self, kids: &mut Vec<Tree>) {
        if self.eat_word("CASCADE") {
            kids.push(a("CASCADE"));
        } else if self.eat_word("RESTRICT") {
            kids.push(a("RESTRICT"));
        }
    }

    fn str_lit(&mut self) -> R<String> {
        match self.peek() {
            Some(Tok::Str(s)) => {
                self.i += 1;
                Ok(format!("'{s}'"))
            }
            _ => self.err(format!("expected a string literal, found {}", self.here())),
        }
    }

    pub fn ddl(&mut self, cx: &DdlCtx) -> R<Tree> {
        if self.eat_word("CREATE") {
            if self.eat_word("TEMPORARY") {
                self.expect_word("TABLE")?;
                return self.create_table(cx, true);
            }
            if self.eat_word("TABLE") {
                return self.create_table(cx, false);
            }
            if self.eat_word("TYPE") {
                if !self.pgsql() {
                    return self.err("CREATE TYPE is Postgres syntax");
                }
                let name = self.qualified()?;
                self.expect_word("AS")?;
                self.expect_word("ENUM")?;
                self.expect(&Tok::LParen)?;
                let mut labels = vec![];
                if !self.eat(&Tok::RParen) {
                    loop {
                        labels.push(a(self.str_lit()?));
                        if self.eat(&Tok::Comma) {
                            continue;
                        }
                        self.expect(&Tok::RParen)?;
                        break;
                    }
                }
                return Ok(n("create type", vec![name, n("labels", labels)]));
            }
            if self.eat_word("EXTENSION") {
                if !self.pgsql() {
                    return self.err("CREATE EXTENSION is Postgres syntax");
                }
                let mut kids = vec![];
                if self.is_word("IF") {
                    self.i += 1;
                    self.expect_word("NOT")?;
                    self.expect_word("EXISTS")?;
                    kids.push(a("IF NOT EXISTS"));
                }
                kids.push(a(self.word()?));
                if self.eat_word("WITH") {
                    self.expect_word("SCHEMA")?;
                    kids.push(a(format!("SCHEMA {}", self.word()?)));
                }
                if self.eat_word("VERSION") {
                    let v = match self.peek() {
                        Some(Tok::Word(w)) => w.clone(),
                        Some(Tok::Str(s)) => format!("'{s}'"),
                        Some(Tok::Num(x)) => x.clone(),
                        _ => return self.err("expected a version"),
                    };
                    self.i += 1;
                    kids.push(a(format!("VERSION {v}")));
                }
                if self.eat_word("CASCADE") {
                    kids.push(a("CASCADE"));
                }
                return Ok(n("create extension", kids));
            }
            let unique = self.eat_word("UNIQUE");
            let fulltext = if self.is_word("FULLTEXT") {
                if !self.my() {
                    return self.err("FULLTEXT is MySQL syntax");
                }
                self.i += 1;
                true
            } else {
                false
            };
            self.expect_word("INDEX")?;
            return self.create_index(unique, fulltext);
        }
        if self.eat_word("ALTER") {
            if self.eat_word("TABLE") {
                return self.alter_table(cx);
            }
            self.expect_word("TYPE")?;
            if !self.pgsql() {
                return self.err("ALTER TYPE is Postgres syntax");
            }
            let name = self.qualified()?;
            if self.eat_word("ADD") {
                self.expect_word("VALUE")?;
                let mut kids = vec![name];
                if self.is_word("IF") {
                    self.i += 1;
                    self.expect_word("NOT")?;
                    self.expect_word("EXISTS")?;
                    kids.push(a("IF NOT EXISTS"));
                }
                kids.push(a(self.str_lit()?));
                if self.eat_word("BEFORE") {
                    kids.push(a(format!("BEFORE {}", self.str_lit()?)));
                } else if self.eat_word("AFTER") {
                    kids.push(a(format!("AFTER {}", self.str_lit()?)));
                }
                return Ok(n("alter type add value", kids));
            }
            self.expect_word("RENAME")?;
            if self.eat_word("TO") {
                // ALTER TYPE name RENAME TO new_name — an identifier
                let new = self.qident()?;
                return Ok(n("alter type rename", vec![name, a(new)]));
            }
            self.expect_word("VALUE")?;
            let from = self.str_lit()?;
            self.expect_word("TO")?;
            let to = self.str_lit()?;
            return Ok(n("alter type rename value", vec![name, a(from), a(to)]));
        }
        if self.eat_word("DROP") {
            if self.eat_word("TABLE") {
                let mut kids = vec![];
                if self.is_word("IF") {
                    self.i += 1;
                    self.expect_word("EXISTS")?;
                    kids.push(a("IF EXISTS"));
                }
                loop {
                    kids.push(self.qualified()?);
                    if self.eat(&Tok::Comma) {
                        continue;
                    }
                    break;
                }
                self.drop_opts(&mut kids);
                return Ok(n("drop table", kids));
            }
            if self.eat_word("INDEX") {
                let mut kids = vec![];
                if self.is_word("IF") {
                    if self.my() {
                        return self.err("DROP INDEX IF EXISTS is not MySQL syntax");
                    }
                    self.i += 1;
                    self.expect_word("EXISTS")?;
                    kids.push(a("IF EXISTS"));
                }
                kids.push(self.qualified()?);
                if self.my() {
                    self.expect_word("ON")?;
                    kids.push(n("ON", vec![self.qualified()?]));
                }
                return Ok(n("drop index", kids));
            }
            if self.eat_word("TYPE") {
                if !self.pgsql() {
                    return self.err("DROP TYPE is Postgres syntax");
                }
                let mut kids = vec![];
                if self.is_word("IF") {
                    self.i += 1;
                    self.expect_word("EXISTS")?;
                    kids.push(a("IF EXISTS"));
                }
                loop {
                    kids.push(self.qualified()?);
                    if self.eat(&Tok::Comma) {
                        continue;
                    }
                    break;
                }
                self.drop_opts(&mut kids);
                return Ok(n("drop type", kids));
            }
            self.expect_word("EXTENSION")?;
            if !self.pgsql() {
                return self.err("DROP EXTENSION is Postgres syntax");
            }
            let mut kids = vec![];
            if self.is_word("IF") {
                self.i += 1;
                self.expect_word("EXISTS")?;
                kids.push(a("IF EXISTS"));
            }
            kids.push(a(self.word()?));
            self.drop_opts(&mut kids);
            return Ok(n("drop extension", kids));
        }
        if self.eat_word("RENAME") {
            if !self.my() {
                return self.err("RENAME TABLE is MySQL syntax");
            }
            self.expect_word("TABLE")?;
            let f = self.qualified()?;
            self.expect_word("TO")?;
            let t = self.qualified()?;
            return Ok(n("rename table", vec![f, t]));
        }
        if self.eat_word("TRUNCATE") {
            self.expect_word("TABLE")?;
            return Ok(n("truncate", vec![self.qualified()?]));
        }
        self.err(format!("expected a schema statement, found {}", self.here()))
    }
}

pub fn parse_ddl(d: Dialect, toks: &[Token], cx: &DdlCtx) -> Result<Tree, ParseErr> {
    let mut p = P::new(d, toks);
    let t = p.ddl(cx)?;
    if !p.eof() {
        return p.err(format!("trailing tokens after statement: {}", p.here()));
    }
    Ok(t)
}
