//! DML clause grammars ("G" oracle, statement part; DESIGN.md Appendix F).
//! Strict recursive-descent parsers for the MySQL 8.0, PostgreSQL 15 and SQLite
//! forms of SELECT / INSERT / UPDATE / DELETE / WITH. The result is a generic
//! tree of labelled clauses whose expressions are parsed by px.rs.

use crate::lex::{Dialect, Tok, Token};
use crate::px::{ParseErr, P, PX, R};

#[derive(Clone, Debug, PartialEq)]
pub enum Tree {
    N(String, Vec<Tree>),
    E(PX),
    A(String),
}

fn n(label: &str, kids: Vec<Tree>) -> Tree {
    Tree::N(label.to_string(), kids)
}
fn a(s: impl Into<String>) -> Tree {
    Tree::A(s.into())
}

impl Tree {
    pub fn show(&self) -> String {
        match self {
            Tree::N(l, k) => format!("{l}{{{}}}", k.iter().map(|x| x.show()).collect::<Vec<_>>().join("; ")),
            Tree::E(e) => e.show(),
            Tree::A(s) => s.clone(),
        }
    }
    /// labels of all clause nodes, in order (for coverage)
    pub fn labels(&self, out: &mut Vec<String>) {
        if let Tree::N(l, k) = self {
            out.push(l.clone());
            for x in k {
                x.labels(out);
            }
        }
    }
}

impl<'a> P<'a> {
    fn mysql(&self) -> bool {
        self.d == Dialect::Mysql
    }
    fn pg(&self) -> bool {
        self.d == Dialect::Postgres
    }
    fn lite(&self) -> bool {
        self.d == Dialect::Sqlite
    }

    fn ident(&mut self) -> R<String> {
        match self.peek() {
            Some(Tok::Ident(x)) => {
                self.i += 1;
                Ok(x.clone())
            }
            _ => self.err(format!("expected quoted identifier, found {}", self.here())),
        }
    }

    fn qname(&mut self) -> R<Tree> {
        let mut parts = vec![self.ident()?];
        while self.peek() == Some(&Tok::Dot) {
            self.i += 1;
            parts.push(self.ident()?);
        }
        Ok(a(parts.join(".")))
    }

    fn ident_list(&mut self) -> R<Vec<Tree>> {
        self.expect(&Tok::LParen)?;
        let mut v = vec![];
        if self.eat(&Tok::RParen) {
            return Ok(v);
        }
        loop {
            v.push(a(self.ident()?));
            if self.eat(&Tok::Comma) {
                continue;
            }
            self.expect(&Tok::RParen)?;
            return Ok(v);
        }
    }

    fn expr_list(&mut self) -> R<Vec<Tree>> {
        let mut v = vec![Tree::E(self.expr()?)];
        while self.eat(&Tok::Comma) {
            v.push(Tree::E(self.expr()?));
        }
        Ok(v)
    }

    pub fn with_clause(&mut self) -> R<Tree> {
        self.expect_word("WITH")?;
        let mut kids = vec![];
        if self.eat_word("RECURSIVE") {
            kids.push(a("RECURSIVE"));
        }
        loop {
            let name = self.ident()?;
            let mut cte = vec![a(name)];
            if self.peek() == Some(&Tok::LParen) {
                cte.push(n("columns", self.ident_list()?));
            }
            self.expect_word("AS")?;
            if self.is_word("NOT") || self.is_word("MATERIALIZED") {
                if self.mysql() {
                    return self.err("MATERIALIZED is not MySQL syntax");
                }
                let not = self.eat_word("NOT");
                self.expect_word("MATERIALIZED")?;
                cte.push(a(if not { "NOT MATERIALIZED" } else { "MATERIALIZED" }));
            }
            self.expect(&Tok::LParen)?;
            cte.push(self.statement()?);
            self.expect(&Tok::RParen)?;
            kids.push(n("cte", cte));
            if self.eat(&Tok::Comma) {
                continue;
            }
            break;
        }
        if self.is_word("SEARCH") {
            if !self.pg() {
                return self.err("SEARCH clause is Postgres only");
            }
            self.i += 1;
            let order = if self.eat_word("BREADTH") {
                "BREADTH"
            } else {
                self.expect_word("DEPTH")?;
                "DEPTH"
            };
            self.expect_word("FIRST")?;
            self.expect_word("BY")?;
            let e = self.expr()?;
            self.expect_word("SET")?;
            let set = self.ident()?;
            kids.push(n("search", vec![a(order), Tree::E(e), a(set)]));
        }
        if self.is_word("CYCLE") {
            if !self.pg() {
                return self.err("CYCLE clause is Postgres only");
            }
            self.i += 1;
            let e = self.expr()?;
            self.expect_word("SET")?;
            let set = self.ident()?;
            self.expect_word("USING")?;
            let using = self.ident()?;
            kids.push(n("cycle", vec![Tree::E(e), a(set), a(using)]));
        }
        Ok(n("WITH", kids))
    }

    pub fn window_spec_pub(&mut self) -> R<Tree> {
        self.window_spec()
    }

    fn window_spec(&mut self) -> R<Tree> {
        let mut kids = vec![];
        if self.eat_word("PARTITION") {
            self.expect_word("BY")?;
            kids.push(n("PARTITION BY", self.expr_list()?));
        }
        if self.eat_word("ORDER") {
            self.expect_word("BY")?;
            kids.push(n("ORDER BY", self.order_list()?));
        }
        if self.is_word("ROWS") || self.is_word("RANGE") {
            let kw = if self.eat_word("ROWS") {
                "ROWS"
            } else {
                self.i += 1;
                "RANGE"
            };
            let mut f = vec![a(kw)];
            if self.eat_word("BETWEEN") {
                f.push(self.frame_bound()?);
                self.expect_word("AND")?;
                f.push(self.frame_bound()?);
            } else {
                f.push(self.frame_bound()?);
            }
            kids.push(n("frame", f));
        }
        Ok(n("window", kids))
    }

    fn frame_bound(&mut self) -> R<Tree> {
        if self.eat_word("UNBOUNDED") {
            if self.eat_word("PRECEDING") {
                return Ok(a("UNBOUNDED PRECEDING"));
            }
            self.expect_word("FOLLOWING")?;
            return Ok(a("UNBOUNDED FOLLOWING"));
        }
        if self.eat_word("CURRENT") {
            self.expect_word("ROW")?;
            return Ok(a("CURRENT ROW"));
        }
        let saved = std::mem::replace(&mut self.stop, vec!["PRECEDING", "FOLLOWING"]);
        let e = self.expr();
        self.stop = saved;
        let e = e?;
        if self.eat_word("PRECEDING") {
            return Ok(n("PRECEDING", vec![Tree::E(e)]));
        }
        self.expect_word("FOLLOWING")?;
        Ok(n("FOLLOWING", vec![Tree::E(e)]))
    }

    fn order_list(&mut self) -> R<Vec<Tree>> {
        let mut v = vec![];
        loop {
            let e = self.expr()?;
            let mut item = vec![Tree::E(e)];
            if self.eat_word("ASC") {
                item.push(a("ASC"));
            } else if self.eat_word("DESC") {
                item.push(a("DESC"));
            }
            if self.is_word("NULLS") {
                if self.mysql() {
                    return self.err("NULLS FIRST/LAST is not MySQL syntax");
                }
                self.i += 1;
                if self.eat_word("FIRST") {
                    item.push(a("NULLS FIRST"));
                } else {
                    self.expect_word("LAST")?;
                    item.push(a("NULLS LAST"));
                }
            }
            v.push(n("order", item));
            if self.eat(&Tok::Comma) {
                continue;
            }
            return Ok(v);
        }
    }

    fn from_item(&mut self) -> R<Tree> {
        let mut kids = vec![];
        if self.peek() == Some(&Tok::LParen) {
            self.i += 1;
            if self.is_word("VALUES") {
                self.i += 1;
                let mut rows = vec![];
                loop {
                    if self.is_word("ROW") {
                        if !self.mysql() {
                            return self.err("VALUES ROW(..) is MySQL syntax");
                        }
                        self.i += 1;
                    } else if self.mysql() {
                        return self.err("MySQL VALUES lists need ROW(..)");
                    }
                    self.expect(&Tok::LParen)?;
                    let cells = self.expr_list()?;
                    self.expect(&Tok::RParen)?;
                    rows.push(n("row", cells));
                    if self.eat(&Tok::Comma) {
                        continue;
                    }
                    break;
                }
                kids.push(n("VALUES", rows));
            } else {
                kids.push(self.select_stmt()?);
            }
            self.expect(&Tok::RParen)?;
            self.expect_word("AS")?;
            kids.push(n("AS", vec![a(self.ident()?)]));
            return Ok(n("from", kids));
        }
        if let Some(Tok::Word(_)) = self.peek() {
            // table function
            let e = self.expr()?;
            kids.push(Tree::E(e));
            self.expect_word("AS")?;
            kids.push(n("AS", vec![a(self.ident()?)]));
            return Ok(n("from", kids));
        }
        kids.push(self.qname()?);
        if self.eat_word("AS") {
            kids.push(n("AS", vec![a(self.ident()?)]));
        }
        Ok(n("from", kids))
    }

    fn select_core(&mut self) -> R<Vec<Tree>> {
        let mut out = vec![];
        self.expect_word("SELECT")?;
        if self.eat_word("ALL") {
            out.push(a("ALL"));
        } else if self.eat_word("DISTINCTROW") {
            if !self.mysql() {
                return self.err("DISTINCTROW is MySQL syntax");
            }
            out.push(a("DISTINCTROW"));
        } else if self.eat_word("DISTINCT") {
            if self.eat_word("ON") {
                if !self.pg() {
                    return self.err("DISTINCT ON is Postgres syntax");
                }
                self.expect(&Tok::LParen)?;
                let cols = self.expr_list()?;
                self.expect(&Tok::RParen)?;
                out.push(n("DISTINCT ON", cols));
            } else {
                out.push(a("DISTINCT"));
            }
        }
        // select list
        let mut items = vec![];
        loop {
            let e = self.expr()?;
            let mut item = vec![Tree::E(e)];
            if self.eat_word("AS") {
                item.push(n("AS", vec![a(self.ident()?)]));
            }
            items.push(n("item", item));
            if self.eat(&Tok::Comma) {
                continue;
            }
            break;
        }
        out.push(n("items", items));
        if self.eat_word("FROM") {
            let mut fs = vec![self.from_item()?];
            while self.eat(&Tok::Comma) {
                fs.push(self.from_item()?);
            }
            out.push(n("FROM", fs));
            // MySQL index hints
            while self.is_word("USE") || self.is_word("IGNORE") || self.is_word("FORCE") {
                if !self.mysql() {
                    return self.err("index hints are MySQL syntax");
                }
                let kind = self.here();
                self.i += 1;
                self.expect_word("INDEX")?;
                let mut h = vec![a(kind)];
                if self.eat_word("FOR") {
                    if self.eat_word("JOIN") {
                        h.push(a("FOR JOIN"));
                    } else if self.eat_word("ORDER") {
                        self.expect_word("BY")?;
                        h.push(a("FOR ORDER BY"));
                    } else {
                        self.expect_word("GROUP")?;
                        self.expect_word("BY")?;
                        h.push(a("FOR GROUP BY"));
                    }
                }
                h.extend(self.ident_list()?);
                out.push(n("index hint", h));
            }
            if self.is_word("TABLESAMPLE") {
                if !self.pg() {
                    return self.err("TABLESAMPLE is Postgres syntax");
                }
                self.i += 1;
                let method = self.here();
                if !(self.eat_word("BERNOULLI") || self.eat_word("SYSTEM")) {
                    return self.err("expected sampling method");
                }
                let arg = self.skip_parens()?;
                let mut t = vec![a(method), a(arg)];
                if self.eat_word("REPEATABLE") {
                    t.push(a(format!("REPEATABLE {}", self.skip_parens()?)));
                }
                out.push(n("TABLESAMPLE", t));
            }
        }
        // joins
        loop {
            let kind = if self.eat_word("JOIN") {
                "JOIN"
            } else if self.is_word("INNER") && self.is_word_n(1, "JOIN") {
                self.i += 2;
                "INNER JOIN"
            } else if self.is_word("CROSS") && self.is_word_n(1, "JOIN") {
                self.i += 2;
                "CROSS JOIN"
            } else if self.is_word("LEFT") && self.is_word_n(1, "JOIN") {
                self.i += 2;
                "LEFT JOIN"
            } else if self.is_word("RIGHT") && self.is_word_n(1, "JOIN") {
                self.i += 2;
                "RIGHT JOIN"
            } else if self.is_word("FULL") && self.is_word_n(1, "OUTER") && self.is_word_n(2, "JOIN") {
                if self.mysql() {
                    return self.err("FULL OUTER JOIN is not MySQL syntax");
                }
                self.i += 3;
                "FULL OUTER JOIN"
            } else {
                break;
            };
            let mut j = vec![a(kind)];
            if self.eat_word("LATERAL") {
                j.push(a("LATERAL"));
            }
            j.push(self.from_item()?);
            if self.is_word("ON") {
                if kind == "CROSS JOIN" && self.pg() {
                    return self.err("Postgres CROSS JOIN takes no ON clause");
                }
                self.i += 1;
                j.push(n("ON", vec![Tree::E(self.expr()?)]));
            } else if kind != "CROSS JOIN" && !self.lite() && !self.mysql() {
                return self.err("join needs an ON clause");
            }
            out.push(n("join", j));
        }
        if self.eat_word("WHERE") {
            out.push(n("WHERE", vec![Tree::E(self.expr()?)]));
        }
        if self.is_word("GROUP") {
            self.i += 1;
            self.expect_word("BY")?;
            out.push(n("GROUP BY", self.expr_list()?));
        }
        if self.eat_word("HAVING") {
            out.push(n("HAVING", vec![Tree::E(self.expr()?)]));
        }
        if self.eat_word("WINDOW") {
            let name = self.ident()?;
            self.expect_word("AS")?;
            self.expect(&Tok::LParen)?;
            let w = self.window_spec()?;
            self.expect(&Tok::RParen)?;
            out.push(n("WINDOW", vec![a(name), w]));
        }
        Ok(out)
    }

    pub fn select_stmt(&mut self) -> R<Tree> {
        let mut out = vec![];
        if self.is_word("WITH") {
            out.push(self.with_clause()?);
        }
        out.extend(self.select_core()?);
        loop {
            let op = if self.is_word("UNION") {
                self.i += 1;
                if self.eat_word("ALL") {
                    "UNION ALL"
                } else {
                    "UNION"
                }
            } else if self.eat_word("INTERSECT") {
                "INTERSECT"
            } else if self.eat_word("EXCEPT") {
                "EXCEPT"
            } else {
                break;
            };
            let operand = if self.peek() == Some(&Tok::LParen) {
                if self.lite() {
                    return self.err("SQLite does not allow parenthesised set-operation operands");
                }
                self.i += 1;
                let s = self.select_stmt()?;
                self.expect(&Tok::RParen)?;
                s
            } else {
                n("select", self.select_core()?)
            };
            out.push(n(op, vec![operand]));
        }
        if self.is_word("ORDER") {
            self.i += 1;
            self.expect_word("BY")?;
            out.push(n("ORDER BY", self.order_list()?));
        }
        if self.eat_word("LIMIT") {
            out.push(n("LIMIT", vec![Tree::E(self.expr()?)]));
            if self.eat_word("OFFSET") {
                out.push(n("OFFSET", vec![Tree::E(self.expr()?)]));
            }
        } else if self.is_word("OFFSET") {
            if !self.pg() {
                return self.err("OFFSET without LIMIT is not valid in this dialect");
            }
            self.i += 1;
            out.push(n("OFFSET", vec![Tree::E(self.expr()?)]));
        }
        if self.is_word("FOR") {
            if self.lite() {
                return self.err("locking clauses are not SQLite syntax");
            }
            self.i += 1;
            let kind = if self.eat_word("UPDATE") {
                "UPDATE"
            } else if self.eat_word("SHARE") {
                "SHARE"
            } else if self.is_word("NO") && self.pg() {
                self.i += 1;
                self.expect_word("KEY")?;
                self.expect_word("UPDATE")?;
                "NO KEY UPDATE"
            } else if self.is_word("KEY") && self.pg() {
                self.i += 1;
                self.expect_word("SHARE")?;
                "KEY SHARE"
            } else {
                return self.err("bad lock strength");
            };
            let mut l = vec![a(kind)];
            if self.eat_word("OF") {
                let mut ts = vec![self.qname()?];
                while self.eat(&Tok::Comma) {
                    ts.push(self.qname()?);
                }
                l.push(n("OF", ts));
            }
            if self.eat_word("NOWAIT") {
                l.push(a("NOWAIT"));
            } else if self.eat_word("SKIP") {
                self.expect_word("LOCKED")?;
                l.push(a("SKIP LOCKED"));
            }
            out.push(n("lock", l));
        }
        Ok(n("select", out))
    }

    fn returning(&mut self, out: &mut Vec<Tree>) -> R<()> {
        if self.is_word("RETURNING") {
            if self.mysql() {
                return self.err("RETURNING is not MySQL syntax");
            }
            self.i += 1;
            out.push(n("RETURNING", self.expr_list()?));
        }
        Ok(())
    }

    fn insert_stmt(&mut self, mut out: Vec<Tree>) -> R<Tree> {
        if self.eat_word("REPLACE") {
            if self.pg() {
                return self.err("REPLACE is not Postgres syntax");
            }
            out.push(a("REPLACE"));
        } else {
            self.expect_word("INSERT")?;
        }
        self.expect_word("INTO")?;
        out.push(n("table", vec![self.qname()?]));
        if self.is_word("DEFAULT") {
            if !self.lite() && !self.pg() {
                return self.err("DEFAULT VALUES is not MySQL syntax");
            }
            self.i += 1;
            self.expect_word("VALUES")?;
            out.push(a("DEFAULT VALUES"));
        } else if self.is_word("VALUES") {
            // default rows: MySQL `VALUES (), ()`, Postgres `VALUES (DEFAULT), ..`
            self.i += 1;
            let mut rows = 0;
            loop {
                self.expect(&Tok::LParen)?;
                if self.mysql() {
                    self.expect(&Tok::RParen)?;
                } else if self.pg() {
                    self.expect_word("DEFAULT")?;
                    self.expect(&Tok::RParen)?;
                } else {
                    return self.err("INSERT without a column list needs DEFAULT VALUES in SQLite");
                }
                rows += 1;
                if self.eat(&Tok::Comma) {
                    continue;
                }
                break;
            }
            out.push(a(format!("default rows x{rows}")));
        } else {
            out.push(n("columns", self.ident_list()?));
            if self.eat_word("VALUES") {
                let mut rows = vec![];
                loop {
                    self.expect(&Tok::LParen)?;
                    let cells = self.expr_list()?;
                    self.expect(&Tok::RParen)?;
                    rows.push(n("row", cells));
                    if self.eat(&Tok::Comma) {
                        continue;
                    }
                    break;
                }
                out.push(n("VALUES", rows));
            } else if self.is_word("SELECT") || self.is_word("WITH") {
                out.push(self.select_stmt()?);
            }
        }
        if self.is_word("ON") {
            self.i += 1;
            if self.eat_word("DUPLICATE") {
                if !self.mysql() {
                    return self.err("ON DUPLICATE KEY is MySQL syntax");
                }
                self.expect_word("KEY")?;
                self.expect_word("UPDATE")?;
                let mut asg = vec![];
                loop {
                    let c = self.ident()?;
                    self.expect(&Tok::Op("=".into()))?;
                    asg.push(n("assign", vec![a(c), Tree::E(self.expr()?)]));
                    if self.eat(&Tok::Comma) {
                        continue;
                    }
                    break;
                }
                out.push(n("ON DUPLICATE KEY UPDATE", asg));
            } else {
                self.expect_word("CONFLICT")?;
                if self.mysql() {
                    return self.err("ON CONFLICT is not MySQL syntax");
                }
                let mut c = vec![];
                if self.peek() == Some(&Tok::LParen) {
                    self.i += 1;
                    let t = self.expr_list()?;
                    self.expect(&Tok::RParen)?;
                    c.push(n("target", t));
                    if self.eat_word("WHERE") {
                        c.push(n("target WHERE", vec![Tree::E(self.expr()?)]));
                    }
                }
                self.expect_word("DO")?;
                if self.eat_word("NOTHING") {
                    c.push(a("DO NOTHING"));
                } else {
                    self.expect_word("UPDATE")?;
                    self.expect_word("SET")?;
                    let mut asg = vec![];
                    loop {
                        let col = self.ident()?;
                        self.expect(&Tok::Op("=".into()))?;
                        asg.push(n("assign", vec![a(col), Tree::E(self.expr()?)]));
                        if self.eat(&Tok::Comma) {
                            continue;
                        }
                        break;
                    }
                    c.push(n("DO UPDATE SET", asg));
                    if self.eat_word("WHERE") {
                        c.push(n("action WHERE", vec![Tree::E(self.expr()?)]));
                    }
                }
                out.push(n("ON CONFLICT", c));
            }
        }
        self.returning(&mut out)?;
        Ok(n("insert", out))
    }

    fn update_stmt(&mut self, mut out: Vec<Tree>) -> R<Tree> {
        self.expect_word("UPDATE")?;
        let mut target = vec![self.qname()?];
        if self.eat_word("AS") {
            target.push(n("AS", vec![a(self.ident()?)]));
        }
        out.push(n("table", target));
        if self.is_word("JOIN") {
            if !self.mysql() {
                return self.err("UPDATE .. JOIN is MySQL syntax");
            }
            self.i += 1;
            let f = self.from_item()?;
            let mut j = vec![f];
            if self.eat_word("ON") {
                j.push(n("ON", vec![Tree::E(self.expr()?)]));
            }
            out.push(n("JOIN", j));
        }
        self.expect_word("SET")?;
        let mut asg = vec![];
        loop {
            let col = self.qname()?;
            self.expect(&Tok::Op("=".into()))?;
            asg.push(n("assign", vec![col, Tree::E(self.expr()?)]));
            if self.eat(&Tok::Comma) {
                continue;
            }
            break;
        }
        out.push(n("SET", asg));
        if self.is_word("FROM") {
            if self.mysql() {
                return self.err("UPDATE .. FROM is not MySQL syntax");
            }
            self.i += 1;
            let mut fs = vec![self.from_item()?];
            while self.eat(&Tok::Comma) {
                fs.push(self.from_item()?);
            }
            out.push(n("FROM", fs));
        }
        if self.eat_word("WHERE") {
            out.push(n("WHERE", vec![Tree::E(self.expr()?)]));
        }
        if self.lite() {
            self.returning(&mut out)?;
        }
        self.dml_tail(&mut out)?;
        if !self.lite() {
            self.returning(&mut out)?;
        }
        Ok(n("update", out))
    }

    fn dml_tail(&mut self, out: &mut Vec<Tree>) -> R<()> {
        if self.is_word("ORDER") {
            if self.pg() {
                return self.err("ORDER BY on UPDATE/DELETE is not Postgres syntax");
            }
            self.i += 1;
            self.expect_word("BY")?;
            out.push(n("ORDER BY", self.order_list()?));
        }
        if self.is_word("LIMIT") {
            if self.pg() {
                return self.err("LIMIT on UPDATE/DELETE is not Postgres syntax");
            }
            self.i += 1;
            out.push(n("LIMIT", vec![Tree::E(self.expr()?)]));
        }
        Ok(())
    }

    fn delete_stmt(&mut self, mut out: Vec<Tree>) -> R<Tree> {
        self.expect_word("DELETE")?;
        self.expect_word("FROM")?;
        let mut target = vec![self.qname()?];
        if self.eat_word("AS") {
            target.push(n("AS", vec![a(self.ident()?)]));
        }
        out.push(n("table", target));
        if self.eat_word("WHERE") {
            out.push(n("WHERE", vec![Tree::E(self.expr()?)]));
        }
        if self.lite() {
            self.returning(&mut out)?;
        }
        self.dml_tail(&mut out)?;
        if !self.lite() {
            self.returning(&mut out)?;
        }
        Ok(n("delete", out))
    }

    /// Any statement (optionally preceded by a WITH clause).
    pub fn statement(&mut self) -> R<Tree> {
        if self.is_word("WITH") {
            // WITH may precede any statement kind; for SELECT it is part of select_stmt
            let save = self.i;
            let w = self.with_clause()?;
            if self.is_word("SELECT") {
                self.i = save;
                return self.select_stmt();
            }
            if self.mysql() && (self.is_word("INSERT") || self.is_word("REPLACE")) {
                return self.err("MySQL does not allow WITH in front of INSERT");
            }
            return self.dml(vec![w]);
        }
        if self.is_word("SELECT") {
            return self.select_stmt();
        }
        self.dml(vec![])
    }

    fn dml(&mut self, pre: Vec<Tree>) -> R<Tree> {
        if self.is_word("INSERT") || self.is_word("REPLACE") {
            self.insert_stmt(pre)
        } else if self.is_word("UPDATE") {
            self.update_stmt(pre)
        } else if self.is_word("DELETE") {
            self.delete_stmt(pre)
        } else {
            self.err(format!("expected a statement, found {}", self.here()))
        }
    }
}

/// Parse a complete statement; all tokens must be consumed.
pub fn parse_statement(d: Dialect, toks: &[Token]) -> Result<Tree, ParseErr> {
    let mut p = P::new(d, toks);
    p.parse_subqueries = true;
    let t = p.statement()?;
    if !p.eof() {
        return p.err(format!("trailing tokens after statement: {}", p.here()));
    }
    Ok(t)
}
