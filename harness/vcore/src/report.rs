//! Per-run report: what the monitors observed. Shards produce one each; they
//! are merged and written as a JSON "part" that the `check` driver turns into
//! /verif/evidence/<ID>.json.

use serde_json::{json, Map, Value as J};
use std::collections::{BTreeMap, BTreeSet, HashSet};

#[derive(Clone, Debug)]
pub struct Violation {
    /// oracle rule id, e.g. "R.subst"
    pub rule: String,
    /// normalised witness used to match known findings (exact match)
    pub sig: String,
    /// backend or configuration ("mysql", "postgres", "sqlite", "-")
    pub backend: String,
    /// free-form details: inputs, observed, expected
    pub detail: J,
    /// (shard, case) that produced it — enough to regenerate the case
    pub shard: u64,
    pub case: u64,
}

#[derive(Default, Debug)]
pub struct Report {
    pub evaluations: u64,
    /// fingerprints of distinct non-trivial cases
    pub distinct: HashSet<u64>,
    pub counters: BTreeMap<String, u64>,
    pub samples: Vec<J>,
    pub violations: Vec<Violation>,
    /// reasons for inconclusive cases (count per reason)
    pub inconclusive: BTreeMap<String, u64>,
    /// free-form named sets (e.g. operator pairs seen)
    pub sets: BTreeMap<String, BTreeSet<String>>,
    pub exhaustive_parts: Vec<String>,
    pub max_samples: usize,
    pub seen_sigs: HashSet<String>,
}

impl Report {
    pub fn new() -> Self {
        Report {
            max_samples: 6,
            ..Default::default()
        }
    }

    pub fn count(&mut self, key: &str, n: u64) {
        *self.counters.entry(key.to_string()).or_insert(0) += n;
    }

    pub fn max(&mut self, key: &str, n: u64) {
        let e = self.counters.entry(key.to_string()).or_insert(0);
        if n > *e {
            *e = n;
        }
    }

    pub fn note(&mut self, set: &str, item: impl Into<String>) {
        let s = self.sets.entry(set.to_string()).or_default();
        if s.len() < 5000 {
            s.insert(item.into());
        }
    }

    pub fn eval(&mut self) {
        self.evaluations += 1;
    }

    pub fn nontrivial(&mut self, fingerprint: u64) {
        // bounded memory: beyond the cap the count is conservative (an under-count)
        if self.distinct.len() < 1_500_000 {
            self.distinct.insert(fingerprint);
        } else {
            self.count("distinct_cap_reached", 1);
        }
    }

    pub fn sample(&mut self, j: J) {
        if self.samples.len() < self.max_samples {
            self.samples.push(j);
        }
    }

    pub fn inconclusive(&mut self, reason: &str) {
        *self.inconclusive.entry(reason.to_string()).or_insert(0) += 1;
    }

    pub fn violation(
        &mut self,
        rule: &str,
        backend: &str,
        sig: impl Into<String>,
        detail: J,
        shard: u64,
        case: u64,
    ) {
        // every violation is counted; one witness is retained per distinct
        // (rule, backend, signature), up to 3000 distinct signatures
        self.count("violations_total", 1);
        let sig = sig.into();
        let key = format!("{rule}\u{1}{backend}\u{1}{sig}");
        if self.seen_sigs.contains(&key) {
            return;
        }
        if self.violations.len() < 3000 {
            self.seen_sigs.insert(key);
            self.violations.push(Violation {
                rule: rule.to_string(),
                sig,
                backend: backend.to_string(),
                detail,
                shard,
                case,
            });
        }
    }

    pub fn merge(&mut self, other: Report) {
        self.evaluations += other.evaluations;
        self.distinct.extend(other.distinct);
        for (k, v) in other.counters {
            if k.starts_with("max_") {
                let e = self.counters.entry(k).or_insert(0);
                if v > *e {
                    *e = v;
                }
            } else {
                *self.counters.entry(k).or_insert(0) += v;
            }
        }
        for s in other.samples {
            if self.samples.len() < self.max_samples.max(6) {
                self.samples.push(s);
            }
        }
        for v in other.violations {
            let key = format!("{}\u{1}{}\u{1}{}", v.rule, v.backend, v.sig);
            if self.violations.len() < 3000 && self.seen_sigs.insert(key) {
                self.violations.push(v);
            }
        }
        for (k, v) in other.inconclusive {
            *self.inconclusive.entry(k).or_insert(0) += v;
        }
        for (k, v) in other.sets {
            self.sets.entry(k).or_default().extend(v);
        }
        for p in other.exhaustive_parts {
            if !self.exhaustive_parts.contains(&p) {
                self.exhaustive_parts.push(p);
            }
        }
    }

    pub fn to_json(&self) -> J {
        let mut counters = Map::new();
        for (k, v) in &self.counters {
            counters.insert(k.clone(), json!(v));
        }
        let mut sets = Map::new();
        for (k, v) in &self.sets {
            let items: Vec<&String> = v.iter().take(400).collect();
            sets.insert(
                k.clone(),
                json!({"distinct": v.len(), "items": items}),
            );
        }
        let mut inc = Map::new();
        for (k, v) in &self.inconclusive {
            inc.insert(k.clone(), json!(v));
        }
        json!({
            "evaluations": self.evaluations,
            "distinct_nontrivial": self.distinct.len(),
            "counters": counters,
            "observed_sets": sets,
            "samples": self.samples,
            "inconclusive": inc,
            "exhaustive_parts": self.exhaustive_parts,
        })
    }
}

impl Violation {
    pub fn to_json(&self) -> J {
        json!({
            "rule": self.rule,
            "backend": self.backend,
            "signature": self.sig,
            "shard": self.shard,
            "case": self.case,
            "detail": self.detail,
        })
    }
}
