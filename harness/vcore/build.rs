fn main() {
    if std::env::var("CARGO_FEATURE_SQLITE").is_ok() {
        println!("cargo:rustc-link-search=native=/usr/lib/x86_64-linux-gnu");
        println!("cargo:rustc-link-lib=dylib=sqlite3");
    }
}
