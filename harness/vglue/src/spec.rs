//! Statement specs: the harness's own AST of *builder calls*. One spec is applied
//! to the real fluent API (apply.rs), rendered by the independent reference
//! renderer (refsql.rs) and fingerprinted.

use crate::xspec::X;
use sea_query::Value;

#[derive(Clone, Debug, PartialEq)]
pub enum From_ {
    /// table name, optional alias
    Table(String, Option<String>),
    /// schema-qualified table (text-level workloads only)
    SchemaTable(String, String, Option<String>),
    Sub(Box<Sel>, String),
    /// VALUES list: rows of values, alias
    Values(Vec<Vec<Value>>, String),
    /// table function: name, arguments, alias
    Func(String, Vec<X>, String),
}

impl From_ {
    /// the name other clauses use to refer to this relation
    pub fn name(&self) -> &str {
        match self {
            From_::Table(t, a) => a.as_deref().unwrap_or(t),
            From_::SchemaTable(_, t, a) => a.as_deref().unwrap_or(t),
            From_::Sub(_, a) => a,
            From_::Values(_, a) => a,
            From_::Func(_, _, a) => a,
        }
    }
}

#[derive(Clone, Copy, Debug, PartialEq, Eq, Hash)]
pub enum JoinKind {
    Join,
    Inner,
    Left,
    Right,
    Full,
    Cross,
}

#[derive(Clone, Debug, PartialEq)]
pub struct Join {
    pub kind: JoinKind,
    pub from: From_,
    pub on: Vec<X>,
    pub lateral: bool,
}

#[derive(Clone, Debug, PartialEq)]
pub enum Dir {
    Asc,
    Desc,
    /// Order::Field(values)
    Field(Vec<Value>),
}

#[derive(Clone, Debug, PartialEq)]
pub struct Ord_ {
    pub expr: X,
    pub dir: Dir,
    /// Some(true) = NULLS FIRST, Some(false) = NULLS LAST
    pub nulls_first: Option<bool>,
}

#[derive(Clone, Copy, Debug, PartialEq, Eq, Hash)]
pub enum SetOp {
    Union,
    UnionAll,
    Intersect,
    Except,
}

#[derive(Clone, Debug, PartialEq)]
pub enum FrameBound {
    UnboundedPreceding,
    Preceding(u32),
    CurrentRow,
    Following(u32),
    UnboundedFollowing,
}

#[derive(Clone, Debug, PartialEq)]
pub struct Win {
    pub partition: Vec<X>,
    pub order: Vec<Ord_>,
    /// (rows? else range, start, end)
    pub frame: Option<(bool, FrameBound, Option<FrameBound>)>,
}

#[derive(Clone, Debug, PartialEq)]
pub enum WinRef {
    Inline(Win),
    Named(String),
}

#[derive(Clone, Debug, PartialEq)]
pub struct Item {
    pub expr: X,
    pub alias: Option<String>,
    pub window: Option<WinRef>,
}

#[derive(Clone, Copy, Debug, PartialEq, Eq, Hash)]
pub enum LockKind {
    Update,
    Share,
    NoKeyUpdate,
    KeyShare,
}

#[derive(Clone, Debug, PartialEq)]
pub struct Lock {
    pub kind: LockKind,
    pub of: Vec<String>,
    /// Some(true) = NOWAIT, Some(false) = SKIP LOCKED
    pub nowait: Option<bool>,
}

#[derive(Clone, Debug, PartialEq)]
pub enum Distinct {
    All,
    Distinct,
    /// MySQL
    DistinctRow,
    /// Postgres: DISTINCT ON (columns: (table, col))
    On(Vec<(String, String)>),
}

#[derive(Clone, Debug, PartialEq)]
pub enum CteBody {
    Sel(Sel),
    Ins(Ins),
    Upd(Upd),
    Del(Del),
}

#[derive(Clone, Debug, PartialEq)]
pub struct Cte {
    pub name: String,
    pub cols: Vec<String>,
    /// built with `CommonTableExpression::from_select`: the column list is inferred from the select list
    /// (all items named -> their names, otherwise none); `cols` is empty then
    pub infer: bool,
    pub body: Box<CteBody>,
    pub materialized: Option<bool>,
}

#[derive(Clone, Debug, PartialEq, Default)]
pub struct With {
    pub recursive: bool,
    pub ctes: Vec<Cte>,
    /// Postgres SEARCH (breadth?, by column, set alias)
    pub search: Option<(bool, String, String)>,
    /// Postgres CYCLE (column, set alias, using alias)
    pub cycle: Option<(String, String, String)>,
}

#[derive(Clone, Debug, PartialEq, Default)]
pub struct Sel {
    pub with: Option<With>,
    pub distinct: Option<Distinct>,
    pub items: Vec<Item>,
    pub from: Vec<From_>,
    pub joins: Vec<Join>,
    pub wheres: Vec<X>,
    pub groups: Vec<X>,
    pub havings: Vec<X>,
    pub unions: Vec<(SetOp, Sel)>,
    pub orders: Vec<Ord_>,
    pub limit: Option<u64>,
    pub offset: Option<u64>,
    pub lock: Option<Lock>,
    pub window: Option<(String, Win)>,
    /// MySQL index hints: (kind 0 use /1 ignore /2 force, scope 0 all/1 join/2 order/3 group, index)
    pub index_hints: Vec<(u8, u8, String)>,
    /// Postgres TABLESAMPLE (system?, percentage, repeatable)
    pub sample: Option<(bool, f64, Option<f64>)>,
    /// names of the output columns (filled by the generator; used for ORDER BY / set operations)
    pub out: Vec<String>,
    /// the ORDER BY makes the row order total
    pub total_order: bool,
    /// expressions over the FROM scope that may serve as ORDER BY keys (generator metadata, like `out`)
    pub order_exprs: Vec<X>,
}

#[derive(Clone, Debug, PartialEq)]
pub enum Returning {
    All,
    Cols(Vec<String>),
    Exprs(Vec<X>),
}

#[derive(Clone, Debug, PartialEq)]
pub enum ConflictAction {
    Nothing,
    /// MySQL-friendly do_nothing_on(keys)
    NothingOn(Vec<String>),
    /// update_columns
    UpdateCols(Vec<String>),
    /// value(col, expr)
    UpdateExprs(Vec<(String, X)>),
}

#[derive(Clone, Debug, PartialEq)]
pub struct Conflict {
    pub target_cols: Vec<String>,
    pub target_exprs: Vec<X>,
    pub target_where: Vec<X>,
    pub action: Option<ConflictAction>,
    pub action_where: Vec<X>,
}

#[derive(Clone, Debug, PartialEq)]
pub enum InsSource {
    Values(Vec<Vec<X>>),
    Select(Box<Sel>),
    /// or_default_values_many(n)
    Default(u32),
}

#[derive(Clone, Debug, PartialEq)]
pub struct Ins {
    pub with: Option<With>,
    pub replace: bool,
    pub table: String,
    pub cols: Vec<String>,
    pub source: InsSource,
    pub conflict: Option<Conflict>,
    pub returning: Option<Returning>,
}

#[derive(Clone, Debug, PartialEq)]
pub struct Upd {
    pub with: Option<With>,
    pub table: String,
    /// alias of the target table (`UPDATE t AS g ..`)
    pub alias: Option<String>,
    pub sets: Vec<(String, X)>,
    pub from: Vec<From_>,
    pub wheres: Vec<X>,
    pub orders: Vec<Ord_>,
    pub limit: Option<u64>,
    pub returning: Option<Returning>,
}

#[derive(Clone, Debug, PartialEq)]
pub struct Del {
    pub with: Option<With>,
    pub table: String,
    /// alias of the target table (`DELETE FROM t AS g ..`)
    pub alias: Option<String>,
    pub wheres: Vec<X>,
    pub orders: Vec<Ord_>,
    pub limit: Option<u64>,
    pub returning: Option<Returning>,
}

#[derive(Clone, Debug, PartialEq)]
pub enum Stmt {
    Sel(Sel),
    Ins(Ins),
    Upd(Upd),
    Del(Del),
}

impl Stmt {
    pub fn kind(&self) -> &'static str {
        match self {
            Stmt::Sel(_) => "select",
            Stmt::Ins(_) => "insert",
            Stmt::Upd(_) => "update",
            Stmt::Del(_) => "delete",
        }
    }
}
