//! Rendering helpers: the TraceWriter (records the text / parameter event stream
//! of one build at the public `SqlWriter` boundary) and all public rendering
//! entry points of a statement.

use crate::util::Dialect;
use sea_query::*;
use std::fmt::Write;

#[derive(Debug, Clone)]
pub enum Ev {
    Text(String),
    Param(Value),
}

#[derive(Default)]
pub struct TraceWriter {
    pub events: Vec<Ev>,
}

impl Write for TraceWriter {
    fn write_str(&mut self, s: &str) -> std::fmt::Result {
        self.events.push(Ev::Text(s.to_string()));
        Ok(())
    }
}

impl std::fmt::Display for TraceWriter {
    fn fmt(&self, f: &mut std::fmt::Formatter<'_>) -> std::fmt::Result {
        for e in &self.events {
            if let Ev::Text(t) = e {
                write!(f, "{t}")?;
            }
        }
        Ok(())
    }
}

impl SqlWriter for TraceWriter {
    fn push_param(&mut self, value: Value, _: &dyn QueryBuilder) {
        self.events.push(Ev::Param(value));
    }
    fn as_writer(&mut self) -> &mut dyn Write {
        self as _
    }
}

impl TraceWriter {
    /// SQL text with the i-th parameter event replaced by the dialect's i-th placeholder, and the values.
    pub fn reconstruct(&self, d: Dialect) -> (String, Vec<Value>) {
        let mut s = String::new();
        let mut vals = vec![];
        for e in &self.events {
            match e {
                Ev::Text(t) => s.push_str(t),
                Ev::Param(v) => {
                    vals.push(v.clone());
                    match d {
                        Dialect::Postgres => s.push_str(&format!("${}", vals.len())),
                        _ => s.push('?'),
                    }
                }
            }
        }
        (s, vals)
    }
    pub fn param_events(&self) -> usize {
        self.events.iter().filter(|e| matches!(e, Ev::Param(_))).count()
    }
}

/// Every inline entry point (label, text) and every parameterised entry point (label, text, values).
pub struct Renderings {
    pub inline: Vec<(&'static str, String)>,
    pub param: Vec<(&'static str, String, Vec<Value>)>,
}

fn all_with<T: QueryStatementWriter, B: QueryBuilder + Default>(s: &T, _b: B, ph: (&str, bool)) -> Renderings {
    let mut inline = vec![];
    inline.push(("to_string(trait)", QueryStatementWriter::to_string(s, B::default())));
    let mut w = String::new();
    let r = QueryStatementWriter::build_collect(s, B::default(), &mut w);
    inline.push(("build_collect(String)", r));
    let mut w = String::new();
    QueryStatementWriter::build_collect_into(s, B::default(), &mut w);
    inline.push(("build_collect_into(String)", w));
    let mut w = String::new();
    let r = QueryStatementBuilder::build_collect_any(s, &B::default(), &mut w);
    inline.push(("build_collect_any(String)", r));
    let mut w = String::new();
    QueryStatementBuilder::build_collect_any_into(s, &B::default(), &mut w);
    inline.push(("build_collect_any_into(String)", w));

    let mut param = vec![];
    let (q, v) = QueryStatementWriter::build(s, B::default());
    param.push(("build(trait)", q, v.0));
    let (q, v) = QueryStatementBuilder::build_any(s, &B::default());
    param.push(("build_any", q, v.0));
    let mut w = SqlWriterValues::new(ph.0, ph.1);
    QueryStatementWriter::build_collect_into(s, B::default(), &mut w);
    let (q, v) = w.into_parts();
    param.push(("build_collect_into(SqlWriterValues)", q, v.0));
    let mut w = SqlWriterValues::new(ph.0, ph.1);
    let returned = QueryStatementBuilder::build_collect_any(s, &B::default(), &mut w);
    let (q, v) = w.into_parts();
    param.push(("build_collect_any(SqlWriterValues) return value", returned, v.0.clone()));
    param.push(("build_collect_any(SqlWriterValues) writer", q, v.0));
    Renderings { inline, param }
}

pub fn all_entry_points<T: QueryStatementWriter>(s: &T, d: Dialect) -> Renderings {
    match d {
        Dialect::Mysql => all_with(s, MysqlQueryBuilder, ("?", false)),
        Dialect::Postgres => all_with(s, PostgresQueryBuilder, ("$", true)),
        Dialect::Sqlite => all_with(s, SqliteQueryBuilder, ("?", false)),
    }
}

/// Inherent (non-trait) forms, which `#[inherent]` generates separately.
pub fn inherent_forms(b: &crate::apply::Built, d: Dialect) -> (String, String, Vec<Value>) {
    use crate::apply::Built;
    macro_rules! go {
        ($s:expr, $qb:expr) => {{
            let i = $s.to_string($qb);
            let (p, v) = $s.build($qb);
            (i, p, v.0)
        }};
    }
    macro_rules! each {
        ($qb:expr) => {
            match b {
                Built::Sel(s) => go!(s, $qb),
                Built::Ins(s) => go!(s, $qb),
                Built::Upd(s) => go!(s, $qb),
                Built::Del(s) => go!(s, $qb),
                Built::With(s) => go!(s, $qb),
            }
        };
    }
    match d {
        Dialect::Mysql => each!(MysqlQueryBuilder),
        Dialect::Postgres => each!(PostgresQueryBuilder),
        Dialect::Sqlite => each!(SqliteQueryBuilder),
    }
}

pub fn trace(b: &crate::apply::Built, d: Dialect) -> TraceWriter {
    let mut t = TraceWriter::default();
    b.as_dyn().build_collect_any_into(crate::util::qb(d), &mut t);
    t
}

pub fn entry_points_of(b: &crate::apply::Built, d: Dialect) -> Renderings {
    use crate::apply::Built;
    match b {
        Built::Sel(s) => all_entry_points(s, d),
        Built::Ins(s) => all_entry_points(s, d),
        Built::Upd(s) => all_entry_points(s, d),
        Built::Del(s) => all_entry_points(s, d),
        Built::With(s) => all_entry_points(s, d),
    }
}
