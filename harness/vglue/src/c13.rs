//! C13 — SQLite schema statements create exactly the declared schema.
//! Every generated schema statement is executed on the real engine and the
//! engine's catalogue (PRAGMA table_xinfo / index_list / index_xinfo /
//! foreign_key_list / sqlite_master) plus behavioural probes are compared with
//! the declaration.

use crate::ddl::*;
use crate::util::*;
use sea_query::*;
use serde_json::json;
use vcore::lex::{lex, sqlite_ident, sqlite_str};
use vcore::prng::{hash_str, Rng};
use vcore::px::{parse_expr, PX};
use vcore::report::Report;
use vcore::run::{guard, panic_sig, Ctx};
use vcore::sqlite::{Db, SqlVal};

/// the abstract types SQLite's renderer accepts, plus a custom type (its name is the declared type)
fn lite_types() -> Vec<Ty> {
    let mut v = sqlite_types();
    v.push(Ty::Custom("geometry".into()));
    v
}

/// SQLite's five affinity rules applied to a declared type name.
fn affinity_of_decl(decl: &str) -> Aff {
    let u = decl.to_ascii_uppercase();
    if u.contains("INT") {
        Aff::Integer
    } else if u.contains("CHAR") || u.contains("CLOB") || u.contains("TEXT") {
        Aff::Text
    } else if u.contains("BLOB") || u.is_empty() {
        Aff::Blob
    } else if u.contains("REAL") || u.contains("FLOA") || u.contains("DOUB") {
        Aff::Real
    } else {
        Aff::Numeric
    }
}

/// Behavioural classification: store '12' (text) and 12.5 (real) and read typeof().
fn affinity_by_probe(db: &Db, table: &str, col: &str) -> Result<Aff, String> {
    let q = |lit: &str| -> Result<String, String> {
        db.exec("SAVEPOINT aff").map_err(|e| e.msg)?;
        let r = (|| {
            db.exec(&format!("DELETE FROM {}", sqlite_ident(table)))?;
            db.exec(&format!("INSERT INTO {}({}) VALUES ({lit})", sqlite_ident(table), sqlite_ident(col)))?;
            db.rows(&format!("SELECT typeof({}) FROM {}", sqlite_ident(col), sqlite_ident(table)))
        })();
        let _ = db.exec("ROLLBACK TO aff");
        let _ = db.exec("RELEASE aff");
        match r {
            Ok(rows) => match rows.first().and_then(|r| r.first()) {
                Some(SqlVal::Text(t)) => Ok(String::from_utf8_lossy(t).into_owned()),
                other => Err(format!("typeof gave {other:?}")),
            },
            Err(e) => Err(e.msg),
        }
    };
    let a = q("'12'")?;
    let b = q("12.5")?;
    let c = q("'abc'")?;
    Ok(match (a.as_str(), b.as_str(), c.as_str()) {
        ("text", "text", _) => Aff::Text,
        ("text", "real", _) => Aff::Blob,
        ("integer", "real", "text") => Aff::Integer, // INTEGER and NUMERIC behave alike when storing
        ("real", "real", _) => Aff::Real,
        _ => return Err(format!("unclassifiable probe result {a}/{b}/{c}")),
    })
}

fn defval_sql(v: &DefVal) -> Option<SqlVal> {
    Some(match v {
        DefVal::Int(i) => SqlVal::Int(*i),
        DefVal::Text(t) => SqlVal::text(t),
        DefVal::Real(f) => SqlVal::Real(*f),
        DefVal::Bool(b) => SqlVal::Int(*b as i64),
        DefVal::Null => SqlVal::Null,
        DefVal::CurrentTimestamp => return None,
        DefVal::Bytes(b) => SqlVal::Blob(b.clone()),
        DefVal::Json(t) => SqlVal::text(&json_default(t).to_string()),
    })
}

// ---- the declared catalogue (model) ---------------------------------------------

#[derive(Clone, Debug, PartialEq)]
struct MIndex {
    name: String,
    table: String,
    unique: bool,
    cols: Vec<(String, bool)>,
    filter: Option<(String, i64)>,
    filter_more: Vec<i64>,
}

#[derive(Clone, Debug, Default)]
struct Model {
    tables: Vec<Tbl>,
    indexes: Vec<MIndex>,
}

fn spec_sig(c: &Col) -> String {
    let s: Vec<String> = c
        .specs
        .iter()
        .map(|s| match s {
            CS::Default(d) => format!("Default({})", match d {
                DefVal::Int(_) => "int",
                DefVal::Text(_) => "text",
                DefVal::Real(_) => "real",
                DefVal::Bool(_) => "bool",
                DefVal::Null => "null",
                DefVal::CurrentTimestamp => "current_timestamp",
                DefVal::Bytes(_) => "bytes",
                DefVal::Json(_) => "json",
            }),
            CS::Check(_) => "Check".into(),
            CS::CheckLt(_) => "Check<".into(),
            CS::Generated(_, st) => format!("Generated({})", if *st { "stored" } else { "virtual" }),
            other => format!("{other:?}"),
        })
        .collect();
    format!("{} [{}]", ty_label(&c.ty), s.join(","))
}

fn ty_label(t: &Ty) -> String {
    format!("{t:?}").split('(').next().unwrap_or("").to_string()
}

struct Chk<'a> {
    ctx: &'a Ctx,
    n: u64,
}

impl<'a> Chk<'a> {
    fn viol(&self, rep: &mut Report, rule: &str, sig: String, detail: serde_json::Value) {
        rep.violation(rule, "sqlite", sig, detail, self.ctx.shard, self.n);
    }
}

fn text_of(v: &SqlVal) -> String {
    match v {
        SqlVal::Text(t) => String::from_utf8_lossy(t).into_owned(),
        SqlVal::Int(i) => i.to_string(),
        SqlVal::Null => String::new(),
        o => o.show(),
    }
}
fn int_of(v: &SqlVal) -> i64 {
    if let SqlVal::Int(i) = v {
        *i
    } else {
        -1
    }
}

/// Compare the engine's catalogue of table `t` with its declaration. Returns false on violation.
fn check_table(chk: &Chk, rep: &mut Report, db: &Db, t: &Tbl, model: &Model, sql: &str) -> bool {
    let tn = sqlite_str(&t.name);
    let rows = match db.rows(&format!("SELECT cid, name, type, \"notnull\", dflt_value, pk, hidden FROM pragma_table_xinfo({tn}) ORDER BY cid")) {
        Ok(r) => r,
        Err(e) => {
            chk.viol(rep, "R.catalogue", "table_xinfo failed".into(), json!({"error": e.msg, "sql": sql}));
            return false;
        }
    };
    let names: Vec<String> = rows.iter().map(|r| text_of(&r[1])).collect();
    let want_names: Vec<String> = t.cols.iter().map(|c| c.name.clone()).collect();
    if names != want_names {
        chk.viol(rep, "R.catalogue", "column list differs".into(), json!({"declared": want_names, "engine": names, "sql": sql}));
        return false;
    }
    // table-level primary key positions
    let tpk: Vec<String> = t.indexes.iter().find(|i| i.primary).map(|i| i.cols.iter().map(|c| c.0.clone()).collect()).unwrap_or_default();
    for (c, r) in t.cols.iter().zip(rows.iter()) {
        rep.count("columns_introspected", 1);
        let decl = text_of(&r[2]);
        // `option-sqlite-exact-column-type`: every integer type is spelled exactly `integer` (so that a
        // primary key of any integer type is the rowid)
        if cfg!(feature = "exact") && matches!(c.ty, Ty::TinyInt | Ty::SmallInt | Ty::Int | Ty::BigInt | Ty::TinyU | Ty::SmallU | Ty::Unsigned | Ty::BigU) && !c.has(|s| matches!(s, CS::Generated(..))) {
            rep.count("exact_integer_types_checked", 1);
            if !decl.eq_ignore_ascii_case("integer") {
                chk.viol(rep, "R.affinity", format!("{} is not declared `integer` under option-sqlite-exact-column-type", ty_label(&c.ty)), json!({"column": c.name, "declared_type": decl, "sql": sql}));
                return false;
            }
        }
        if let Ty::Custom(w) = &c.ty {
            rep.count("custom_types_checked", 1);
            if decl != *w {
                chk.viol(rep, "R.affinity", "a custom type is not declared under its own name".into(), json!({"column": c.name, "declared_type": decl, "custom": w, "sql": sql}));
                return false;
            }
        }
        // affinity carried by the declared type name
        if let Some(want) = c.ty.sqlite_affinity() {
            let got = affinity_of_decl(&decl);
            if got != want {
                chk.viol(rep, "R.affinity", format!("{} declared as a type of {:?} affinity", ty_label(&c.ty), got), json!({"column": c.name, "declared_type": decl, "intended": format!("{want:?}"), "sql": sql}));
                return false;
            }
            rep.note("type_affinity", format!("{} -> {decl} -> {want:?}", ty_label(&c.ty)));
        }
        let notnull = int_of(&r[3]) == 1;
        let want_nn = c.has(|s| *s == CS::NotNull);
        if notnull != want_nn {
            chk.viol(rep, "R.catalogue", format!("NOT NULL flag differs: {}", spec_sig(c)), json!({"column": c.name, "engine_notnull": notnull, "sql": sql}));
            return false;
        }
        let pk = int_of(&r[5]);
        let want_pk = if c.has(|s| *s == CS::PrimaryKey) { 1 } else { tpk.iter().position(|x| *x == c.name).map(|p| p as i64 + 1).unwrap_or(0) };
        if pk != want_pk {
            chk.viol(rep, "R.catalogue", format!("primary-key position differs: {}", spec_sig(c)), json!({"column": c.name, "engine_pk": pk, "declared_pk": want_pk, "sql": sql}));
            return false;
        }
        let hidden = int_of(&r[6]);
        let want_hidden = c.specs.iter().find_map(|s| if let CS::Generated(_, st) = s { Some(if *st { 3 } else { 2 }) } else { None }).unwrap_or(0);
        if hidden != want_hidden {
            chk.viol(rep, "R.catalogue", format!("generated-column kind differs: {}", spec_sig(c)), json!({"column": c.name, "engine_hidden": hidden, "sql": sql}));
            return false;
        }
        // default: the engine evaluates the stored default expression
        match (c.default(), &r[4]) {
            (None, SqlVal::Null) => {}
            (Some(d), SqlVal::Text(expr)) => {
                let expr = String::from_utf8_lossy(expr).into_owned();
                match defval_sql(d) {
                    Some(want) => {
                        let got = db.rows(&format!("SELECT {expr}")).ok().and_then(|r| r.first().and_then(|r| r.first().cloned()));
                        if got.as_ref() != Some(&want) {
                            chk.viol(rep, "R.default", format!("default value differs: {}", spec_sig(c)), json!({"column": c.name, "dflt_value": expr, "engine_value": got.map(|g| g.show()), "declared": want.show(), "sql": sql}));
                            return false;
                        }
                        rep.count("defaults_evaluated", 1);
                    }
                    None => {
                        if !expr.eq_ignore_ascii_case("CURRENT_TIMESTAMP") {
                            chk.viol(rep, "R.default", "CURRENT_TIMESTAMP default differs".into(), json!({"column": c.name, "dflt_value": expr, "sql": sql}));
                            return false;
                        }
                    }
                }
            }
            (Some(DefVal::Null), SqlVal::Null) => {}
            (want, got) => {
                chk.viol(rep, "R.default", format!("default presence differs: {}", spec_sig(c)), json!({"column": c.name, "declared": format!("{want:?}"), "engine": got.show(), "sql": sql}));
                return false;
            }
        }
    }
    // unique constraints: column-level UNIQUE, table-level UNIQUE indexes
    let il = db.rows(&format!("SELECT name, \"unique\", origin, partial FROM pragma_index_list({tn})")).unwrap_or_default();
    let mut engine_uniques: Vec<Vec<String>> = vec![];
    let mut engine_created: Vec<MIndex> = vec![];
    let mut engine_auto: Vec<Vec<(String, bool)>> = vec![];
    for r in &il {
        let iname = text_of(&r[0]);
        let cols = db
            .rows(&format!("SELECT name, \"desc\" FROM pragma_index_xinfo({}) WHERE key = 1 ORDER BY seqno", sqlite_str(&iname)))
            .unwrap_or_default();
        let cs: Vec<(String, bool)> = cols.iter().map(|c| (text_of(&c[0]), int_of(&c[1]) == 1)).collect();
        if matches!(text_of(&r[2]).as_str(), "u" | "pk") {
            engine_auto.push(cs.clone());
        }
        match text_of(&r[2]).as_str() {
            "u" => engine_uniques.push(cs.iter().map(|c| c.0.clone()).collect()),
            "c" => {
                let filter_sql = db
                    .rows(&format!("SELECT sql FROM sqlite_master WHERE type = 'index' AND name = {}", sqlite_str(&iname)))
                    .ok()
                    .and_then(|r| r.first().map(|r| text_of(&r[0])))
                    .unwrap_or_default();
                let (filter, filter_more) = parse_filter(&filter_sql, int_of(&r[3]) == 1);
                engine_created.push(MIndex { name: iname, table: t.name.clone(), unique: int_of(&r[1]) == 1, cols: cs, filter, filter_more });
            }
            _ => {}
        }
    }
    let mut want_uniques: Vec<Vec<String>> = t.cols.iter().filter(|c| c.has(|s| *s == CS::Unique)).map(|c| vec![c.name.clone()]).collect();
    for ix in t.indexes.iter().filter(|i| i.unique && !i.primary) {
        want_uniques.push(ix.cols.iter().map(|c| c.0.clone()).collect());
    }
    // SQLite keeps one automatic index per distinct column list, and none for a list equal to the primary key
    let pk_cols: Vec<String> = if tpk.is_empty() { t.cols.iter().filter(|c| c.has(|s| *s == CS::PrimaryKey)).map(|c| c.name.clone()).collect() } else { tpk.clone() };
    let pk_is_rowid = pk_cols.len() == 1 && t.cols.iter().find(|c| c.name == pk_cols[0]).map(|c| is_rowid_alias(db, t, c)).unwrap_or(false);
    let mut a = engine_uniques.clone();
    let mut b: Vec<Vec<String>> = want_uniques.iter().filter(|u| pk_is_rowid || pk_cols.is_empty() || **u != pk_cols).cloned().collect();
    a.sort();
    b.sort();
    b.dedup();
    if a != b {
        chk.viol(rep, "R.catalogue", "UNIQUE constraints differ".into(), json!({"declared": want_uniques, "engine": engine_uniques, "sql": sql}));
        return false;
    }
    // direction of the automatic indexes behind PRIMARY KEY / UNIQUE: SQLite merges keys over the same column
    // list (the first one's directions survive), so each automatic index must carry the directions of some
    // declared key over exactly its columns
    let mut declared_keys: Vec<Vec<(String, bool)>> = t.cols.iter().filter(|c| c.has(|s| matches!(s, CS::Unique | CS::PrimaryKey))).map(|c| vec![(c.name.clone(), false)]).collect();
    for ix in t.indexes.iter().filter(|i| i.unique || i.primary) {
        declared_keys.push(ix.cols.iter().map(|c| (c.0.clone(), c.1 == Some(true))).collect());
    }
    for e in &engine_auto {
        if !declared_keys.contains(e) {
            chk.viol(rep, "R.catalogue", "key column directions differ".into(), json!({"declared_keys": format!("{declared_keys:?}"), "engine_index": format!("{e:?}"), "sql": sql}));
            return false;
        }
        if e.iter().any(|c| c.1) {
            rep.count("descending_key_columns_introspected", 1);
        }
    }
    let mut want_created: Vec<MIndex> = model.indexes.iter().filter(|i| i.table == t.name).cloned().collect();
    want_created.sort_by(|x, y| x.name.cmp(&y.name));
    engine_created.sort_by(|x, y| x.name.cmp(&y.name));
    if want_created != engine_created {
        chk.viol(rep, "R.index", "indexes differ from the declaration".into(), json!({"declared": format!("{want_created:?}"), "engine": format!("{engine_created:?}"), "sql": sql}));
        return false;
    }
    rep.count("indexes_introspected", engine_created.len() as u64);
    // foreign keys: (id, seq, table, from, to, on_update, on_delete, match)
    let fkl = db.rows(&format!("SELECT id, seq, \"table\", \"from\", \"to\", on_update, on_delete FROM pragma_foreign_key_list({tn}) ORDER BY id, seq")).unwrap_or_default();
    let mut engine_fks: Vec<(String, Vec<(String, String)>, String, String)> = vec![];
    for r in &fkl {
        if int_of(&r[1]) == 0 {
            engine_fks.push((text_of(&r[2]), vec![], text_of(&r[5]), text_of(&r[6])));
        }
        engine_fks.last_mut().unwrap().1.push((text_of(&r[3]), text_of(&r[4])));
    }
    let mut want_fks: Vec<(String, Vec<(String, String)>, String, String)> = t
        .fks
        .iter()
        .map(|f| {
            (
                f.ref_table.clone(),
                f.cols.iter().cloned().zip(f.ref_cols.iter().cloned()).collect(),
                f.on_update.map(action_sql).unwrap_or("NO ACTION").to_string(),
                f.on_delete.map(action_sql).unwrap_or("NO ACTION").to_string(),
            )
        })
        .collect();
    engine_fks.sort();
    want_fks.sort();
    if engine_fks != want_fks {
        chk.viol(rep, "R.foreign-key", "foreign keys differ from the declaration".into(), json!({"declared": format!("{want_fks:?}"), "engine": format!("{engine_fks:?}"), "sql": sql}));
        return false;
    }
    rep.count("foreign_keys_introspected", engine_fks.len() as u64);
    // AUTOINCREMENT and CHECK: read from the stored statement text
    let stored = db.rows(&format!("SELECT sql FROM sqlite_master WHERE type='table' AND name = {tn}")).ok().and_then(|r| r.first().map(|r| text_of(&r[0]))).unwrap_or_default();
    let want_auto = t.cols.iter().any(|c| c.has(|s| *s == CS::AutoInc));
    let has_auto = lex(Dialect::Sqlite, &stored).map(|t| t.iter().any(|x| x.tok.is_word("AUTOINCREMENT"))).unwrap_or(false);
    if want_auto != has_auto {
        chk.viol(rep, "R.catalogue", "AUTOINCREMENT differs".into(), json!({"declared": want_auto, "engine_sql": stored, "sql": sql}));
        return false;
    }
    true
}

/// Partial-index predicate of a stored CREATE INDEX statement: `column > k` and further `column <> m` conjuncts.
fn parse_filter(index_sql: &str, partial: bool) -> (Option<(String, i64)>, Vec<i64>) {
    if !partial {
        return (None, vec![]);
    }
    let bad = (Some(("<unparsed>".to_string(), 0)), vec![]);
    let Ok(toks) = lex(Dialect::Sqlite, index_sql) else { return bad };
    let Some(pos) = toks.iter().rposition(|t| t.tok.is_word("WHERE")) else { return bad };
    let Ok(tree) = parse_expr(Dialect::Sqlite, &toks[pos + 1..]) else { return bad };
    fn flatten(p: PX, out: &mut Vec<PX>) {
        match p {
            PX::Bin(l, op, r) if op == "AND" => {
                flatten(*l, out);
                flatten(*r, out);
            }
            other => out.push(other),
        }
    }
    let mut parts = vec![];
    flatten(tree, &mut parts);
    let mut first = None;
    let mut more = vec![];
    for (i, p) in parts.into_iter().enumerate() {
        match p {
            PX::Bin(l, op, r) => match (*l, *r, op.as_str(), i) {
                (PX::Col(c), PX::Num(k), ">", 0) if c.len() == 1 => match k.parse() {
                    Ok(k) => first = Some((c[0].clone(), k)),
                    Err(_) => return bad,
                },
                (PX::Col(c), PX::Num(k), "<>", i) if i > 0 && c.len() == 1 && first.as_ref().map(|f| f.0 == c[0]).unwrap_or(false) => match k.parse() {
                    Ok(k) => more.push(k),
                    Err(_) => return bad,
                },
                _ => return bad,
            },
            _ => return bad,
        }
    }
    (first, more)
}

/// Behavioural probes on an empty table: constraints accept / reject what the declaration says.
fn behaviour(chk: &Chk, rep: &mut Report, db: &Db, t: &Tbl, sql: &str) -> bool {
    // a valid row: one value per non-generated column
    let insertable: Vec<&Col> = t.cols.iter().filter(|c| !c.has(|s| matches!(s, CS::Generated(..)))).collect();
    let val = |c: &Col, salt: i64| -> String {
        let k = c.specs.iter().find_map(|s| if let CS::Check(k) = s { Some(*k) } else { None }).unwrap_or(0).max(t.checks.iter().filter(|x| x.0 == c.name).map(|x| x.1).max().unwrap_or(0));
        match c.ty.sqlite_affinity() {
            Some(Aff::Integer) | Some(Aff::Numeric) => (k + 1 + salt).to_string(),
            Some(Aff::Real) => format!("{}.5", k + 1 + salt),
            Some(Aff::Blob) => format!("x'{:02X}'", (salt % 200) as u8 + 1),
            _ => {
                if k > 0 || c.has(|s| matches!(s, CS::Check(_))) {
                    (k + 1 + salt).to_string()
                } else {
                    format!("'v{salt}'")
                }
            }
        }
    };
    let insert = |vals: &[(String, String)]| -> Result<(), String> {
        db.exec("SAVEPOINT bh").map_err(|e| e.msg)?;
        let cols: Vec<String> = vals.iter().map(|v| sqlite_ident(&v.0)).collect();
        let vs: Vec<String> = vals.iter().map(|v| v.1.clone()).collect();
        let q = if vals.is_empty() { format!("INSERT INTO {} DEFAULT VALUES", sqlite_ident(&t.name)) } else { format!("INSERT INTO {}({}) VALUES ({})", sqlite_ident(&t.name), cols.join(","), vs.join(",")) };
        let r = db.exec(&q).map_err(|e| e.msg);
        let _ = db.exec("ROLLBACK TO bh");
        let _ = db.exec("RELEASE bh");
        r
    };
    let base: Vec<(String, String)> = insertable.iter().map(|c| (c.name.clone(), val(c, 1))).collect();
    if let Err(e) = insert(&base) {
        chk.viol(rep, "R.behaviour", "a row satisfying every declared constraint is rejected".into(), json!({"error": e, "row": base, "sql": sql}));
        return false;
    }
    rep.count("behaviour_probes", 1);
    for (i, c) in insertable.iter().enumerate() {
        // NOT NULL
        let is_int_pk = is_rowid_alias(db, t, c);
        let feeds_generated = t.cols.iter().any(|g| g.has(|s| matches!(s, CS::Generated(o, _) if *o == c.name)));
        let mut row = base.clone();
        row[i].1 = "NULL".into();
        let r = insert(&row);
        let want_reject = c.has(|s| *s == CS::NotNull) && !is_int_pk;
        rep.count("behaviour_probes", 1);
        if r.is_err() != want_reject && !feeds_generated && !c.has(|s| matches!(s, CS::Check(_))) && !t.checks.iter().any(|x| x.0 == c.name) {
            chk.viol(rep, "R.behaviour", format!("NULL {} although the column is declared {}", if r.is_err() { "rejected" } else { "accepted" }, if want_reject { "NOT NULL" } else { "nullable" }), json!({"column": c.name, "specs": format!("{:?}", c.specs), "result": format!("{r:?}"), "sql": sql}));
            return false;
        }
        // CHECK (col > k)
        if let Some(k) = c.specs.iter().find_map(|s| if let CS::Check(k) = s { Some(*k) } else { None }) {
            let mut row = base.clone();
            row[i].1 = match c.ty.sqlite_affinity() {
                Some(Aff::Blob) => "NULL".into(),
                _ => (k - 1).to_string(),
            };
            if c.ty.sqlite_affinity() != Some(Aff::Blob) {
                rep.count("behaviour_probes", 1);
                if insert(&row).is_ok() {
                    chk.viol(rep, "R.behaviour", "a value violating the column CHECK is accepted".into(), json!({"column": c.name, "check": format!("> {k}"), "sql": sql}));
                    return false;
                }
            }
        }
        if let Some(k) = c.specs.iter().find_map(|s| if let CS::CheckLt(k) = s { Some(*k) } else { None }) {
            let mut row = base.clone();
            row[i].1 = k.to_string();
            rep.count("behaviour_probes", 1);
            if insert(&row).is_ok() {
                chk.viol(rep, "R.behaviour", "a value violating the column's second CHECK is accepted".into(), json!({"column": c.name, "check": format!("< {k}"), "sql": sql}));
                return false;
            }
        }
        // affinity by behaviour (columns without constraints that interfere)
        if c.specs.iter().all(|s| matches!(s, CS::Default(_) | CS::Null)) && t.checks.iter().all(|x| x.0 != c.name) && insertable.len() == 1 {
            if let (Some(want), Ok(got)) = (c.ty.sqlite_affinity(), affinity_by_probe(db, &t.name, &c.name)) {
                let want_b = if want == Aff::Numeric { Aff::Integer } else { want };
                rep.count("affinity_probes", 1);
                if got != want_b {
                    chk.viol(rep, "R.affinity", format!("{} stores values with {:?} affinity", ty_label(&c.ty), got), json!({"column": c.name, "intended": format!("{want:?}"), "sql": sql}));
                    return false;
                }
            }
        }
    }
    // defaults by behaviour: omit every column that has a default
    let with_default: Vec<&&Col> = insertable.iter().filter(|c| c.default().and_then(defval_sql).is_some() && !is_rowid_alias(db, t, c)).collect();
    if !with_default.is_empty() {
        let row: Vec<(String, String)> = base.iter().filter(|b| !with_default.iter().any(|c| c.name == b.0)).cloned().collect();
        let _ = db.exec("SAVEPOINT bd");
        let cols: Vec<String> = row.iter().map(|v| sqlite_ident(&v.0)).collect();
        let vs: Vec<String> = row.iter().map(|v| v.1.clone()).collect();
        let q = if row.is_empty() { format!("INSERT INTO {} DEFAULT VALUES", sqlite_ident(&t.name)) } else { format!("INSERT INTO {}({}) VALUES ({})", sqlite_ident(&t.name), cols.join(","), vs.join(",")) };
        let mut ok = true;
        if db.exec(&q).is_ok() {
            for c in &with_default {
                let got = db.rows(&format!("SELECT {} FROM {}", sqlite_ident(&c.name), sqlite_ident(&t.name))).ok().and_then(|r| r.first().and_then(|r| r.first().cloned()));
                let want = defval_sql(c.default().unwrap()).unwrap();
                // the stored value is the default converted by the column's affinity; compare loosely on text form for text defaults
                let same = match (&got, &want) {
                    (Some(g), w) if g == w => true,
                    (Some(SqlVal::Text(g)), SqlVal::Int(w)) => String::from_utf8_lossy(g) == w.to_string(),
                    (Some(SqlVal::Int(g)), SqlVal::Text(w)) => String::from_utf8_lossy(w) == g.to_string(),
                    (Some(SqlVal::Real(g)), SqlVal::Int(w)) => *g == *w as f64,
                    (Some(SqlVal::Text(g)), SqlVal::Real(w)) => String::from_utf8_lossy(g).parse::<f64>().ok() == Some(*w),
                    _ => false,
                };
                rep.count("defaults_read_back", 1);
                if !same {
                    chk.viol(rep, "R.default", format!("default read back differs: {}", spec_sig(c)), json!({"column": c.name, "engine": got.map(|g| g.show()), "declared": want.show(), "sql": sql}));
                    ok = false;
                    break;
                }
            }
        }
        let _ = db.exec("ROLLBACK TO bd");
        let _ = db.exec("RELEASE bd");
        if !ok {
            return false;
        }
    }
    true
}

/// INTEGER PRIMARY KEY columns are aliases of the rowid: NULL and DEFAULT are replaced by a fresh rowid.
/// SQLite: a sole INTEGER primary key column is the rowid — also as the table constraint `PRIMARY KEY(x DESC)`
/// (only the column constraint `INTEGER PRIMARY KEY DESC` is excepted, and sea-query cannot write that one).
fn is_rowid_alias(db: &Db, t: &Tbl, c: &Col) -> bool {
    let sole_table_pk = t.indexes.iter().any(|i| i.primary && i.cols.len() == 1 && i.cols[0].0 == c.name);
    (c.has(|s| *s == CS::PrimaryKey) || sole_table_pk) && decl_of(db, &t.name, &c.name).eq_ignore_ascii_case("integer")
}

fn decl_of(db: &Db, table: &str, col: &str) -> String {
    db.rows(&format!("SELECT type FROM pragma_table_xinfo({}) WHERE name = {}", sqlite_str(table), sqlite_str(col)))
        .ok()
        .and_then(|r| r.first().map(|r| text_of(&r[0])))
        .unwrap_or_default()
}

// ---- generators -----------------------------------------------------------------

fn gen_col(rng: &mut Rng, name: &str, ty: Ty, allow_pk: bool, others: &[String]) -> Col {
    let mut specs = vec![];
    let generated = !others.is_empty() && rng.chance(1, 12);
    if generated {
        specs.push(CS::Generated(rng.pick(others).clone(), rng.coin()));
        if rng.coin() {
            specs.push(CS::NotNull);
        }
        return Col { name: name.into(), ty: Ty::Int, specs };
    }
    let mut pool: Vec<CS> = vec![];
    match rng.below(3) {
        0 => pool.push(CS::NotNull),
        1 => pool.push(CS::Null),
        _ => {}
    }
    if rng.chance(1, 3) {
        pool.push(CS::Default(random_default(rng, &ty)));
    }
    if rng.chance(1, 6) {
        pool.push(CS::Unique);
    }
    if rng.chance(1, 5) && ty.sqlite_affinity() != Some(Aff::Blob) {
        let k = rng.range(0, 5);
        pool.push(CS::Check(k));
        if rng.chance(1, 3) && matches!(ty.sqlite_affinity(), Some(Aff::Integer) | Some(Aff::Real) | Some(Aff::Numeric)) {
            // a second check() call on the same column: both constraints hold
            pool.push(CS::CheckLt(k + 100));
        }
    }
    if rng.chance(1, 8) {
        pool.push(CS::Comment("note".into()));
    }
    if allow_pk && rng.chance(1, 3) {
        pool.push(CS::PrimaryKey);
        if matches!(ty, Ty::Int | Ty::BigInt | Ty::Unsigned | Ty::BigU) && rng.coin() {
            pool.push(CS::AutoInc);
        }
    }
    rng.shuffle(&mut pool);
    specs.extend(pool);
    Col { name: name.into(), ty, specs }
}

fn gen_table(rng: &mut Rng, name: &str, existing: &[Tbl]) -> Tbl {
    let types = lite_types();
    let ncols = 1 + rng.below(6);
    let mut t = Tbl { name: name.into(), if_not_exists: rng.chance(1, 5), ..Default::default() };
    let mut have_pk = false;
    for i in 0..ncols {
        let cname = format!("c{i}");
        let ty = rng.pick(&types).clone();
        let others: Vec<String> = t.cols.iter().filter(|c| c.ty.is_int() && !c.has(|s| matches!(s, CS::Generated(..)))).map(|c| c.name.clone()).collect();
        let c = gen_col(rng, &cname, ty, !have_pk, &others);
        if c.has(|s| *s == CS::PrimaryKey) {
            have_pk = true;
        }
        t.cols.push(c);
    }
    let plain: Vec<String> = t.cols.iter().filter(|c| !c.has(|s| matches!(s, CS::Generated(..)))).map(|c| c.name.clone()).collect();
    if !have_pk && rng.chance(1, 3) && !plain.is_empty() {
        let k = 1 + rng.below(plain.len().min(2));
        let mut cols = plain.clone();
        rng.shuffle(&mut cols);
        t.indexes.push(Ix { name: None, unique: false, primary: true, cols: cols[..k].iter().map(|c| (c.clone(), if rng.chance(1, 3) { Some(rng.coin()) } else { None }, if rng.chance(1, 6) { Some(1 + rng.below(20) as u32) } else { None })).collect(), index_type: None, include: vec![], nulls_not_distinct: false, if_not_exists: false, filter: None, filter_more: vec![] });
    }
    if rng.chance(1, 3) && !plain.is_empty() {
        let k = 1 + rng.below(plain.len().min(2));
        let mut cols = plain.clone();
        rng.shuffle(&mut cols);
        t.indexes.push(Ix { name: Some(format!("uq_{name}")), unique: true, primary: false, cols: cols[..k].iter().map(|c| (c.clone(), if rng.chance(1, 3) { Some(rng.coin()) } else { None }, if rng.chance(1, 6) { Some(1 + rng.below(20) as u32) } else { None })).collect(), index_type: None, include: vec![], nulls_not_distinct: false, if_not_exists: false, filter: None, filter_more: vec![] });
    }
    if let Some(parent) = existing.last() {
        if rng.chance(1, 2) && !plain.is_empty() {
            let pc = parent.cols[0].name.clone();
            // now and then a two-column key (SQLite records the pairs; it checks the target only when enforcing)
            let two = plain.len() >= 2 && parent.cols.len() >= 2 && rng.chance(1, 3);
            let (cols, ref_cols) = if two {
                let mut p = plain.clone();
                rng.shuffle(&mut p);
                (vec![p[0].clone(), p[1].clone()], vec![pc, parent.cols[1].name.clone()])
            } else {
                (vec![rng.pick(&plain).clone()], vec![pc])
            };
            t.fks.push(Fk {
                name: Some(format!("fk_{name}")),
                cols,
                ref_table: parent.name.clone(),
                ref_cols,
                on_delete: if rng.coin() { Some(*rng.pick(&ACTIONS)) } else { None },
                on_update: if rng.coin() { Some(*rng.pick(&ACTIONS)) } else { None },
            });
            if rng.chance(1, 3) {
                // a second key to the same parent, with actions of its own or none at all
                t.fks.push(Fk {
                    name: Some(format!("fk2_{name}")),
                    cols: vec![rng.pick(&plain).clone()],
                    ref_table: parent.name.clone(),
                    ref_cols: vec![parent.cols[0].name.clone()],
                    on_delete: if rng.chance(1, 3) { Some(*rng.pick(&ACTIONS)) } else { None },
                    on_update: if rng.chance(1, 3) { Some(*rng.pick(&ACTIONS)) } else { None },
                });
            }
        }
    }
    if rng.chance(1, 4) {
        if let Some(c) = t.cols.iter().find(|c| c.ty.is_int() && !c.has(|s| matches!(s, CS::Generated(..)))) {
            // (now and then the compound form: two OR groups joined by AND, see ddl::Tbl::statement)
            // (not on a column that also has an upper bound of its own: the probes' valid value lies above every `>` bound)
            let bounded = c.has(|s| matches!(s, CS::CheckLt(_)));
            t.checks.push((c.name.clone(), if !bounded && rng.chance(1, 4) { 100 + rng.range(0, 5) } else { rng.range(-3, 0) }));
        }
    }
    t
}

/// The table as the statement's target: now and then qualified with SQLite's own schema name `main`
/// (`ALTER TABLE "main"."t" ..` is the same table).
fn target(rng: &mut Rng, name: &str) -> sea_query::TableRef {
    use sea_query::IntoTableRef;
    if rng.chance(1, 5) {
        (Alias::new("main"), Alias::new(name)).into_table_ref()
    } else {
        Alias::new(name).into_table_ref()
    }
}

fn exec_and_check(chk: &Chk, rep: &mut Report, db: &Db, model: &Model, sql: &str, what: &str) -> bool {
    rep.count("statements_executed", 1);
    rep.note("statement_kinds", what.to_string());
    if let Err(e) = db.exec(sql) {
        chk.viol(rep, "R.accept", format!("{what}: engine rejects the statement ({})", e.msg.split(':').next().unwrap_or("")), json!({"sql": sql, "error": e.msg}));
        return false;
    }
    // the set of tables and the catalogue of each
    let mut tables: Vec<String> = db.rows("SELECT name FROM sqlite_master WHERE type='table' AND name NOT LIKE 'sqlite_%'").unwrap_or_default().iter().map(|r| text_of(&r[0])).collect();
    tables.sort();
    let mut want: Vec<String> = model.tables.iter().map(|t| t.name.clone()).collect();
    want.sort();
    if tables != want {
        chk.viol(rep, "R.catalogue", format!("{what}: set of tables differs"), json!({"declared": want, "engine": tables, "sql": sql}));
        return false;
    }
    for t in &model.tables {
        if !check_table(chk, rep, db, t, model, sql) {
            return false;
        }
    }
    true
}

/// A panic of the code under test while a statement of the history is being rendered is a violation
/// (every statement of these histories is one SQLite supports), not a harness error.
pub fn run_history(ctx: &Ctx, rep: &mut Report, n: u64, rng: &mut Rng, single: Option<Tbl>) {
    let r = std::panic::catch_unwind(std::panic::AssertUnwindSafe(|| run_history_inner(ctx, rep, n, rng, single)));
    if let Err(p) = r {
        let msg = p.downcast_ref::<String>().cloned().or_else(|| p.downcast_ref::<&str>().map(|s| s.to_string())).unwrap_or_else(|| "panic".into());
        let sig: String = msg.chars().take(80).collect();
        rep.violation("R.panic", "sqlite", format!("history: {sig}"), json!({"panic": msg}), ctx.shard, n);
    }
}

fn run_history_inner(ctx: &Ctx, rep: &mut Report, n: u64, rng: &mut Rng, single: Option<Tbl>) {
    rep.eval();
    let chk = Chk { ctx, n };
    let db = Db::memory();
    let mut model = Model::default();
    let ntables = if single.is_some() { 1 } else { 1 + rng.below(2) };
    let mut sig_parts = vec![];
    for ti in 0..ntables {
        let t = match &single {
            Some(t) => t.clone(),
            None => gen_table(rng, &format!("tb{ti}"), &model.tables),
        };
        let sql = match guard(|| crate::ddl::render_table(TableStatement::Create(t.statement()), Dialect::Sqlite)) {
            Ok(s) => s,
            Err(p) => {
                chk.viol(rep, "R.panic", format!("create table: {}", panic_sig(&p)), json!({"table": format!("{t:?}"), "panic": p}));
                return;
            }
        };
        sig_parts.push(sql.clone());
        model.tables.push(t.clone());
        if !exec_and_check(&chk, rep, &db, &model, &sql, "CREATE TABLE") {
            return;
        }
        if !behaviour(&chk, rep, &db, &t, &sql) {
            return;
        }
    }
    if single.is_none() {
        // history of ALTER / INDEX / DROP statements
        let steps = rng.below(6);
        for _ in 0..steps {
            if model.tables.is_empty() {
                break;
            }
            let ti = rng.below(model.tables.len());
            let tname = model.tables[ti].name.clone();
            let (what, sql): (&str, String) = match rng.below(8) {
                0 | 1 => {
                    // ADD COLUMN (SQLite: no PK/UNIQUE; NOT NULL needs a non-null literal default)
                    let cname = format!("n{}_{}", model.tables[ti].cols.len(), rng.below(100000));
                    let ty = rng.pick(&lite_types()).clone();
                    let mut specs = vec![];
                    if rng.coin() {
                        let d = match random_default(rng, &ty) {
                            DefVal::CurrentTimestamp | DefVal::Null => DefVal::Int(3),
                            d => d,
                        };
                        specs.push(CS::Default(d));
                        if rng.coin() {
                            specs.push(CS::NotNull);
                        }
                    }
                    let c = Col { name: cname, ty, specs };
                    let sql = if rng.chance(1, 3) {
                        // SQLite has no ADD COLUMN IF NOT EXISTS: the flag is not rendered
                        crate::ddl::render_schema(Table::alter().table(target(rng, &tname)).add_column_if_not_exists(&mut c.column_def()), Dialect::Sqlite)
                    } else {
                        crate::ddl::render_schema(Table::alter().table(target(rng, &tname)).add_column(c.column_def()), Dialect::Sqlite)
                    };
                    model.tables[ti].cols.push(c);
                    ("ALTER TABLE ADD COLUMN", sql)
                }
                2 => {
                    // RENAME COLUMN (not referenced by generated columns to keep the model simple)
                    let t = &model.tables[ti];
                    let cands: Vec<usize> = (0..t.cols.len()).filter(|i| !t.cols.iter().any(|c| c.has(|s| matches!(s, CS::Generated(o, _) if *o == t.cols[*i].name)))).collect();
                    if cands.is_empty() {
                        continue;
                    }
                    let ci = *rng.pick(&cands);
                    let old = t.cols[ci].name.clone();
                    let new = format!("r{}_{}", ci, rng.below(1000));
                    let sql = crate::ddl::render_schema(Table::alter().table(target(rng, &tname)).rename_column(Alias::new(&old), Alias::new(&new)), Dialect::Sqlite);
                    let t = &mut model.tables[ti];
                    t.cols[ci].name = new.clone();
                    for ix in t.indexes.iter_mut() {
                        for c in ix.cols.iter_mut() {
                            if c.0 == old {
                                c.0 = new.clone();
                            }
                        }
                    }
                    for fk in t.fks.iter_mut() {
                        for c in fk.cols.iter_mut() {
                            if *c == old {
                                *c = new.clone();
                            }
                        }
                    }
                    for ck in t.checks.iter_mut() {
                        if ck.0 == old {
                            ck.0 = new.clone();
                        }
                    }
                    for ix in model.indexes.iter_mut().filter(|i| i.table == tname) {
                        for c in ix.cols.iter_mut() {
                            if c.0 == old {
                                c.0 = new.clone();
                            }
                        }
                        if let Some(f) = ix.filter.as_mut() {
                            if f.0 == old {
                                f.0 = new.clone();
                            }
                        }
                    }
                    // foreign keys of other tables that reference this column
                    for other in model.tables.iter_mut() {
                        for fk in other.fks.iter_mut() {
                            if fk.ref_table == tname {
                                for c in fk.ref_cols.iter_mut() {
                                    if *c == old {
                                        *c = new.clone();
                                    }
                                }
                            }
                        }
                    }
                    ("ALTER TABLE RENAME COLUMN", sql)
                }
                3 => {
                    // DROP COLUMN: only plain columns nothing refers to
                    let t = &model.tables[ti];
                    let referenced = |name: &str| {
                        t.indexes.iter().any(|i| i.cols.iter().any(|c| c.0 == name))
                            || t.fks.iter().any(|f| f.cols.iter().any(|c| c == name))
                            || t.checks.iter().any(|c| c.0 == name)
                            || t.cols.iter().any(|c| c.has(|s| matches!(s, CS::Generated(o, _) if o == name)))
                            || model.indexes.iter().any(|i| i.table == t.name && (i.cols.iter().any(|c| c.0 == name) || i.filter.as_ref().map(|f| f.0 == name).unwrap_or(false)))
                            || model.tables.iter().any(|o| o.fks.iter().any(|f| f.ref_table == t.name && f.ref_cols.iter().any(|c| c == name)))
                    };
                    let cands: Vec<usize> = (0..t.cols.len())
                        .filter(|i| {
                            let c = &t.cols[*i];
                            !c.has(|s| matches!(s, CS::PrimaryKey | CS::Unique | CS::Check(_) | CS::CheckLt(_))) && !referenced(&c.name)
                        })
                        .collect();
                    if cands.is_empty() || t.cols.len() < 2 {
                        continue;
                    }
                    let ci = *rng.pick(&cands);
                    let name = t.cols[ci].name.clone();
                    let sql = crate::ddl::render_schema(Table::alter().table(target(rng, &tname)).drop_column(Alias::new(&name)), Dialect::Sqlite);
                    model.tables[ti].cols.remove(ci);
                    ("ALTER TABLE DROP COLUMN", sql)
                }
                4 | 5 => {
                    // CREATE [UNIQUE] INDEX [IF NOT EXISTS] .. [WHERE col > k]
                    let t = &model.tables[ti];
                    let plain: Vec<&Col> = t.cols.iter().filter(|c| !c.has(|s| matches!(s, CS::Generated(..)))).collect();
                    if plain.is_empty() {
                        continue;
                    }
                    let k = 1 + rng.below(plain.len().min(3));
                    let mut names: Vec<String> = plain.iter().map(|c| c.name.clone()).collect();
                    rng.shuffle(&mut names);
                    // a prefix length is MySQL's notion: SQLite's renderer leaves it out, the index covers the whole column
                    let cols: Vec<(String, Option<bool>, Option<u32>)> = names[..k].iter().map(|c| (c.clone(), if rng.coin() { Some(rng.coin()) } else { None }, if rng.chance(1, 5) { Some(1 + rng.below(20) as u32) } else { None })).collect();
                    let filter = if rng.chance(1, 3) { plain.iter().find(|c| c.ty.is_int()).map(|c| (c.name.clone(), rng.range(0, 9))) } else { None };
                    let filter_more: Vec<i64> = if filter.is_some() { (0..rng.pick_weighted(&[3, 2, 1])).map(|_| rng.range(10, 19)).collect() } else { vec![] };
                    // index names are identifiers like any other: now and then one with a quote character or a blank
                    let odd = if rng.chance(1, 5) { *rng.pick(&["\"", " x", "'", "\"\"", "é", ".v2", "."]) } else { "" };
                    let ix = Ix { name: Some(format!("ix{}{odd}", model.indexes.len() + rng.below(1000) * 10)), unique: rng.chance(1, 3), primary: false, cols: cols.clone(), index_type: None, // INCLUDE / NULLS NOT DISTINCT are Postgres notions: SQLite's renderer leaves them out
                        include: if rng.chance(1, 6) { vec![names[0].clone()] } else { vec![] }, nulls_not_distinct: rng.chance(1, 8), if_not_exists: rng.coin(), filter: filter.clone(), filter_more: filter_more.clone() };
                    let sql = crate::ddl::render_schema(&ix.statement(Some(&tname)), Dialect::Sqlite);
                    model.indexes.push(MIndex { name: ix.name.clone().unwrap(), table: tname.clone(), unique: ix.unique, cols: cols.iter().map(|c| (c.0.clone(), c.1 == Some(true))).collect(), filter, filter_more });
                    ("CREATE INDEX", sql)
                }
                6 => {
                    if model.indexes.is_empty() {
                        continue;
                    }
                    let ii = rng.below(model.indexes.len());
                    let ix = model.indexes.remove(ii);
                    let mut d = Index::drop();
                    d.name(ix.name.as_str()).table(Alias::new(&ix.table));
                    if rng.coin() {
                        d.if_exists();
                    }
                    ("DROP INDEX", crate::ddl::render_schema(&d, Dialect::Sqlite))
                }
                _ => {
                    if rng.coin() {
                        // RENAME TABLE (tables nothing refers to)
                        if model.tables.iter().any(|o| o.fks.iter().any(|f| f.ref_table == tname)) {
                            continue;
                        }
                        let new = format!("{tname}x");
                        let sql = crate::ddl::render_schema(Table::rename().table(target(rng, &tname), Alias::new(&new)), Dialect::Sqlite);
                        model.tables[ti].name = new.clone();
                        for ix in model.indexes.iter_mut().filter(|i| i.table == tname) {
                            ix.table = new.clone();
                        }
                        ("ALTER TABLE RENAME TO", sql)
                    } else {
                        if model.tables.iter().any(|o| o.fks.iter().any(|f| f.ref_table == tname)) {
                            continue;
                        }
                        if rng.chance(1, 4) {
                            // IF EXISTS on a table that is not there: must be accepted and change nothing
                            let mut d = Table::drop();
                            d.table(Alias::new(format!("{tname}_gone"))).if_exists();
                            let sql = crate::ddl::render_schema(&d, Dialect::Sqlite);
                            sig_parts.push(sql.clone());
                            if !exec_and_check(&chk, rep, &db, &model, &sql, "DROP TABLE IF EXISTS (absent)") {
                                return;
                            }
                        }
                        let mut d = Table::drop();
                        d.table(target(rng, &tname));
                        if rng.coin() {
                            d.if_exists();
                        }
                        model.tables.remove(ti);
                        model.indexes.retain(|i| i.table != tname);
                        ("DROP TABLE", crate::ddl::render_schema(&d, Dialect::Sqlite))
                    }
                }
            };
            sig_parts.push(sql.clone());
            if !exec_and_check(&chk, rep, &db, &model, &sql, what) {
                return;
            }
        }
    }
    rep.nontrivial(hash_str(&sig_parts.join(";")));
    if n % 397 == 1 {
        rep.sample(json!({"history": sig_parts}));
    }
}

/// Directed: free-form text after the table definition (`Table::create().extra(..)`) is how SQLite's table
/// options are declared; the catalogue says whether they took effect.
fn table_options(ctx: &Ctx, rep: &mut Report) {
    let n0 = 1u64 << 52;
    let cases: [(&str, &str, &str); 3] = [
        ("WITHOUT ROWID", "wr", "CREATE TABLE with WITHOUT ROWID"),
        ("STRICT", "strict", "CREATE TABLE with STRICT"),
        ("STRICT, WITHOUT ROWID", "wr", "CREATE TABLE with STRICT, WITHOUT ROWID"),
    ];
    for (k, (extra, flag, label)) in cases.iter().enumerate() {
        let n = n0 + k as u64;
        if (ctx.replay.is_none() && ctx.shard != 0) || !ctx.wants(n) {
            continue;
        }
        crate::apply::set_route_seed(ctx.seed ^ n);
        rep.eval();
        let chk = Chk { ctx, n };
        let db = Db::memory();
        let sql = match guard(|| {
            let mut t = Table::create();
            t.table(Alias::new("opt_t"))
                .col(ColumnDef::new(Alias::new("id")).integer().not_null().primary_key())
                .col(ColumnDef::new(Alias::new("v")).text())
                .extra(*extra);
            crate::ddl::render_table(TableStatement::Create(t), Dialect::Sqlite)
        }) {
            Ok(s) => s,
            Err(p) => {
                chk.viol(rep, "R.panic", format!("{label}: {}", panic_sig(&p)), json!({"panic": p}));
                continue;
            }
        };
        if let Err(e) = db.exec(&sql) {
            chk.viol(rep, "R.accept", format!("{label}: engine rejects the statement"), json!({"sql": sql, "error": e.msg}));
            continue;
        }
        let got = db.rows(&format!("SELECT {flag} FROM pragma_table_list WHERE name = 'opt_t'")).ok().and_then(|r| r.first().and_then(|r| r.first().cloned()));
        if got != Some(SqlVal::Int(1)) {
            chk.viol(rep, "R.catalogue", format!("{label}: the option is not in effect"), json!({"sql": sql, "pragma_table_list": format!("{got:?}")}));
        } else {
            rep.count("table_options_in_effect", 1);
            rep.nontrivial(hash_str(&sql));
        }
    }
}

pub fn check(ctx: &Ctx, rep: &mut Report) {
    table_options(ctx, rep);
    // (1) bounded-exhaustive: every type x every ordered pair of column specs (single-column tables)
    let types = lite_types();
    let spec_pool: Vec<CS> = vec![
        CS::NotNull,
        CS::Null,
        CS::Default(DefVal::Int(7)),
        CS::Default(DefVal::Text("it's".into())),
        CS::Default(DefVal::Null),
        CS::Default(DefVal::CurrentTimestamp),
        CS::Unique,
        CS::PrimaryKey,
        CS::Check(0),
        CS::Comment("c".into()),
    ];
    let mut n = 0u64;
    for ty in &types {
        let mut combos: Vec<Vec<CS>> = vec![vec![]];
        for a in &spec_pool {
            combos.push(vec![a.clone()]);
            for b in &spec_pool {
                let conflict = std::mem::discriminant(a) == std::mem::discriminant(b) || matches!((a, b), (CS::NotNull, CS::Null) | (CS::Null, CS::NotNull)) || matches!((a, b), (CS::NotNull, CS::Default(DefVal::Null)) | (CS::Default(DefVal::Null), CS::NotNull));
                if !conflict {
                    combos.push(vec![a.clone(), b.clone()]);
                }
            }
        }
        if matches!(ty, Ty::Int | Ty::BigInt | Ty::Unsigned | Ty::BigU) {
            combos.push(vec![CS::PrimaryKey, CS::AutoInc]);
            combos.push(vec![CS::AutoInc, CS::PrimaryKey]);
            combos.push(vec![CS::NotNull, CS::AutoInc, CS::PrimaryKey]);
            // every order of primary key / auto increment / not null / default
            let base = [CS::PrimaryKey, CS::AutoInc, CS::NotNull, CS::Default(DefVal::Int(5))];
            let mut idx = [0usize, 1, 2, 3];
            let mut perms: Vec<[usize; 4]> = vec![];
            fn heap(k: usize, a: &mut [usize; 4], out: &mut Vec<[usize; 4]>) {
                if k == 1 {
                    out.push(*a);
                    return;
                }
                for i in 0..k {
                    heap(k - 1, a, out);
                    if k % 2 == 0 {
                        a.swap(i, k - 1);
                    } else {
                        a.swap(0, k - 1);
                    }
                }
            }
            heap(4, &mut idx, &mut perms);
            for pm in perms {
                combos.push(pm.iter().map(|i| base[*i].clone()).collect());
            }
        }
        for specs in combos {
            if ctx.mine(n) {
                let t = Tbl { name: "tb".into(), cols: vec![Col { name: "c0".into(), ty: ty.clone(), specs }], ..Default::default() };
                let mut rng = ctx.rng_global("single", n);
                run_history(ctx, rep, n, &mut rng, Some(t));
            }
            n += 1;
        }
    }
    if ctx.shard == 0 && ctx.replay.is_none() {
        rep.exhaustive_parts.push(format!("every SQLite-supported column type ({}) x every ordered pair of column specifications from a pool of 10 (+ AUTOINCREMENT forms): {n} single-column tables", types.len()));
    }
    // (2) random multi-table histories
    let base = 1u64 << 40;
    let total = ctx.size(3_000, 200_000) / ctx.nshards;
    for k in 0..total {
        let n = base + k;
        if !ctx.wants(n) {
            continue;
        }
        crate::apply::set_route_seed(ctx.seed ^ n.wrapping_mul(0x9E3779B97F4A7C15));
        let mut rng = ctx.rng("hist", k);
        run_history(ctx, rep, n, &mut rng, None);
    }
}
