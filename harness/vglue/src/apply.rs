//! spec -> real builder calls. Where the fluent API offers several routes to the
//! same state, the route is drawn from a thread-local PRNG (the properties are
//! over call sequences, not over ASTs).

use crate::spec::*;
use crate::spec::Returning as RetSpec;
use crate::xspec::X;
use sea_query::extension::mysql::{IndexHintScope, MySqlSelectStatementExt};
use sea_query::extension::postgres::{PostgresSelectStatementExt, SampleMethod};
use sea_query::*;
use std::cell::Cell;

thread_local! {
    static ROUTE: Cell<u64> = const { Cell::new(0x1234_5678) };
}

pub fn set_route_seed(s: u64) {
    ROUTE.with(|r| r.set(s | 1));
}

pub(crate) fn route(n: usize) -> usize {
    ROUTE.with(|r| {
        let mut x = r.get();
        let v = vcore::prng::splitmix(&mut x);
        r.set(x);
        (v >> 20) as usize % n
    })
}

fn a(s: &str) -> Alias {
    Alias::new(s)
}

/// WHERE conditions through the equivalent routes of `ConditionalStatement`, interleaved with calls that
/// add nothing (an empty `all` group, an absent option) — only when there is a real condition, because a
/// lone empty `all` renders `WHERE TRUE`.
fn add_wheres<T: ConditionalStatement>(q: &mut T, ws: &[X]) {
    // an empty `all` merged next to a negated group is rendered as `.. AND TRUE` (same meaning, other text):
    // a statement gets either the do-nothing calls or the negated-group route
    let with_noops = route(2) == 0;
    let noop = |q: &mut T| {
        if with_noops && route(6) == 0 {
            match route(3) {
                0 => {
                    q.cond_where(Condition::all());
                }
                1 => {
                    q.cond_where(Condition::all().add_option(None::<SimpleExpr>));
                }
                _ => {
                    q.and_where_option(None);
                }
            }
        }
    };
    if !ws.is_empty() {
        noop(q);
    }
    for w in ws {
        if let X::Not(inner) = w {
            if !with_noops && route(2) == 0 {
                // NOT e as a negated group holding e
                q.cond_where(Condition::all().add(inner.build()).not());
                noop(q);
                continue;
            }
        }
        match route(4) {
            0 => {
                q.and_where(w.build());
            }
            1 => {
                q.cond_where(w.build());
            }
            2 => {
                q.and_where_option(Some(w.build()));
            }
            _ => {
                q.cond_where(Condition::all().add(w.build()));
            }
        }
        noop(q);
    }
}

fn conj_cond(xs: &[X]) -> Condition {
    if xs.is_empty() && route(2) == 0 {
        return Condition::all().add_option(None::<SimpleExpr>);
    }
    let mut c = Condition::all();
    for e in xs {
        c = c.add(e.build());
    }
    c
}

/// a row of a VALUES list as a `ValueTuple`: the variant of its arity, a Rust tuple converted, or `Many`
pub(crate) fn value_tuple(r: &[Value]) -> ValueTuple {
    match (r.len(), route(3)) {
        (1, 0) => ValueTuple::One(r[0].clone()),
        (1, 1) => r[0].clone().into_value_tuple(),
        (2, 0) => ValueTuple::Two(r[0].clone(), r[1].clone()),
        (2, 1) => (r[0].clone(), r[1].clone()).into_value_tuple(),
        (3, 0) => ValueTuple::Three(r[0].clone(), r[1].clone(), r[2].clone()),
        (3, 1) => (r[0].clone(), r[1].clone(), r[2].clone()).into_value_tuple(),
        _ => ValueTuple::Many(r.to_vec()),
    }
}

fn table_ref(f: &From_) -> TableRef {
    match f {
        From_::Table(t, None) => TableRef::Table(a(t).into_iden()),
        From_::Table(t, Some(al)) => TableRef::TableAlias(a(t).into_iden(), a(al).into_iden()),
        From_::SchemaTable(s, t, None) => TableRef::SchemaTable(a(s).into_iden(), a(t).into_iden()),
        From_::SchemaTable(s, t, Some(al)) => {
            TableRef::SchemaTableAlias(a(s).into_iden(), a(t).into_iden(), a(al).into_iden())
        }
        From_::Sub(q, al) => TableRef::SubQuery(sel(q), a(al).into_iden()),
        From_::Values(rows, al) => TableRef::ValuesList(
            rows.iter().map(|r| value_tuple(r)).collect(),
            a(al).into_iden(),
        ),
        From_::Func(name, args, al) => TableRef::FunctionCall(Func::cust(a(name)).args(args.iter().map(|x| x.build())), a(al).into_iden()),
    }
}

fn add_from(s: &mut SelectStatement, f: &From_) {
    match f {
        From_::Table(t, None) => {
            s.from(a(t));
        }
        From_::Table(t, Some(al)) => match route(4) {
            0 => {
                s.from_as(a(t), a(al));
            }
            1 => {
                // aliasing a reference that already carries an alias replaces the alias
                s.from_as(a(t).into_table_ref().alias(a("old_alias")), a(al));
            }
            2 => {
                s.from(a(t).into_table_ref().alias(a("old_alias")).alias(a(al)));
            }
            _ => {
                s.from(table_ref(f));
            }
        },
        From_::SchemaTable(sc, t, None) => {
            s.from((a(sc), a(t)));
        }
        From_::SchemaTable(sc, t, Some(al)) => {
            if route(2) == 0 {
                s.from_as((a(sc), a(t)).into_table_ref().alias(a("old_alias")), a(al));
            } else {
                s.from_as((a(sc), a(t)), a(al));
            }
        }
        From_::Sub(q, al) => {
            if route(2) == 0 {
                s.from_subquery(sel(q), a(al));
            } else {
                s.from(table_ref(f));
            }
        }
        From_::Values(rows, al) => {
            s.from_values(rows.iter().map(|r| value_tuple(r)), a(al));
        }
        From_::Func(name, args, al) => {
            if route(2) == 0 {
                s.from_function(Func::cust(a(name)).args(args.iter().map(|x| x.build())), a(al));
            } else {
                s.from(table_ref(f));
            }
        }
    }
}

pub fn order_expr(o: &Ord_) -> (SimpleExpr, Order, Option<NullOrdering>) {
    let dir = match &o.dir {
        Dir::Asc => Order::Asc,
        Dir::Desc => Order::Desc,
        Dir::Field(v) => Order::Field(Values(v.clone())),
    };
    (
        o.expr.build(),
        dir,
        o.nulls_first.map(|f| if f { NullOrdering::First } else { NullOrdering::Last }),
    )
}

fn add_order<S: OrderedStatement>(s: &mut S, o: &Ord_) {
    let (e, dir, nulls) = order_expr(o);
    // route: column forms for plain columns, expression forms otherwise
    match (&o.expr, nulls) {
        // a custom fragment as the key has its own entry points
        (X::Cust(w), None) if route(2) == 0 => {
            s.order_by_customs([(w.as_str(), dir)]);
        }
        (X::Cust(w), Some(n)) if route(2) == 0 => {
            s.order_by_customs_with_nulls([(w.as_str(), dir, n)]);
        }
        (X::Col(c), None) if route(3) == 0 => {
            s.order_by_columns([(a(c), dir)]);
        }
        (X::Col(c), Some(n)) if route(3) == 0 => {
            s.order_by_columns_with_nulls([(a(c), dir, n)]);
        }
        (X::QCol(t, c), Some(n)) if route(2) == 0 => {
            s.order_by_with_nulls((a(t), a(c)), dir, n);
        }
        (X::Col(c), None) if route(2) == 0 => {
            s.order_by(a(c), dir);
        }
        (X::QCol(t, c), None) if route(2) == 0 => {
            s.order_by((a(t), a(c)), dir);
        }
        (X::Col(c), Some(n)) if route(2) == 0 => {
            s.order_by_with_nulls(a(c), dir, n);
        }
        (_, None) => {
            s.order_by_expr(e, dir);
        }
        (_, Some(n)) => {
            s.order_by_expr_with_nulls(e, dir, n);
        }
    }
}

fn frame_bound(b: &FrameBound) -> Frame {
    match b {
        FrameBound::UnboundedPreceding => Frame::UnboundedPreceding,
        FrameBound::Preceding(n) => Frame::Preceding(*n),
        FrameBound::CurrentRow => Frame::CurrentRow,
        FrameBound::Following(n) => Frame::Following(*n),
        FrameBound::UnboundedFollowing => Frame::UnboundedFollowing,
    }
}

pub fn window(w: &Win) -> WindowStatement {
    let mut ws = WindowStatement::new();
    let mut parts = &w.partition[..];
    // the constructors that start with one partition key
    match parts.first() {
        Some(X::QCol(t, c)) if route(3) == 0 => {
            ws = WindowStatement::partition_by((a(t), a(c)));
            parts = &parts[1..];
        }
        Some(X::Cust(w)) if route(2) == 0 => {
            ws = WindowStatement::partition_by_custom(w.as_str());
            parts = &parts[1..];
        }
        _ => {}
    }
    let all_cols: Option<Vec<(Alias, Alias)>> = parts.iter().map(|p| if let X::QCol(t, c) = p { Some((a(t), a(c))) } else { None }).collect();
    match all_cols {
        Some(cols) if !cols.is_empty() && route(3) == 0 => {
            OverStatement::partition_by_columns(&mut ws, cols);
            parts = &[];
        }
        _ => {}
    }
    for p in parts {
        match p {
            X::QCol(t, c) if route(2) == 0 => {
                OverStatement::partition_by(&mut ws, (a(t), a(c)));
            }
            X::Cust(w) if route(2) == 0 => {
                ws.partition_by_customs([w.as_str()]);
            }
            _ => {
                ws.add_partition_by(p.build());
            }
        }
    }
    for o in &w.order {
        add_order(&mut ws, o);
    }
    if let Some((rows, s, e)) = &w.frame {
        let ty = if *rows { FrameType::Rows } else { FrameType::Range };
        match e {
            _ if route(3) == 0 => {
                ws.frame(ty, frame_bound(s), e.as_ref().map(frame_bound));
            }
            Some(e) => {
                ws.frame_between(ty, frame_bound(s), frame_bound(e));
            }
            None => {
                ws.frame_start(ty, frame_bound(s));
            }
        }
    }
    ws
}

fn cte_list(w: &With) -> Vec<CommonTableExpression> {
    let mut out = vec![];
    for c in &w.ctes {
        let mut cte = match (&*c.body, c.infer) {
            (CteBody::Sel(q), true) if route(2) == 0 => CommonTableExpression::from_select(sel(q)),
            (CteBody::Sel(q), true) => {
                let mut cte = CommonTableExpression::new();
                let s = sel(q);
                cte.try_set_cols_from_select(&s);
                cte.query(s);
                cte
            }
            _ => CommonTableExpression::new(),
        };
        cte.table_name(a(&c.name));
        // the column list accumulates over column() / columns() calls in any split
        match (c.cols.len(), route(3)) {
            (k, 0) if k >= 2 => {
                cte.column(a(&c.cols[0]));
                cte.columns(c.cols[1..].iter().map(|x| a(x)));
            }
            (k, 1) if k >= 2 => {
                cte.columns(c.cols[..k - 1].iter().map(|x| a(x)));
                cte.columns(c.cols[k - 1..].iter().map(|x| a(x)));
            }
            _ => {
                for col in &c.cols {
                    cte.column(a(col));
                }
            }
        }
        if let Some(m) = c.materialized {
            cte.materialized(m);
        }
        if c.infer {
            out.push(cte);
            continue;
        }
        match &*c.body {
            // a body with a WITH clause of its own, attached from outside: the CTE's query is a `WithQuery`
            CteBody::Sel(q) if q.with.is_some() && route(2) == 0 => {
                let mut body = q.clone();
                let inner = body.with.take().unwrap();
                cte.query(with_clause(&inner).query(sel(&body)))
            }
            CteBody::Sel(q) => cte.query(sel(q)),
            CteBody::Ins(q) => cte.query(ins(q)),
            CteBody::Upd(q) => cte.query(upd(q)),
            CteBody::Del(q) => cte.query(del(q)),
        };
        out.push(cte);
    }
    out
}

fn search_of(w: &With) -> Option<Search> {
    if let Some((breadth, by, set)) = &w.search {
        let order = if *breadth { SearchOrder::BREADTH } else { SearchOrder::DEPTH };
        let expr = SelectExpr { expr: Expr::col(a(by)).into(), alias: Some(a(set).into_iden()), window: None };
        return Some(if route(2) == 0 {
            Search::new().expr(expr).order(order).to_owned()
        } else {
            Search::new_from_order_and_expr(order, expr)
        });
    }
    None
}

fn cycle_of(w: &With) -> Option<Cycle> {
    if let Some((col, set, using)) = &w.cycle {
        return Some(if route(2) == 0 {
            Cycle::new().using(a(using)).set(a(set)).expr(Expr::col(a(col))).to_owned()
        } else {
            Cycle::new_from_expr_set_using(Expr::col(a(col)), a(set), a(using))
        });
    }
    None
}

pub fn with_clause(w: &With) -> WithClause {
    let mut wc = if route(2) == 0 { Query::with() } else { WithClause::new() };
    wc.recursive(w.recursive);
    for c in cte_list(w) {
        wc.cte(c);
    }
    if let Some(x) = search_of(w) {
        wc.search(x);
    }
    if let Some(x) = cycle_of(w) {
        wc.cycle(x);
    }
    wc
}

fn add_joins(q: &mut SelectStatement, s: &Sel) {
    for j in &s.joins {
        let jt = match j.kind {
            JoinKind::Join => JoinType::Join,
            JoinKind::Inner => JoinType::InnerJoin,
            JoinKind::Left => JoinType::LeftJoin,
            JoinKind::Right => JoinType::RightJoin,
            JoinKind::Full => JoinType::FullOuterJoin,
            JoinKind::Cross => JoinType::CrossJoin,
        };
        let cond = conj_cond(&j.on);
        if j.lateral {
            if let From_::Sub(sq, al) = &j.from {
                q.join_lateral(jt, sel(sq), a(al), cond);
                continue;
            }
        }
        let specific = route(2) == 0;
        match (&j.from, j.kind, specific) {
            (From_::Sub(sq, al), _, true) => {
                q.join_subquery(jt, sel(sq), a(al), cond);
            }
            (From_::Table(t, Some(al)), _, true) => {
                q.join_as(jt, a(t), a(al), cond);
            }
            (From_::Table(t, None), JoinKind::Left, true) => {
                q.left_join(a(t), cond);
            }
            (From_::Table(t, None), JoinKind::Inner, true) => {
                q.inner_join(a(t), cond);
            }
            (From_::Table(t, None), JoinKind::Right, true) => {
                q.right_join(a(t), cond);
            }
            (From_::Table(t, None), JoinKind::Full, true) => {
                q.full_outer_join(a(t), cond);
            }
            (From_::Table(t, None), JoinKind::Cross, true) => {
                q.cross_join(a(t), cond);
            }
            (f, _, _) => {
                q.join(jt, table_ref(f), cond);
            }
        }
    }
}

pub fn sel(s: &Sel) -> SelectStatement {
    let mut q = match route(3) {
        0 => SelectStatement::new(),
        1 => SelectStatement::default(),
        _ => Query::select(),
    };
    match &s.distinct {
        Some(Distinct::All) => {
            // no dedicated method: public field is not accessible; `SelectDistinct::All` has no setter,
            // so ALL is expressed through apply() only when available
        }
        Some(Distinct::Distinct) => {
            q.distinct();
        }
        Some(Distinct::DistinctRow) => {
            // extension not exposed as a method in this version; generator does not emit it
        }
        Some(Distinct::On(cols)) => {
            q.distinct_on(cols.iter().map(|(t, c)| (a(t), a(c))));
        }
        None => {}
    }
    // a select list of nothing but plain columns: the plural form takes them in one call
    let all_plain: Option<Vec<Alias>> = s
        .items
        .iter()
        .map(|it| match (&it.expr, &it.alias, &it.window) {
            (X::Col(c), None, None) => Some(a(c)),
            _ => None,
        })
        .collect();
    let plural_items = matches!(&all_plain, Some(v) if v.len() >= 2) && route(2) == 0;
    if plural_items {
        q.columns(all_plain.clone().unwrap());
    }
    let all_qualified: Option<Vec<(Alias, Alias)>> = s
        .items
        .iter()
        .map(|it| match (&it.expr, &it.alias, &it.window) {
            (X::QCol(t, c), None, None) => Some((a(t), a(c))),
            _ => None,
        })
        .collect();
    let plural_items = if !plural_items && matches!(&all_qualified, Some(v) if v.len() >= 2) && route(2) == 0 {
        q.columns(all_qualified.clone().unwrap());
        true
    } else {
        plural_items
    };
    // unaliased expressions without windows: `exprs` takes them in one call
    let all_exprs = !plural_items && s.items.len() >= 2 && s.items.iter().all(|it| it.alias.is_none() && it.window.is_none()) && route(3) == 0;
    if all_exprs {
        q.exprs(s.items.iter().map(|it| it.expr.build()));
    }
    for it in s.items.iter().filter(|_| !plural_items && !all_exprs) {
        let e = it.expr.build();
        match (&it.window, &it.alias) {
            (None, None) => match &it.expr {
                X::Col(c) if route(2) == 0 => {
                    q.column(a(c));
                }
                X::QCol(t, c) if route(2) == 0 => {
                    q.column((a(t), a(c)));
                }
                X::Star if route(2) == 0 => {
                    q.column(Asterisk);
                }
                _ => {
                    q.expr(e);
                }
            },
            (None, Some(al)) => {
                if route(2) == 0 {
                    q.expr_as(e, a(al));
                } else {
                    q.expr(SelectExpr { expr: e, alias: Some(a(al).into_iden()), window: None });
                }
            }
            (Some(WinRef::Inline(w)), None) => {
                q.expr_window(e, window(w));
            }
            (Some(WinRef::Inline(w)), Some(al)) => {
                q.expr_window_as(e, window(w), a(al));
            }
            (Some(WinRef::Named(n)), None) => {
                q.expr_window_name(e, a(n));
            }
            (Some(WinRef::Named(n)), Some(al)) => {
                q.expr_window_name_as(e, a(n), a(al));
            }
        }
    }
    // joins may be declared before the FROM tables; from_clear() removes the FROM tables and nothing else
    let joins_first = !s.from.is_empty() && !s.joins.is_empty() && route(6) == 0;
    if joins_first {
        q.from(a("zz_discarded"));
        add_joins(&mut q, s);
        q.from_clear();
    }
    for f in &s.from {
        add_from(&mut q, f);
    }
    for (kind, scope, ix) in &s.index_hints {
        let sc = match scope {
            1 => IndexHintScope::Join,
            2 => IndexHintScope::OrderBy,
            3 => IndexHintScope::GroupBy,
            _ => IndexHintScope::All,
        };
        match kind {
            0 => q.use_index(a(ix), sc),
            1 => q.ignore_index(a(ix), sc),
            _ => q.force_index(a(ix), sc),
        };
    }
    if let Some((system, pct, rep)) = &s.sample {
        q.table_sample(if *system { SampleMethod::SYSTEM } else { SampleMethod::BERNOULLI }, *pct, *rep);
    }
    if !joins_first {
        add_joins(&mut q, s);
    }
    add_wheres(&mut q, &s.wheres);
    if route(4) == 0 {
        q.and_where_option(None);
    }
    let group_cols: Option<Vec<Alias>> = s.groups.iter().map(|g| if let X::Col(c) = g { Some(a(c)) } else { None }).collect();
    let plural_groups = matches!(&group_cols, Some(v) if v.len() >= 2) && route(2) == 0;
    if plural_groups {
        q.group_by_columns(group_cols.clone().unwrap());
    }
    let group_qcols: Option<Vec<(Alias, Alias)>> = s.groups.iter().map(|g| if let X::QCol(t, c) = g { Some((a(t), a(c))) } else { None }).collect();
    let plural_groups = if !plural_groups && matches!(&group_qcols, Some(v) if v.len() >= 2) && route(2) == 0 {
        q.group_by_columns(group_qcols.clone().unwrap());
        true
    } else {
        plural_groups
    };
    for g in s.groups.iter().filter(|_| !plural_groups) {
        match g {
            X::Col(c) if route(2) == 0 => {
                q.group_by_col(a(c));
            }
            X::QCol(t, c) if route(2) == 0 => {
                q.group_by_col((a(t), a(c)));
            }
            _ => {
                q.add_group_by([g.build()]);
            }
        }
    }
    for h in &s.havings {
        if route(2) == 0 {
            q.and_having(h.build());
        } else {
            q.cond_having(h.build());
        }
    }
    if let Some((name, w)) = &s.window {
        q.window(a(name), window(w));
    }
    if !s.unions.is_empty() {
        // operands accumulate over union() / unions() calls in any split
        match route(4) {
            0 => {
                for (op, u) in &s.unions {
                    q.union(union_type(*op), sel(u));
                }
            }
            1 => {
                q.unions(s.unions.iter().map(|(op, u)| (union_type(*op), sel(u))));
            }
            2 => {
                let (op, u) = &s.unions[0];
                q.union(union_type(*op), sel(u));
                q.unions(s.unions[1..].iter().map(|(op, u)| (union_type(*op), sel(u))));
            }
            _ => {
                let k = s.unions.len() / 2;
                q.unions(s.unions[..k].iter().map(|(op, u)| (union_type(*op), sel(u))));
                q.unions(s.unions[k..].iter().map(|(op, u)| (union_type(*op), sel(u))));
            }
        }
    }
    // all keys plain columns without NULLS ordering: the plural form takes them in one call
    let plain_cols: Option<Vec<(Alias, Order)>> = s
        .orders
        .iter()
        .map(|o| match (&o.expr, &o.dir, o.nulls_first) {
            (X::Col(c), Dir::Asc, None) => Some((a(c), Order::Asc)),
            (X::Col(c), Dir::Desc, None) => Some((a(c), Order::Desc)),
            _ => None,
        })
        .collect();
    match plain_cols {
        Some(cols) if cols.len() >= 2 && route(3) == 0 => {
            q.order_by_columns(cols);
        }
        _ => {
            for o in &s.orders {
                add_order(&mut q, o);
            }
        }
    }
    // limit / offset directly, or through the conditional helpers
    match route(4) {
        0 => {
            q.apply_if(s.limit, |q, l| {
                q.limit(l);
            });
            q.apply_if(s.offset, |q, l| {
                q.offset(l);
            });
        }
        1 => {
            let (l, o) = (s.limit, s.offset);
            q.apply(|q| {
                if let Some(l) = l {
                    q.limit(l);
                }
                if let Some(o) = o {
                    q.offset(o);
                }
            });
        }
        2 => {
            let (l, o) = (s.limit, s.offset);
            q.conditions(
                l.is_some(),
                |q| {
                    q.limit(l.unwrap());
                },
                |_| {},
            );
            if let Some(o) = o {
                q.offset(o);
            }
        }
        _ => {
            if let Some(l) = s.limit {
                q.limit(l);
            }
            if let Some(l) = s.offset {
                q.offset(l);
            }
        }
    }
    if let Some(l) = &s.lock {
        let ty = match l.kind {
            LockKind::Update => LockType::Update,
            LockKind::Share => LockType::Share,
            LockKind::NoKeyUpdate => LockType::NoKeyUpdate,
            LockKind::KeyShare => LockType::KeyShare,
        };
        let beh = l.nowait.map(|n| if n { LockBehavior::Nowait } else { LockBehavior::SkipLocked });
        let tables: Vec<Alias> = l.of.iter().map(|t| a(t)).collect();
        match (tables.is_empty(), beh) {
            (true, None) => {
                if l.kind == LockKind::Update && route(2) == 0 {
                    q.lock_exclusive();
                } else if l.kind == LockKind::Share && route(2) == 0 {
                    q.lock_shared();
                } else {
                    q.lock(ty);
                }
            }
            (true, Some(b)) => {
                q.lock_with_behavior(ty, b);
            }
            (false, None) => {
                q.lock_with_tables(ty, tables);
            }
            (false, Some(b)) => {
                q.lock_with_tables_behavior(ty, tables, b);
            }
        }
    }
    if let Some(w) = &s.with {
        q.with_cte(with_clause(w));
    }
    // the documented way of finishing a builder chain: take() instead of keeping the builder
    if route(3) == 0 {
        return q.take();
    }
    q
}

fn union_type(op: SetOp) -> UnionType {
    match op {
        SetOp::Union => UnionType::Distinct,
        SetOp::UnionAll => UnionType::All,
        SetOp::Intersect => UnionType::Intersect,
        SetOp::Except => UnionType::Except,
    }
}

fn returning_clause(r: &RetSpec) -> ReturningClause {
    match r {
        RetSpec::All => Query::returning().all(),
        RetSpec::Cols(c) if c.len() == 1 && route(2) == 0 => Query::returning().column(a(&c[0])),
        RetSpec::Cols(c) => Query::returning().columns(c.iter().map(|x| a(x))),
        RetSpec::Exprs(e) if e.len() == 1 && route(2) == 0 => Query::returning().expr(e[0].build()),
        RetSpec::Exprs(e) => Query::returning().exprs(e.iter().map(|x| x.build())),
    }
}

pub fn conflict(c: &Conflict) -> OnConflict {
    let mut oc = if c.target_cols.is_empty() {
        OnConflict::new()
    } else if c.target_cols.len() == 1 && route(2) == 0 {
        OnConflict::column(a(&c.target_cols[0]))
    } else {
        OnConflict::columns(c.target_cols.iter().map(|x| a(x)))
    };
    for e in &c.target_exprs {
        oc.expr(e.build());
    }
    for w in &c.target_where {
        match route(3) {
            0 => {
                oc.target_and_where(w.build());
            }
            1 => {
                oc.target_and_where_option(Some(w.build()));
            }
            _ => {
                oc.target_cond_where(w.build());
            }
        }
    }
    match &c.action {
        Some(ConflictAction::Nothing) => {
            oc.do_nothing();
        }
        Some(ConflictAction::NothingOn(k)) => {
            oc.do_nothing_on(k.iter().map(|x| a(x)));
        }
        Some(ConflictAction::UpdateCols(cols)) => {
            if route(4) == 0 {
                // an earlier do_nothing() is replaced by the update action
                oc.do_nothing();
            }
            if cols.len() == 1 && route(2) == 0 {
                oc.update_column(a(&cols[0]));
            } else {
                oc.update_columns(cols.iter().map(|x| a(x)));
            }
        }
        Some(ConflictAction::UpdateExprs(es)) => {
            if route(4) == 0 {
                oc.do_nothing();
            }
            if route(2) == 0 {
                for (k, e) in es {
                    oc.value(a(k), e.build());
                }
            } else {
                oc.values(es.iter().map(|(k, e)| (a(k), e.build())));
            }
        }
        None => {}
    }
    for w in &c.action_where {
        match route(3) {
            0 => {
                oc.action_and_where(w.build());
            }
            1 => {
                oc.action_and_where_option(Some(w.build()));
            }
            _ => {
                oc.action_cond_where(w.build());
            }
        }
    }
    if route(4) == 0 {
        oc.action_and_where_option(None);
        oc.target_and_where_option(None);
    }
    oc
}

pub fn ins(s: &Ins) -> InsertStatement {
    let mut q = Query::insert();
    if s.replace {
        q.replace();
    }
    q.into_table(a(&s.table));
    q.columns(s.cols.iter().map(|c| a(c)));
    // `or_default_values()` is a fallback for a statement that ends up without rows: next to real rows or a
    // SELECT source it changes nothing, whether it is called before or after them
    let fallback = if matches!(&s.source, InsSource::Default(_)) { 0 } else { route(5) };
    if fallback == 1 {
        q.or_default_values();
    }
    match &s.source {
        InsSource::Values(rows) => {
            let r3 = route(4);
            if r3 == 0 {
                q.values_from_panic(rows.iter().map(|r| r.iter().map(|c| c.build()).collect::<Vec<_>>()));
            } else if r3 == 1 && rows.len() >= 2 {
                // rows accumulate over values_panic / values_from_panic calls in any split
                q.values_panic(rows[0].iter().map(|c| c.build()).collect::<Vec<_>>());
                q.values_from_panic(rows[1..].iter().map(|r| r.iter().map(|c| c.build()).collect::<Vec<_>>()));
            } else {
                for r in rows {
                    let cells: Vec<SimpleExpr> = r.iter().map(|c| c.build()).collect();
                    if route(2) == 0 {
                        q.values_panic(cells);
                    } else {
                        q.values(cells).unwrap();
                    }
                }
            }
        }
        InsSource::Select(sq) => {
            q.select_from(sel(sq)).unwrap();
        }
        InsSource::Default(n) => {
            // an empty row offered to a statement without columns adds nothing (before or after the fallback)
            let empty_row = s.cols.is_empty() && route(3) == 0;
            let after = route(2) == 0;
            if empty_row && !after {
                q.values_panic(Vec::<SimpleExpr>::new());
            }
            if *n == 1 && route(2) == 0 {
                q.or_default_values();
            } else {
                q.or_default_values_many(*n);
            }
            if empty_row && after {
                q.values_panic(Vec::<SimpleExpr>::new());
            }
        }
    }
    if fallback == 2 {
        q.or_default_values_many(2);
    }
    if let Some(c) = &s.conflict {
        q.on_conflict(conflict(c));
    }
    if let Some(r) = &s.returning {
        match r {
            RetSpec::All if route(2) == 0 => {
                q.returning_all();
            }
            RetSpec::Cols(c) if c.len() == 1 && route(2) == 0 => {
                q.returning_col(a(&c[0]));
            }
            _ => {
                q.returning(returning_clause(r));
            }
        }
    }
    if let Some(w) = &s.with {
        q.with_cte(with_clause(w));
    }
    q
}

pub fn upd(s: &Upd) -> UpdateStatement {
    let mut q = Query::update();
    match &s.alias {
        Some(al) => q.table(TableRef::TableAlias(a(&s.table).into_iden(), a(al).into_iden())),
        None => q.table(a(&s.table)),
    };
    if route(2) == 0 {
        q.values(s.sets.iter().map(|(c, e)| (a(c), e.build())));
    } else {
        for (c, e) in &s.sets {
            q.value(a(c), e.build());
        }
    }
    for f in &s.from {
        q.from(table_ref(f));
    }
    add_wheres(&mut q, &s.wheres);
    for o in &s.orders {
        add_order(&mut q, o);
    }
    if let Some(l) = s.limit {
        q.limit(l);
    }
    if let Some(r) = &s.returning {
        match r {
            RetSpec::All if route(2) == 0 => {
                q.returning_all();
            }
            RetSpec::Cols(c) if c.len() == 1 && route(2) == 0 => {
                q.returning_col(a(&c[0]));
            }
            _ => {
                q.returning(returning_clause(r));
            }
        }
    }
    if let Some(w) = &s.with {
        q.with_cte(with_clause(w));
    }
    q
}

pub fn del(s: &Del) -> DeleteStatement {
    let mut q = Query::delete();
    match &s.alias {
        Some(al) => q.from_table(TableRef::TableAlias(a(&s.table).into_iden(), a(al).into_iden())),
        None => q.from_table(a(&s.table)),
    };
    add_wheres(&mut q, &s.wheres);
    for o in &s.orders {
        add_order(&mut q, o);
    }
    if let Some(l) = s.limit {
        q.limit(l);
    }
    if let Some(r) = &s.returning {
        match r {
            RetSpec::All if route(2) == 0 => {
                q.returning_all();
            }
            RetSpec::Cols(c) if c.len() == 1 && route(2) == 0 => {
                q.returning_col(a(&c[0]));
            }
            _ => {
                q.returning(returning_clause(r));
            }
        }
    }
    if let Some(w) = &s.with {
        q.with_cte(with_clause(w));
    }
    q
}

/// A built statement of any kind, with uniform access to the rendering entry points.
pub enum Built {
    Sel(SelectStatement),
    Ins(InsertStatement),
    Upd(UpdateStatement),
    Del(DeleteStatement),
    /// a statement given its WITH clause from outside: `stmt.with(clause)` / `clause.query(stmt)` / the
    /// `WithQuery` builder
    With(WithQuery),
}

fn with_query<T: QueryStatementBuilder + 'static>(w: &With, body: T, via_stmt: impl FnOnce(T, WithClause) -> WithQuery) -> WithQuery {
    match route(3) {
        0 => via_stmt(body, with_clause(w)),
        1 => with_clause(w).query(body),
        _ => {
            // the WithQuery builder: the whole clause, or its parts one by one
            let mut wq = WithQuery::new();
            if route(2) == 0 {
                wq.with_clause(with_clause(w));
            } else {
                wq.recursive(w.recursive);
                for c in cte_list(w) {
                    wq.cte(c);
                }
                if let Some(x) = search_of(w) {
                    wq.search(x);
                }
                if let Some(x) = cycle_of(w) {
                    wq.cycle(x);
                }
            }
            wq.query(body);
            wq
        }
    }
}

pub fn stmt(s: &Stmt) -> Built {
    // a top-level WITH clause can be attached from outside instead of through with_cte()
    if route(3) == 0 {
        match s {
            Stmt::Sel(q) if q.with.is_some() => {
                let mut body = q.clone();
                let w = body.with.take().unwrap();
                return Built::With(with_query(&w, sel(&body), |b, c| b.with(c)));
            }
            Stmt::Ins(q) if q.with.is_some() => {
                let mut body = q.clone();
                let w = body.with.take().unwrap();
                return Built::With(with_query(&w, ins(&body), |b, c| b.with(c)));
            }
            Stmt::Upd(q) if q.with.is_some() => {
                let mut body = q.clone();
                let w = body.with.take().unwrap();
                return Built::With(with_query(&w, upd(&body), |b, c| b.with(c)));
            }
            Stmt::Del(q) if q.with.is_some() => {
                let mut body = q.clone();
                let w = body.with.take().unwrap();
                return Built::With(with_query(&w, del(&body), |b, c| b.with(c)));
            }
            _ => {}
        }
    }
    match s {
        Stmt::Sel(q) => Built::Sel(sel(q)),
        Stmt::Ins(q) => Built::Ins(ins(q)),
        Stmt::Upd(q) => Built::Upd(upd(q)),
        Stmt::Del(q) => Built::Del(del(q)),
    }
}

impl Built {
    pub fn as_dyn(&self) -> &dyn QueryStatementBuilder {
        match self {
            Built::Sel(s) => s,
            Built::Ins(s) => s,
            Built::Upd(s) => s,
            Built::Del(s) => s,
            Built::With(s) => s,
        }
    }
    pub fn inline(&self, q: &dyn QueryBuilder) -> String {
        let mut s = String::new();
        self.as_dyn().build_collect_any(q, &mut s)
    }
    pub fn build(&self, q: &dyn QueryBuilder) -> (String, Values) {
        self.as_dyn().build_any(q)
    }
}
