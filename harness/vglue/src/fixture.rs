//! The engine fixture (DESIGN.md Appendix D): one in-memory SQLite database per
//! shard; each statement runs inside a savepoint that is rolled back.

use crate::gen::FIXTURE_SQL;
use sea_query::{Value, Values};
use vcore::sqlite::{sort_rows, Db, Row, SqlVal};

pub struct Fixture {
    pub db: Db,
}

#[derive(Debug, Clone, PartialEq)]
pub enum Outcome {
    Ok { rows: Vec<Row>, snapshot: Vec<Vec<Row>> },
    /// rejected at prepare time (syntax / name resolution)
    Rejected(String),
    /// failed while executing (constraint violation, ...)
    Failed(String),
}

pub fn bind_of(v: &Value) -> Option<SqlVal> {
    Some(match v {
        Value::Bool(Some(b)) => SqlVal::Int(*b as i64),
        Value::TinyInt(Some(i)) => SqlVal::Int(*i as i64),
        Value::SmallInt(Some(i)) => SqlVal::Int(*i as i64),
        Value::Int(Some(i)) => SqlVal::Int(*i as i64),
        Value::BigInt(Some(i)) => SqlVal::Int(*i),
        Value::TinyUnsigned(Some(i)) => SqlVal::Int(*i as i64),
        Value::SmallUnsigned(Some(i)) => SqlVal::Int(*i as i64),
        Value::Unsigned(Some(i)) => SqlVal::Int(*i as i64),
        Value::BigUnsigned(Some(i)) if *i <= i64::MAX as u64 => SqlVal::Int(*i as i64),
        Value::Double(Some(f)) if f.is_finite() => SqlVal::Real(*f),
        Value::String(Some(s)) => SqlVal::Text(s.as_bytes().to_vec()),
        Value::Char(Some(c)) => SqlVal::Text(c.to_string().into_bytes()),
        Value::Bytes(Some(b)) => SqlVal::Blob((**b).clone()),
        // a JSON document reaches SQLite as its serialised text
        Value::Json(Some(j)) => SqlVal::Text(j.to_string().into_bytes()),
        Value::Json(None) => SqlVal::Null,
        Value::Bool(None)
        | Value::TinyInt(None)
        | Value::SmallInt(None)
        | Value::Int(None)
        | Value::BigInt(None)
        | Value::TinyUnsigned(None)
        | Value::SmallUnsigned(None)
        | Value::Unsigned(None)
        | Value::BigUnsigned(None)
        | Value::Double(None)
        | Value::Float(None)
        | Value::String(None)
        | Value::Char(None)
        | Value::Bytes(None) => SqlVal::Null,
        _ => return None,
    })
}

pub fn binds_of(vals: &Values) -> Option<Vec<SqlVal>> {
    vals.0.iter().map(bind_of).collect()
}

impl Fixture {
    pub fn new() -> Fixture {
        let db = Db::memory();
        db.exec_script(FIXTURE_SQL).expect("fixture");
        Fixture { db }
    }

    pub fn snapshot(&self) -> Vec<Vec<Row>> {
        ["SELECT * FROM t1 ORDER BY id", "SELECT * FROM t2 ORDER BY id", "SELECT * FROM t3 ORDER BY k, v, n", "SELECT * FROM t4 ORDER BY id", "SELECT * FROM \"o`d\"\"t\" ORDER BY id"]
            .iter()
            .map(|q| self.db.rows(q).expect("snapshot"))
            .collect()
    }

    /// Execute inside a savepoint; `ordered` keeps the row order, otherwise rows are sorted (multiset).
    pub fn run(&self, sql: &str, binds: &[SqlVal], ordered: bool) -> Outcome {
        self.db.exec("SAVEPOINT fx").expect("savepoint");
        let r = self.db.query(sql, binds);
        let out = match r {
            Ok(q) => {
                let mut rows = q.rows;
                if !ordered {
                    sort_rows(&mut rows);
                }
                Outcome::Ok { rows, snapshot: self.snapshot() }
            }
            Err(e) if e.at_prepare => Outcome::Rejected(e.msg),
            Err(e) if self.db.step_budget_exceeded() => Outcome::Failed(format!("step budget exceeded ({})", e.msg)),
            Err(e) => Outcome::Failed(e.msg),
        };
        self.db.exec("ROLLBACK TO fx").expect("rollback");
        self.db.exec("RELEASE fx").expect("release");
        out
    }
}

pub fn show_outcome(o: &Outcome) -> String {
    match o {
        Outcome::Ok { rows, snapshot } => format!(
            "rows[{}]: {} ; tables: {}",
            rows.len(),
            vcore::sqlite::show_rows(rows),
            snapshot.iter().map(|t| t.len().to_string()).collect::<Vec<_>>().join("/")
        ),
        Outcome::Rejected(m) => format!("REJECTED: {m}"),
        Outcome::Failed(m) => format!("FAILED: {m}"),
    }
}
