//! C11 — custom SQL templates and inject_parameters replace exactly the placeholders.
//! Oracle: an independent reference scanner over the template text.

use crate::util::*;
use sea_query::*;
use serde_json::json;
use vcore::prng::{hash_str, Rng};
use vcore::report::Report;
use vcore::run::{guard, panic_sig, Ctx};

/// Reference expansion: returns the list of segments: Text(..) or Slot(index into values).
#[derive(Debug, Clone, PartialEq)]
enum Seg {
    Text(String),
    Slot(usize),
}

fn reference_scan(d: Dialect, tpl: &str) -> Result<Vec<Seg>, String> {
    let cs: Vec<char> = tpl.chars().collect();
    let mut out: Vec<Seg> = vec![];
    let mut cur = String::new();
    let mut i = 0;
    let mut next_pos = 0usize;
    let mark = if d == Dialect::Postgres { '$' } else { '?' };
    while i < cs.len() {
        let c = cs[i];
        let is_quote = c == '\'' || c == '"' || c == '`' || (c == '[' && d == Dialect::Sqlite);
        if is_quote {
            let close = if c == '[' { ']' } else { c };
            cur.push(c);
            i += 1;
            loop {
                if i >= cs.len() {
                    return Err("unterminated quote in template (generator bug)".into());
                }
                let x = cs[i];
                cur.push(x);
                i += 1;
                if x == close {
                    if close != ']' && i < cs.len() && cs[i] == close {
                        cur.push(close);
                        i += 1;
                        continue;
                    }
                    break;
                }
            }
            continue;
        }
        if c == mark {
            let in_word = d == Dialect::Postgres && i > 0 && (cs[i - 1].is_alphanumeric() || cs[i - 1] == '_') && !cur.is_empty() && cur.ends_with(cs[i - 1]);
            if !in_word && i + 1 < cs.len() && cs[i + 1] == mark {
                cur.push(mark);
                i += 2;
                continue;
            }
            if in_word {
                // Postgres identifiers may contain `$` after their first character (letters include non-ASCII
                // ones): `café$1` is one word, not a word followed by a placeholder
                cur.push(c);
                i += 1;
                while i < cs.len() && (cs[i].is_alphanumeric() || cs[i] == '_' || cs[i] == '$') {
                    cur.push(cs[i]);
                    i += 1;
                }
                continue;
            }
            if d == Dialect::Postgres {
                let mut j = i + 1;
                while j < cs.len() && cs[j].is_ascii_digit() {
                    j += 1;
                }
                let after_is_word = j < cs.len() && (cs[j].is_alphanumeric() || cs[j] == '_' || cs[j] == '$');
                if j > i + 1 && !after_is_word {
                    let num: usize = cs[i + 1..j].iter().collect::<String>().parse().map_err(|_| "bad number")?;
                    if !cur.is_empty() {
                        out.push(Seg::Text(std::mem::take(&mut cur)));
                    }
                    out.push(Seg::Slot(num - 1));
                    i = j;
                    continue;
                }
                // `$` not followed by a number: an ordinary character
                cur.push(c);
                i += 1;
                continue;
            }
            if !cur.is_empty() {
                out.push(Seg::Text(std::mem::take(&mut cur)));
            }
            out.push(Seg::Slot(next_pos));
            next_pos += 1;
            i += 1;
            continue;
        }
        cur.push(c);
        i += 1;
    }
    if !cur.is_empty() {
        out.push(Seg::Text(cur));
    }
    Ok(out)
}

const NPIECES: usize = 14;

/// Append piece `k` to the template; returns a label of the piece kind.
fn push_piece(d: Dialect, t: &mut String, k: usize, nph: &mut usize, rng: &mut Rng) -> &'static str {
    let mark = if d == Dialect::Postgres { '$' } else { '?' };
    let idq = if d == Dialect::Mysql { '`' } else { '"' };
    match k {
        0 => {
            if t.ends_with(|c: char| c.is_ascii_digit()) && t.contains('$') {
                t.push(' ');
            }
            t.push_str("abc");
            "word"
        }
        1 => {
            if t.ends_with(|c: char| c.is_alphanumeric() || c == '$') {
                t.push(' ');
            }
            t.push_str("42");
            "number"
        }
        2 => {
            t.push_str(" = ");
            "operator"
        }
        3 => {
            // blanks of every kind the tokenizer knows (they are emitted unchanged)
            t.push_str(*rng.pick(&[" ", " ", "\t", "\n", " \t ", "\r\n"]));
            "space"
        }
        4 => {
            t.push(',');
            "comma"
        }
        5 => {
            t.push_str("'a?b$1'");
            "literal-with-marks"
        }
        6 => {
            t.push_str("'it''s ? $2'");
            "literal-with-doubled-quote"
        }
        7 => {
            t.push(idq);
            t.push_str("c?$1");
            t.push(idq);
            t.push(idq);
            t.push_str("x");
            t.push(idq);
            "quoted-identifier-with-marks"
        }
        8 => {
            // placeholder, delimited
            if t.ends_with(mark) || (d == Dialect::Postgres && t.ends_with(|c: char| c.is_alphanumeric() || c == '_')) {
                t.push(' ');
            }
            *nph += 1;
            if d == Dialect::Postgres {
                // numbered: mostly ascending, sometimes a repeat / reorder
                let n = if *nph > 1 && rng.chance(1, 4) { 1 + rng.below(*nph) } else { *nph };
                t.push_str(&format!("${n}"));
                if n != *nph {
                    *nph -= 1;
                    return "placeholder-repeat";
                }
            } else {
                t.push('?');
            }
            "placeholder"
        }
        9 => {
            // delimited: on Postgres `abc$$` is an identifier and `$1$$` is ambiguous
            if t.ends_with(mark) || (d == Dialect::Postgres && t.ends_with(|c: char| c.is_alphanumeric() || c == '_')) {
                t.push(' ');
            }
            t.push(mark);
            t.push(mark);
            t.push(' ');
            "doubled-mark"
        }
        10 => {
            // the other dialect's mark: an ordinary character here
            if d == Dialect::Postgres {
                t.push_str(" ? ");
            } else {
                if t.ends_with(|c: char| c.is_alphanumeric()) {
                    t.push(' ');
                }
                t.push_str("$1 ");
            }
            "foreign-mark"
        }
        11 => {
            if t.ends_with(mark) || t.ends_with(|c: char| c.is_alphanumeric()) {
                t.push(' ');
            }
            t.push_str("$abc ");
            "dollar-word"
        }
        12 => {
            t.push_str("(x)");
            "parens"
        }
        _ => {
            if t.ends_with(mark) || t.ends_with(|c: char| c.is_alphanumeric()) {
                t.push(' ');
            }
            t.push_str("$ ");
            "lone-dollar"
        }
    }
}

fn sel_prefix(d: Dialect) -> &'static str {
    let _ = d;
    "SELECT "
}

fn render_expr_inline(d: Dialect, e: &SimpleExpr) -> String {
    let mut s = String::new();
    let full = Query::select().expr(e.clone()).build_collect_any(qb(d), &mut s);
    full[sel_prefix(d).len()..].to_string()
}

fn ph(d: Dialect, i: usize) -> String {
    if d == Dialect::Postgres {
        format!("${i}")
    } else {
        "?".into()
    }
}

fn check_template(ctx: &Ctx, rep: &mut Report, n: u64, d: Dialect, tpl: &str, labels: &[&str], rng: &mut Rng) {
    rep.eval();
    let segs = match reference_scan(d, tpl) {
        Ok(s) => s,
        Err(e) => {
            rep.inconclusive(&e);
            return;
        }
    };
    let nvals = segs.iter().filter_map(|s| if let Seg::Slot(i) = s { Some(*i + 1) } else { None }).max().unwrap_or(0);
    // values: tagged ints, sometimes strings with marks / quotes, sometimes a compound expression
    let mut exprs: Vec<SimpleExpr> = vec![];
    let mut plain: Vec<Value> = vec![];
    let mut all_plain = true;
    for i in 0..nvals {
        let tag = 100 + i as i32;
        match rng.below(6) {
            0 => {
                let v: Value = format!("v{tag}?$1'\"").into();
                plain.push(v.clone());
                exprs.push(SimpleExpr::Value(v));
            }
            1 => {
                all_plain = false;
                if d == Dialect::Postgres && rng.coin() {
                    // an enum cast directly as the designated value (needs the Postgres override)
                    exprs.push(Expr::val(format!("e{tag}")).as_enum(Alias::new("mood")));
                } else {
                    exprs.push(Expr::col(Alias::new("k")).add(tag));
                }
            }
            _ => {
                let v: Value = tag.into();
                plain.push(v.clone());
                exprs.push(SimpleExpr::Value(v));
            }
        }
    }
    let route = if all_plain { rng.below(2) } else { 1 };
    let e = if nvals == 1 && !all_plain && rng.coin() {
        Expr::cust_with_expr(tpl, exprs[0].clone())
    } else if route == 0 {
        Expr::cust_with_values(tpl, plain.clone())
    } else {
        Expr::cust_with_exprs(tpl, exprs.clone())
    };
    // expected inline and parameterised
    let mut want_inline = String::from(sel_prefix(d));
    let mut want_param = String::from(sel_prefix(d));
    let mut want_vals: Vec<Value> = vec![];
    for s in &segs {
        match s {
            Seg::Text(t) => {
                want_inline.push_str(t);
                want_param.push_str(t);
            }
            Seg::Slot(i) => {
                want_inline.push_str(&render_expr_inline(d, &exprs[*i]));
                // parameterised: the expression's own build with placeholders renumbered
                let (sub, vals) = Query::select().expr(exprs[*i].clone()).build_any(qb(d));
                let mut sub = sub[sel_prefix(d).len()..].to_string();
                if d == Dialect::Postgres {
                    // sub-expression has at most one placeholder ($1): renumber to the running count
                    sub = sub.replace("$1", &ph(d, want_vals.len() + 1));
                }
                want_param.push_str(&sub);
                want_vals.extend(vals.0);
            }
        }
    }
    let stmt = Query::select().expr(e).to_owned();
    let got = guard(|| {
        let mut s = String::new();
        let inline = stmt.build_collect_any(qb(d), &mut s);
        let (p, v) = stmt.build_any(qb(d));
        (inline, p, v)
    });
    // the statically dispatched `to_string` is an entry point of its own
    let ts = guard(|| match d {
        Dialect::Mysql => stmt.to_string(sea_query::MysqlQueryBuilder),
        Dialect::Postgres => stmt.to_string(sea_query::PostgresQueryBuilder),
        Dialect::Sqlite => stmt.to_string(sea_query::SqliteQueryBuilder),
    });
    let kinds: std::collections::BTreeSet<&str> = labels.iter().copied().collect();
    let sig_kinds = kinds.iter().copied().filter(|k| !matches!(*k, "word" | "number" | "operator" | "space" | "comma" | "parens")).collect::<Vec<_>>().join("+");
    match got {
        Err(p) => rep.violation(
            "R.panic",
            d.name(),
            format!("[{sig_kinds}] {}", panic_sig(&p)),
            json!({"template": tpl, "values": nvals, "panic": p}),
            ctx.shard,
            n,
        ),
        Ok((inline, param, vals)) => {
            if ts.as_deref() != Ok(want_inline.as_str()) && inline == want_inline {
                rep.violation(
                    "R.template.inline",
                    d.name(),
                    format!("to_string [{sig_kinds}]"),
                    json!({"template": tpl, "expected": want_inline, "got_to_string": format!("{ts:?}")}),
                    ctx.shard,
                    n,
                );
            } else if inline != want_inline {
                rep.violation(
                    "R.template.inline",
                    d.name(),
                    format!("[{sig_kinds}]"),
                    json!({"template": tpl, "expected": want_inline, "got": inline}),
                    ctx.shard,
                    n,
                );
            } else if param != want_param || vals.0 != want_vals {
                rep.violation(
                    "R.template.param",
                    d.name(),
                    format!("[{sig_kinds}]"),
                    json!({"template": tpl, "expected": want_param, "got": param,
                           "expected_values": format!("{want_vals:?}"), "got_values": format!("{:?}", vals.0)}),
                    ctx.shard,
                    n,
                );
            } else {
                // inject_parameters(build) == to_string, when the text outside quotes has no literal marks
                // `?` dialects: a literal `?` in the built text cannot be told from a placeholder. On Postgres a
                // `$` that is not followed by a number is not a placeholder, so those statements stay in.
                let has_literal_mark = (d != Dialect::Postgres && segs.iter().any(|s| matches!(s, Seg::Text(t) if outside_quotes_has_mark(d, t))))
                    || !all_plain;
                if !has_literal_mark {
                    rep.count("inject_checked", 1);
                    let inj = guard(|| inject_parameters(&param, vals.0.clone(), qb(d)));
                    if inj.as_deref() != Ok(inline.as_str()) {
                        rep.violation(
                            "R.inject",
                            d.name(),
                            format!("[{sig_kinds}]"),
                            json!({"sql": param, "values": format!("{:?}", vals.0), "expected": inline, "got": format!("{inj:?}")}),
                            ctx.shard,
                            n,
                        );
                    }
                }
            }
            // inject_parameters on the template text itself (hand-written SQL with placeholders, a numbered one
            // possibly more than once): every placeholder outside quotes is replaced by its value's literal,
            // everything else stays. (inject_parameters has no doubled-mark escape: templates with one are left out.)
            // (the pinned probe of the listed bracket-subscript finding is reported once, by the rule it is listed under)
            if all_plain && !kinds.iter().any(|k| k.contains("doubled") || *k == "bracket-subscript-placeholder") {
                let mut want = String::new();
                for s in &segs {
                    match s {
                        Seg::Text(t) => want.push_str(t),
                        Seg::Slot(i) => want.push_str(&qb(d).value_to_string(&plain[*i])),
                    }
                }
                rep.count("direct_inject_checked", 1);
                let got = guard(|| inject_parameters(tpl, plain.clone(), qb(d)));
                if got.as_deref() != Ok(want.as_str()) {
                    rep.violation(
                        "R.inject",
                        d.name(),
                        format!("template text [{sig_kinds}]"),
                        json!({"sql": tpl, "values": format!("{plain:?}"), "expected": want, "got": format!("{got:?}")}),
                        ctx.shard,
                        n,
                    );
                }
            }
            for k in &kinds {
                rep.note("piece_kinds", format!("{}:{k}", d.name()));
            }
            if nvals > 0 || kinds.len() > 1 {
                rep.nontrivial(hash_str(tpl) ^ (d as u64) << 60);
            }
            if n % 7919 == 11 {
                rep.sample(json!({"backend": d.name(), "template": tpl, "inline": inline, "param": param}));
            }
        }
    }
}

fn outside_quotes_has_mark(d: Dialect, t: &str) -> bool {
    // text segments of the reference scan include quoted runs; strip them
    let mut inq: Option<char> = None;
    for c in t.chars() {
        match inq {
            Some(q) => {
                if c == q {
                    inq = None;
                }
            }
            None => {
                if c == '\'' || c == '"' || c == '`' {
                    inq = Some(c);
                } else if c == '[' && d == Dialect::Sqlite {
                    inq = Some(']');
                } else if (c == '?' && d != Dialect::Postgres) || (c == '$' && d == Dialect::Postgres) {
                    return true;
                }
            }
        }
    }
    false
}

pub fn check(ctx: &Ctx, rep: &mut Report) {
    // bounded-exhaustive piece sequences
    let max_len = ctx.size(4, 5) as usize;
    let total: u64 = (1..=max_len).map(|l| (NPIECES as u64).pow(l as u32)).sum();
    let mut n = match ctx.replay {
        Some((_, c)) => c,
        None => ctx.shard,
    };
    while n < total {
        let mut idx = n;
        let mut len = 1;
        let mut p = NPIECES as u64;
        while idx >= p {
            idx -= p;
            p *= NPIECES as u64;
            len += 1;
        }
        let ks: Vec<usize> = (0..len)
            .map(|_| {
                let k = (idx % NPIECES as u64) as usize;
                idx /= NPIECES as u64;
                k
            })
            .collect();
        for d in Dialect::ALL {
            let mut rng = ctx.rng_global("vals", n * 3 + d as u64);
            let mut t = String::new();
            let mut nph = 0;
            let labels: Vec<&str> = ks.iter().map(|k| push_piece(d, &mut t, *k, &mut nph, &mut rng)).collect();
            check_template(ctx, rep, n, d, &t, &labels, &mut rng);
        }
        if ctx.replay.is_some() {
            return;
        }
        n += ctx.nshards;
    }
    if ctx.shard == 0 && ctx.replay.is_none() {
        rep.exhaustive_parts.push(format!(
            "all template piece sequences of length <= {max_len} over a {NPIECES}-piece alphabet ({total}) x 3 backends"
        ));
    }
    // pinned probe of the listed finding: a placeholder inside a Postgres array subscript
    let probe_n = total + (1 << 40);
    if (ctx.replay.is_none() && ctx.shard == 0) || ctx.replay.map(|r| r.1) == Some(probe_n) {
        let mut rng = ctx.rng_global("probe", 0);
        check_template(ctx, rep, probe_n, Dialect::Postgres, " arr[$1] ", &["bracket-subscript-placeholder"], &mut rng);
    }
    // random longer templates, incl. bracket pieces
    let nrand = ctx.size(150_000, 6_000_000) / ctx.nshards;
    for r in 0..nrand {
        let n = total + r;
        if !ctx.wants(n) {
            continue;
        }
        let mut rng = ctx.rng("rand", r);
        let len = 1 + rng.below(20);
        let ks: Vec<usize> = (0..len).map(|_| rng.below(NPIECES + 1)).collect();
        for d in Dialect::ALL {
            let mut t = String::new();
            let mut nph = 0;
            let mut labels = vec![];
            for k in &ks {
                if *k == NPIECES && rng.chance(1, 6) {
                    // a character from outside ASCII's classes (Unicode white space, numerics, a byte-order mark),
                    // standing alone between blanks: ordinary text that is passed through
                    t.push(' ');
                    t.push(*rng.pick(&['\u{a0}', '\u{c}', '\u{b}', '\u{2003}', '\u{feff}', '²', '½', '\u{663}', '\u{200b}']));
                    t.push(' ');
                    labels.push("exotic-character");
                } else if *k == NPIECES && rng.chance(1, 3) {
                    // a mark's number running straight into a word, or two numbered marks glued together: not
                    // placeholders on Postgres (`$1st` is not `$1` followed by `st`), ordinary text elsewhere
                    if t.ends_with(|c: char| c.is_alphanumeric() || c == '_' || c == '$' || c == '?') {
                        t.push(' ');
                    }
                    t.push_str(*rng.pick(&["$1st", "$2_x", "$1abc", "$1$2", "$12ab", "$3\u{e9}"]));
                    t.push(' ');
                    labels.push("mark-number-then-word");
                } else if *k == NPIECES && d == Dialect::Postgres && rng.coin() {
                    // a word that contains `$<digits>`: one identifier on Postgres, nothing to substitute
                    t.push(' ');
                    t.push_str(*rng.pick(&["abc$1", "caf\u{e9}$1", "ma\u{df}_$2", "x1$1$2"]));
                    t.push(' ');
                    labels.push("word-containing-dollar-digits");
                } else if *k == NPIECES && d == Dialect::Postgres {
                    // two doubled marks side by side: two literal `$` (a dollar-quote opener in the built text)
                    t.push_str(" $$$$q$$$$ ");
                    labels.push("adjacent-doubled-marks");
                } else if *k == NPIECES {
                    // bracket piece: SQLite quoted identifier / Postgres subscript with a placeholder
                    match d {
                        Dialect::Sqlite => {
                            // SQLite: a bracket identifier ends at its first `]`
                            match rng.below(3) {
                                0 => {
                                    t.push_str(" [c?x] ");
                                    labels.push("bracket-identifier");
                                }
                                1 => {
                                    t.push_str(" m[i[1]] ");
                                    labels.push("nested-brackets");
                                }
                                _ => {
                                    t.push_str(" [a]] ");
                                    labels.push("bracket-then-bracket");
                                }
                            }
                        }
                        // Postgres subscripts `arr[$n]` are quarantined: listed finding
                        // KF-C11-pg-bracket-subscript, exercised by the pinned probe below only
                        Dialect::Postgres => {}
                        Dialect::Mysql => {}
                    }
                } else {
                    labels.push(push_piece(d, &mut t, *k, &mut nph, &mut rng));
                }
            }
            if rng.chance(1, 8) {
                // the template ends with its last visible character; sometimes that is a lone mark
                while t.ends_with(|c: char| c.is_whitespace()) {
                    t.pop();
                }
                if d == Dialect::Postgres && rng.coin() {
                    if t.ends_with(|c: char| c.is_alphanumeric() || c == '_' || c == '$') {
                        t.push(' ');
                    }
                    t.push('$');
                    labels.push("final-lone-dollar");
                } else {
                    labels.push("no-trailing-blank");
                }
            }
            check_template(ctx, rep, n, d, &t, &labels, &mut rng);
        }
    }
    // inject_parameters over (sql, values) pairs produced by build() of generated statements
    let base = 1u64 << 44;
    let ninj = ctx.size(150_000, 8_000_000) / ctx.nshards;
    for r in 0..ninj {
        let n = base + r;
        if !ctx.wants(n) {
            continue;
        }
        let d = Dialect::ALL[(r % 3) as usize];
        let mut rng = ctx.rng("inject", r);
        let spec = {
            // identifiers / inline constants ending in a backslash: listed finding, pinned probes below
            let mut cfg = crate::gen::Cfg::text(d);
            cfg.trailing_backslash = false;
            let mut g = crate::gen::Gen::new(&mut rng, cfg);
            g.statement()
        };
        rep.eval();
        crate::apply::set_route_seed(ctx.seed ^ n);
        let res = guard(|| {
            let b = crate::apply::stmt(&spec);
            let inline = b.inline(qb(d));
            let (p, v) = b.build(qb(d));
            let inj = inject_parameters(&p, v.0.clone(), qb(d));
            (inline, p, v, inj)
        });
        match res {
            Ok((inline, p, v, inj)) => {
                rep.count("inject_statements_checked", 1);
                if inj != inline {
                    rep.violation(
                        "R.inject",
                        d.name(),
                        format!("statement {}", spec.kind()),
                        json!({"sql": p, "values": format!("{:?}", v.0), "expected": inline, "got": inj}),
                        ctx.shard,
                        n,
                    );
                } else if v.0.len() >= 2 {
                    rep.nontrivial(hash_str(&p) ^ (d as u64) << 60);
                }
            }
            Err(pm) => rep.violation("R.panic", d.name(), format!("inject {}", panic_sig(&pm)), json!({"panic": pm}), ctx.shard, n),
        }
    }
    // pinned probes of the listed finding KF-C11-trailing-backslash: the tokenizer behind inject_parameters
    // takes a backslash in front of a closing quote for an escape in every dialect and for every kind of
    // quote, so (a) an identifier ending in a backslash (all backends) and (b) SQLite's `ESCAPE '\'` hide
    // the placeholders that follow
    let pbase = (1u64 << 46) + 7;
    for (k, d) in Dialect::ALL.iter().enumerate() {
        let n = pbase + k as u64;
        if (ctx.replay.is_none() && ctx.shard == 0) || ctx.replay.map(|r| r.1) == Some(n) {
            use sea_query::*;
            let q = Query::select()
                .expr_as(Expr::val(1), Alias::new("dir\\"))
                .from(Alias::new("t"))
                .and_where(Expr::col(Alias::new("c")).eq(3))
                .to_owned();
            inject_probe(ctx, rep, n, *d, &q, "[identifier-ending-in-backslash]");
        }
    }
    let n = pbase + 3;
    if (ctx.replay.is_none() && ctx.shard == 0) || ctx.replay.map(|r| r.1) == Some(n) {
        use sea_query::*;
        let q = Query::select()
            .column(Alias::new("a"))
            .from(Alias::new("t"))
            .and_where(Expr::col(Alias::new("a")).like(LikeExpr::new("a\\%b").escape('\\')))
            .and_where(Expr::col(Alias::new("c")).eq(3))
            .to_owned();
        inject_probe(ctx, rep, n, Dialect::Sqlite, &q, "[like-escape-backslash-constant]");
    }
}

fn inject_probe(ctx: &Ctx, rep: &mut Report, n: u64, d: Dialect, q: &sea_query::SelectStatement, sig: &str) {
    rep.eval();
    let res = guard(|| {
        let mut inline = String::new();
        q.build_collect_any_into(qb(d), &mut inline);
        let (p, v) = q.build_any(qb(d));
        let inj = inject_parameters(&p, v.0.clone(), qb(d));
        (inline, p, v, inj)
    });
    match res {
        Ok((inline, p, v, inj)) => {
            if inj != inline {
                rep.violation("R.inject", d.name(), sig.to_string(), json!({"sql": p, "values": format!("{:?}", v.0), "expected": inline, "got": inj}), ctx.shard, n);
            }
        }
        Err(pm) => rep.violation("R.inject", d.name(), sig.to_string(), json!({"panic": pm}), ctx.shard, n),
    }
}
