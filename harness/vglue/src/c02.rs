//! C02 — inline rendering and parameterised rendering are the same statement.

use crate::apply::{self, Built};
use crate::fixture::{binds_of, show_outcome, Fixture};
use crate::gen::{clause_kinds, Cfg, Gen};
use crate::refsql::Ref;
use crate::render::{entry_points_of, inherent_forms};
use crate::spec::*;
use crate::util::*;
use sea_query::*;
use serde_json::json;
use vcore::lex::{lex, Tok};
use vcore::prng::hash_str;
use vcore::report::Report;
use vcore::run::{guard, panic_sig, Ctx};

/// Replace the i-th placeholder token of `sql` by `lits[i]`.
fn splice(d: Dialect, sql: &str, lits: &[String]) -> Result<String, String> {
    let toks = lex(d, sql).map_err(|e| format!("lex: {}", e.msg))?;
    let mut out = String::new();
    let mut last = 0;
    let mut i = 0;
    for t in &toks {
        if let Tok::Param(n) = &t.tok {
            out.push_str(&sql[last..t.start]);
            let idx = match (d, n) {
                (Dialect::Postgres, Some(k)) => (*k as usize).wrapping_sub(1),
                _ => i,
            };
            out.push_str(lits.get(idx).ok_or("more placeholders than values")?);
            last = t.end;
            i += 1;
        }
    }
    out.push_str(&sql[last..]);
    if i != lits.len() {
        return Err(format!("{} placeholders, {} values", i, lits.len()));
    }
    Ok(out)
}

/// Shift Postgres placeholder numbers by `by`.
fn shift_pg(sql: &str, by: usize) -> String {
    let toks = lex(Dialect::Postgres, sql).unwrap_or_default();
    let mut out = String::new();
    let mut last = 0;
    for t in &toks {
        if let Tok::Param(Some(n)) = &t.tok {
            out.push_str(&sql[last..t.start]);
            out.push_str(&format!("${}", *n as usize + by));
            last = t.end;
        }
    }
    out.push_str(&sql[last..]);
    out
}

fn debug_of(b: &Built) -> String {
    match b {
        Built::Sel(s) => format!("{s:?}"),
        Built::Ins(s) => format!("{s:?}"),
        Built::Upd(s) => format!("{s:?}"),
        Built::Del(s) => format!("{s:?}"),
        Built::With(s) => format!("{s:?}"),
    }
}

fn equal_to_clone(b: &Built, c: &Built) -> bool {
    match (b, c) {
        (Built::Sel(x), Built::Sel(y)) => x == y,
        (Built::Ins(x), Built::Ins(y)) => x == y,
        (Built::Upd(x), Built::Upd(y)) => x == y,
        (Built::Del(x), Built::Del(y)) => x == y,
        (Built::With(x), Built::With(y)) => x == y,
        _ => false,
    }
}

fn clone_of(b: &Built) -> Built {
    match b {
        Built::Sel(x) => Built::Sel(x.clone()),
        Built::Ins(x) => Built::Ins(x.clone()),
        Built::Upd(x) => Built::Upd(x.clone()),
        Built::Del(x) => Built::Del(x.clone()),
        Built::With(x) => Built::With(x.clone()),
    }
}

pub fn check_spec(ctx: &Ctx, rep: &mut Report, fx: Option<&Fixture>, n: u64, d: Dialect, spec: &Stmt) {
    rep.eval();
    let route_seed = ctx.seed ^ n.wrapping_mul(0x9E3779B97F4A7C15);
    apply::set_route_seed(route_seed);
    let kinds = clause_kinds(spec);
    let sigk = || format!("{} [{}]", spec.kind(), kinds.join(","));
    let r = guard(|| {
        let b = apply::stmt(spec);
        let before = clone_of(&b);
        let dbg = debug_of(&b);
        let eps = entry_points_of(&b, d);
        let inh = inherent_forms(&b, d);
        let eps2 = entry_points_of(&b, d);
        (b, before, dbg, eps, inh, eps2)
    });
    let (mut b, before, dbg, eps, inh, eps2) = match r {
        Ok(x) => x,
        Err(p) => {
            rep.violation("R.panic", d.name(), format!("{} {}", spec.kind(), panic_sig(&p)), json!({"panic": p, "spec": format!("{spec:?}")}), ctx.shard, n);
            return;
        }
    };
    let inline = inh.0.clone();
    let (param, vals) = (inh.1.clone(), inh.2.clone());
    let vshow = format!("{vals:?}");
    // R.entry: every entry point agrees
    for (label, text) in &eps.inline {
        if *text != inline {
            rep.violation("R.entry", d.name(), format!("inline entry point {label} differs: {}", sigk()), json!({"inherent_to_string": inline, "other": text}), ctx.shard, n);
            return;
        }
    }
    for (label, text, v) in &eps.param {
        if *text != param || format!("{v:?}") != vshow {
            rep.violation("R.entry", d.name(), format!("parameterised entry point {label} differs: {}", sigk()), json!({"inherent_build": param, "values": vshow, "other": text, "other_values": format!("{v:?}")}), ctx.shard, n);
            return;
        }
    }
    rep.count("entry_points_compared", (eps.inline.len() + eps.param.len()) as u64);
    // R.idem: rendering twice
    let same_again = eps.inline.iter().zip(&eps2.inline).all(|(a, b)| a.1 == b.1) && eps.param.iter().zip(&eps2.param).all(|(a, b)| a.1 == b.1 && format!("{:?}", a.2) == format!("{:?}", b.2));
    if !same_again {
        rep.violation("R.idem", d.name(), format!("second rendering differs: {}", sigk()), json!({"sql": inline}), ctx.shard, n);
        return;
    }
    // R.pure: rendering does not modify the statement
    if !equal_to_clone(&b, &before) || debug_of(&b) != dbg {
        rep.violation("R.pure", d.name(), format!("statement changed by rendering: {}", sigk()), json!({"sql": inline}), ctx.shard, n);
        return;
    }
    // R.subst: inline == parameterised with literals spliced in
    let lits: Vec<String> = vals.iter().map(|v| qb(d).value_to_string(v)).collect();
    // R.literal: each spliced literal denotes what the independent reference spelling of the value denotes
    // (compared as decoded tokens; optional value types are C03's business)
    {
        let r = Ref::new(d, false);
        for (v, l) in vals.iter().zip(&lits) {
            let want = r.lit(v);
            if want == *l {
                continue;
            }
            let (a, b) = (lex(d, l), lex(d, &want));
            let same = match (&a, &b) {
                (Ok(a), Ok(b)) => a.len() == b.len() && a.iter().zip(b.iter()).all(|(x, y)| x.tok == y.tok),
                _ => false,
            };
            if !same {
                rep.violation("R.literal", d.name(), format!("inlined literal of {} denotes another value", format!("{v:?}").split('(').next().unwrap_or("?").to_string()), json!({"value": format!("{v:?}"), "literal": l, "reference": want}), ctx.shard, n);
                return;
            }
        }
    }
    match splice(d, &param, &lits) {
        Ok(s) if s == inline => {
            rep.count("placeholders_substituted", lits.len() as u64);
        }
        Ok(s) => {
            rep.violation("R.subst", d.name(), format!("inline form is not the parameterised form with literals substituted: {}", sigk()), json!({"inline": inline, "parameterised": param, "values": vshow, "substituted": s}), ctx.shard, n);
            return;
        }
        Err(e) => {
            rep.violation("R.subst", d.name(), format!("parameterised form unusable ({e}): {}", sigk()), json!({"inline": inline, "parameterised": param, "values": vshow}), ctx.shard, n);
            return;
        }
    }
    // R.with-route: the WithQuery route renders the same text as with_cte
    match spec {
        Stmt::Sel(q) if q.with.is_some() => {
            let r = guard(|| {
                apply::set_route_seed(route_seed);
                let mut q2 = q.clone();
                let w = q2.with.take().unwrap();
                let wq = apply::sel(&q2).with(apply::with_clause(&w));
                let mut s = String::new();
                let i = QueryStatementBuilder::build_collect_any(&wq, qb(d), &mut s);
                let (p, v) = QueryStatementBuilder::build_any(&wq, qb(d));
                // every typed entry point of WithQuery must agree with its dynamic ones
                let eps = crate::render::all_entry_points(&wq, d);
                for (label, text) in &eps.inline {
                    assert!(*text == i, "WithQuery inline entry point {label} differs: {text} vs {i}");
                }
                for (label, text, vals) in &eps.param {
                    assert!(*text == p && format!("{vals:?}") == format!("{:?}", v.0), "WithQuery parameterised entry point {label} differs: {text} vs {p}");
                }
                (i, p, v.0)
            });
            match r {
                Ok((i, p, v)) => {
                    rep.count("with_query_routes_compared", 1);
                    // the routes draw builder routes in a different order, so compare through the token stream
                    let same = |a: &str, b: &str| lex(d, a).ok().map(|t| vcore::lex::shorts(&t)) == lex(d, b).ok().map(|t| vcore::lex::shorts(&t));
                    if !same(&i, &inline) || !same(&p, &param) || format!("{v:?}") != vshow {
                        rep.violation("R.entry", d.name(), format!("WithQuery route differs from with_cte: {}", sigk()), json!({"with_cte": inline, "with_query": i, "with_query_param": p}), ctx.shard, n);
                        return;
                    }
                }
                Err(p) => {
                    if p.contains("WithQuery") && p.contains("entry point") {
                        let which = p.split(" differs").next().unwrap_or("").to_string();
                        rep.violation("R.entry", d.name(), format!("{which} differs: {}", sigk()), json!({"detail": p}), ctx.shard, n);
                    } else {
                        rep.violation("R.panic", d.name(), format!("WithQuery {}", panic_sig(&p)), json!({"panic": p}), ctx.shard, n);
                    }
                    return;
                }
            }
        }
        _ => {}
    }
    // R.embed: as a subquery the statement contributes exactly its stand-alone text and values
    if let (Built::Sel(s), true) = (&b, n % 3 == 0) {
        let lead: Value = 777001i32.into();
        let tail: Value = 777002i32.into();
        let r = guard(|| {
            let mut outer = Query::select();
            outer.expr(Expr::val(lead.clone())).from_subquery(s.clone(), Alias::new("emb")).and_where(Expr::val(tail.clone()).eq(1));
            let mut i = String::new();
            let i = outer.build_collect_any(qb(d), &mut i);
            let (p, v) = outer.build_any(qb(d));
            (i, p, v.0)
        });
        if let Ok((oi, op, ov)) = r {
            rep.count("subquery_embeddings_checked", 1);
            let want_p = if d == Dialect::Postgres { shift_pg(&param, 1) } else { param.clone() };
            let mut want_v = vec![lead.clone()];
            want_v.extend(vals.iter().cloned());
            want_v.push(tail.clone());
            want_v.push(1i32.into());
            if !oi.contains(&format!("({inline})")) || !op.contains(&format!("({want_p})")) || format!("{ov:?}") != format!("{want_v:?}") {
                rep.violation("R.embed", d.name(), format!("embedded subquery differs from the stand-alone rendering: {}", sigk()), json!({"standalone": inline, "embedded_in": oi, "standalone_param": param, "embedded_param": op, "values": format!("{ov:?}")}), ctx.shard, n);
                return;
            }
        }
    }
    // R.rows: both forms executed on SQLite
    if let (Some(fx), Dialect::Sqlite) = (fx, d) {
        if let Some(binds) = binds_of(&Values(vals.clone())) {
            let ordered = matches!(spec, Stmt::Sel(q) if q.total_order);
            let a = fx.run(&inline, &[], ordered);
            let c = fx.run(&param, &binds, ordered);
            rep.count("engine_pairs", 1);
            if a != c {
                rep.violation("R.rows", d.name(), format!("inline and bound executions differ: {}", sigk()), json!({"inline": inline, "parameterised": param, "values": vshow, "inline_outcome": show_outcome(&a), "bound_outcome": show_outcome(&c)}), ctx.shard, n);
                return;
            }
        }
    }
    // R.continue: a statement that has been rendered (through every entry point, above) and is then built
    // further renders like one that never was rendered — nothing computed during a rendering is reused
    {
        let more = |x: &mut Built| {
            let cond = || Expr::col(Alias::new("zz_more")).eq(777003i32);
            match x {
                Built::Sel(q) => {
                    q.and_where(cond());
                }
                Built::Upd(q) => {
                    q.and_where(cond());
                }
                Built::Del(q) => {
                    q.and_where(cond());
                }
                Built::Ins(_) | Built::With(_) => return false,
            }
            true
        };
        let mut fresh = clone_of(&before);
        if more(&mut fresh) && more(&mut b) {
            let r = guard(|| (b.inline(qb(d)), b.build(qb(d)), fresh.inline(qb(d)), fresh.build(qb(d))));
            match r {
                Ok((bi, (bp, bv), fi, (fp, fv))) => {
                    rep.count("rendered_then_continued", 1);
                    if bi != fi || bp != fp || format!("{:?}", bv.0) != format!("{:?}", fv.0) {
                        rep.violation("R.continue", d.name(), format!("a rendered statement built further differs from one never rendered: {}", sigk()), json!({"rendered_then_continued": bi, "never_rendered": fi, "rendered_then_continued_param": bp, "never_rendered_param": fp}), ctx.shard, n);
                        return;
                    }
                }
                Err(pm) => {
                    rep.violation("R.panic", d.name(), format!("{} continued {}", spec.kind(), panic_sig(&pm)), json!({"panic": pm}), ctx.shard, n);
                    return;
                }
            }
        }
    }
    for k in &kinds {
        rep.count(&format!("clause.{k}"), 1);
    }
    if !vals.is_empty() {
        rep.nontrivial(hash_str(&inline) ^ (d as u64) << 62);
    }
    if n % 1301 == 3 {
        rep.sample(json!({"backend": d.name(), "inline": inline, "parameterised": param, "values": vshow}));
    }
}

/// Fault injection: statements a backend refuses to render (it panics half-way through). Rendering them,
/// through every kind of entry point, must leave nothing behind that changes what the following statements
/// render to (the checks on those statements are the oracle).
fn refused_statement(rep: &mut Report, k: u64) {
    use sea_query::*;
    let al = |s: &str| Alias::new(s);
    let full = Query::select()
        .column(al("a"))
        .from(al("t1"))
        .and_where(Expr::col(al("a")).eq("stale 'text' ?"))
        .join(JoinType::FullOuterJoin, al("t2"), Expr::col((al("t1"), al("id"))).equals((al("t2"), al("t1_id"))))
        .and_where(Expr::col(al("b")).eq(7))
        .to_owned();
    let any = Query::select()
        .column(al("a"))
        .from(al("t1"))
        .and_where(Expr::col(al("a")).eq(Expr::any(Query::select().column(al("x")).from(al("t2")).take())))
        .to_owned();
    let mut refused = 0;
    for form in 0..3 {
        let (q, d) = if k % 2 == 0 { (&full, Dialect::Mysql) } else { (&any, Dialect::Sqlite) };
        let r = guard(|| match form {
            0 => match d {
                Dialect::Mysql => q.to_string(MysqlQueryBuilder),
                _ => q.to_string(SqliteQueryBuilder),
            },
            1 => q.build_any(qb(d)).0,
            _ => {
                let mut s = String::new();
                q.build_collect_any_into(qb(d), &mut s);
                s
            }
        });
        if r.is_err() {
            refused += 1;
        }
    }
    rep.count("faults.refused_statement_renderings", refused);
}

pub fn check(ctx: &Ctx, rep: &mut Report) {
    let fx = Fixture::new();
    let total = ctx.size(15_000, 640_000) / ctx.nshards;
    for k in 0..total {
        if ctx.wants(k) && (k % 5 == 2 || ctx.replay.is_some()) {
            refused_statement(rep, k / 5);
        }
        if ctx.wants(k) {
            for d in Dialect::ALL {
                let mut rng = ctx.rng("stmt", k * 3 + d as u64);
                let spec = {
                    let mut g = Gen::new(&mut rng, Cfg::text(d));
                    g.statement()
                };
                check_spec(ctx, rep, None, k, d, &spec);
            }
        }
        // executable SQLite statements: both forms run on the engine
        let n = (1 << 40) + k;
        if ctx.wants(n) {
            let mut rng = ctx.rng("exec", k);
            let spec = {
                let mut g = Gen::new(&mut rng, Cfg::sqlite_exec());
                g.statement()
            };
            check_spec(ctx, rep, Some(&fx), n, Dialect::Sqlite, &spec);
        }
    }
}
