//! C04 — identifiers are quoted so that they decode to exactly the supplied name.
//!
//! Oracle: render a statement with a benign marker name and with the hostile name
//! `v` in the same identifier slot; lex both with the dialect lexer; the token
//! sequences must be identical except for the slot tokens, which must be single
//! quoted-identifier tokens decoding to `v`. On SQLite the engine's own view of
//! the name (column name of the result, sqlite_master / PRAGMA) is compared too.

use crate::util::*;
use sea_query::extension::mysql::MySqlSelectStatementExt;
use sea_query::extension::postgres::Type;
use sea_query::*;
use serde_json::json;
use std::collections::HashMap;
use vcore::lex::{lex, shorts, Tok, Token};
use vcore::prng::hash_str;
use vcore::report::Report;
use vcore::run::{guard, panic_sig, Ctx};
use vcore::sqlite::{Db, SqlVal};

const MARK: &str = "MARKERxq";

pub const ALPHA: [char; 13] = ['"', '`', '\'', '\\', ' ', ';', '-', '.', '[', ']', 'a', 'é', '*'];

/// An identifier type of the user's own: its `unquoted` hands the name over character by character
/// (`write_char`), where `Alias` hands it over in one piece.
#[derive(Debug)]
struct CharWise(String);
impl Iden for CharWise {
    fn unquoted(&self, s: &mut dyn std::fmt::Write) {
        for c in self.0.chars() {
            s.write_char(c).unwrap();
        }
    }
}

/// the name as an identifier: mostly an `Alias`, now and then the user-written identifier type
fn a(s: &str) -> DynIden {
    if crate::apply::route(5) == 0 {
        SeaRc::new(CharWise(s.to_string()))
    } else {
        Alias::new(s).into_iden()
    }
}

fn q_sel(d: Dialect, s: &mut SelectStatement) -> String {
    let mut out = String::new();
    s.build_collect_any(qb(d), &mut out)
}

pub const POSITIONS: [&str; 67] = [
    "select.from.table",
    "select.from.schema_of_schema.table",
    "select.from.table_of_schema.table",
    "select.from.database_of_db.schema.table",
    "select.column",
    "select.table_of_table.column",
    "select.column_of_table.column",
    "select.schema_of_schema.table.column",
    "select.table_asterisk",
    "select.expr_as",
    "select.from_as",
    "select.join_as",
    "select.from_subquery_alias",
    "select.from_values_alias",
    "select.from_function_alias",
    "select.order_by",
    "select.group_by",
    "select.where_column",
    "cte.name",
    "cte.column",
    "window.name",
    "insert.table",
    "insert.column",
    "insert.on_conflict.target",
    "insert.on_conflict.update_column",
    "insert.returning",
    "update.table",
    "update.set_column",
    "update.returning",
    "delete.table",
    "delete.where_column",
    "lock.of_table",
    "mysql.index_hint",
    "table.create.name",
    "table.create.column",
    "table.create.inline_index_name",
    "table.create.inline_index_column",
    "table.create.inline_fk_name",
    "table.create.inline_fk_column",
    "table.create.inline_fk_ref_table",
    "table.create.inline_fk_ref_column",
    "table.alter.add_column",
    "table.alter.drop_column",
    "table.alter.rename_column_from",
    "table.alter.rename_column_to",
    "table.alter.add_fk_name",
    "table.alter.drop_fk_name",
    "table.rename.to",
    "table.drop",
    "table.truncate",
    "index.create.name",
    "index.create.table",
    "index.create.column",
    "index.create.include_column",
    "index.drop.name",
    "fk.create.name",
    "fk.create.ref_table",
    "fk.drop.name",
    "pg.type.create_name",
    "pg.type.drop_schema_name",
    "pg.as_enum_type",
    "pg.as_enum_array_type",
    "func.cast_as_quoted_type",
    "table.alter.modify_column",
    "table.alter.second_modify_column",
    "lock.of_aliased_table",
    "index.drop.name_of_schema_table",
];

/// Render with identifier `v` in position `p`. None = not applicable for this backend.
fn render(p: &str, d: Dialect, v: &str) -> Option<String> {
    let s = sb(d);
    let pg = d == Dialect::Postgres;
    let my = d == Dialect::Mysql;
    let lite = d == Dialect::Sqlite;
    Some(match p {
        "select.from.table" => q_sel(d, Query::select().column(a("c")).from(a(v))),
        "select.from.schema_of_schema.table" => q_sel(d, Query::select().column(a("c")).from((a(v), a("t")))),
        "select.from.table_of_schema.table" => q_sel(d, Query::select().column(a("c")).from((a("s"), a(v)))),
        "select.from.database_of_db.schema.table" => {
            q_sel(d, Query::select().column(a("c")).from((a(v), a("s"), a("t"))))
        }
        "select.column" => q_sel(d, Query::select().column(a(v)).from(a("t"))),
        "select.table_of_table.column" => q_sel(d, Query::select().column((a(v), a("c"))).from(a("t"))),
        "select.column_of_table.column" => q_sel(d, Query::select().column((a("t"), a(v))).from(a("t"))),
        "select.schema_of_schema.table.column" => {
            q_sel(d, Query::select().column((a(v), a("t"), a("c"))).from(a("t")))
        }
        "select.table_asterisk" => q_sel(d, Query::select().column((a(v), Asterisk)).from(a("t"))),
        "select.expr_as" => q_sel(d, Query::select().expr_as(Expr::val(1), a(v)).from(a("t"))),
        "select.from_as" => q_sel(d, Query::select().column(a("c")).from_as(a("t"), a(v))),
        "select.join_as" => q_sel(
            d,
            Query::select().column(a("c")).from(a("t")).join_as(
                JoinType::LeftJoin,
                a("u"),
                a(v),
                Expr::col((a("t"), a("c"))).equals((a("u"), a("c"))),
            ),
        ),
        "select.from_subquery_alias" => q_sel(
            d,
            Query::select()
                .column(a("c"))
                .from_subquery(Query::select().column(a("c")).from(a("t")).take(), a(v)),
        ),
        "select.from_values_alias" => q_sel(d, Query::select().column(Asterisk).from_values([(1, "x")], a(v))),
        "select.from_function_alias" => q_sel(
            d,
            Query::select()
                .column(Asterisk)
                .from_function(Func::cust(a("gen")).arg(1), a(v)),
        ),
        "select.order_by" => q_sel(d, Query::select().column(a("c")).from(a("t")).order_by(a(v), Order::Asc)),
        "select.group_by" => q_sel(d, Query::select().column(a("c")).from(a("t")).group_by_col(a(v))),
        "select.where_column" => q_sel(
            d,
            Query::select().column(a("c")).from(a("t")).and_where(Expr::col(a(v)).eq(1)),
        ),
        "cte.name" | "cte.column" => {
            let mut cte = CommonTableExpression::new();
            cte.query(Query::select().column(a("c")).from(a("t")).take());
            if p == "cte.name" {
                cte.table_name(a(v)).column(a("x"));
            } else {
                cte.table_name(a("w")).column(a(v));
            }
            let sel = Query::select().column(Asterisk).from(a("w")).take();
            let wq = sel.with(WithClause::new().cte(cte).to_owned());
            let mut out = String::new();
            wq.build_collect_any(qb(d), &mut out)
        }
        "window.name" => {
            // the OVER reference only: the WINDOW definition clause is a separately listed finding (C07/C08)
            q_sel(
                d,
                Query::select()
                    .expr_window_name(Expr::col(a("c")), a(v))
                    .from(a("t")),
            )
        }
        "insert.table" | "insert.column" | "insert.on_conflict.target" | "insert.on_conflict.update_column"
        | "insert.returning" => {
            let mut i = Query::insert();
            i.into_table(a(if p == "insert.table" { v } else { "t" }));
            i.columns([a(if p == "insert.column" { v } else { "c" })]);
            i.values_panic([1.into()]);
            if p == "insert.on_conflict.target" {
                i.on_conflict(OnConflict::column(a(v)).update_column(a("c")).to_owned());
            }
            if p == "insert.on_conflict.update_column" {
                i.on_conflict(OnConflict::column(a("k")).update_column(a(v)).to_owned());
            }
            if p == "insert.returning" {
                if my {
                    return None;
                }
                i.returning_col(a(v));
            }
            if p == "insert.on_conflict.target" && my {
                return None;
            }
            let mut out = String::new();
            i.build_collect_any(qb(d), &mut out)
        }
        "update.table" | "update.set_column" | "update.returning" => {
            let mut u = Query::update();
            u.table(a(if p == "update.table" { v } else { "t" }));
            u.value(a(if p == "update.set_column" { v } else { "c" }), 1);
            if p == "update.returning" {
                if my {
                    return None;
                }
                u.returning_col(a(v));
            }
            let mut out = String::new();
            u.build_collect_any(qb(d), &mut out)
        }
        "delete.table" | "delete.where_column" => {
            let mut x = Query::delete();
            x.from_table(a(if p == "delete.table" { v } else { "t" }));
            x.and_where(Expr::col(a(if p == "delete.where_column" { v } else { "c" })).eq(1));
            let mut out = String::new();
            x.build_collect_any(qb(d), &mut out)
        }
        "lock.of_table" => {
            if lite {
                return None;
            }
            q_sel(
                d,
                Query::select()
                    .column(a("c"))
                    .from(a("t"))
                    .lock_with_tables(LockType::Update, [a(v)]),
            )
        }
        "lock.of_aliased_table" => {
            if lite {
                return None;
            }
            // the lock list names a table reference that carries an alias
            q_sel(
                d,
                Query::select()
                    .column(a("c"))
                    .from_as(a("t"), a(v))
                    .lock_with_tables(LockType::Update, [TableRef::TableAlias(a("t"), a(v))]),
            )
        }
        "index.drop.name_of_schema_table" => {
            if !pg {
                return None;
            }
            // Postgres names the index with its table's schema
            Index::drop().name(v).table((a("sch"), a("t"))).build_any(s)
        }
        "mysql.index_hint" => {
            if !my {
                return None;
            }
            q_sel(
                d,
                Query::select()
                    .column(a("c"))
                    .from(a("t"))
                    .use_index(a(v), sea_query::extension::mysql::IndexHintScope::All),
            )
        }
        "table.create.name" => Table::create().table(a(v)).col(ColumnDef::new(a("c")).integer()).build_any(s),
        "table.create.column" => Table::create().table(a("t")).col(ColumnDef::new(a(v)).integer()).build_any(s),
        "table.create.inline_index_name" | "table.create.inline_index_column" => {
            let mut ix = Index::create();
            ix.unique();
            ix.name(if p.ends_with("name") { v } else { "ix" });
            ix.col(a(if p.ends_with("column") { v } else { "c" }));
            Table::create()
                .table(a("t"))
                .col(ColumnDef::new(a("c")).integer())
                .index(&mut ix)
                .build_any(s)
        }
        "table.create.inline_fk_name"
        | "table.create.inline_fk_column"
        | "table.create.inline_fk_ref_table"
        | "table.create.inline_fk_ref_column" => {
            if p.ends_with("fk_name") && lite {
                return None; // SQLite in-table foreign keys render no name
            }
            let mut fk = ForeignKey::create();
            fk.name(if p.ends_with("fk_name") { v } else { "fk" });
            fk.from(a("t"), a(if p.ends_with("fk_column") { v } else { "c" }));
            fk.to(
                a(if p.ends_with("ref_table") { v } else { "u" }),
                a(if p.ends_with("ref_column") { v } else { "id" }),
            );
            Table::create()
                .table(a("t"))
                .col(ColumnDef::new(a("c")).integer())
                .foreign_key(&mut fk)
                .build_any(s)
        }
        "table.alter.add_column" => Table::alter()
            .table(a("t"))
            .add_column(ColumnDef::new(a(v)).integer())
            .build_any(s),
        "table.alter.drop_column" => Table::alter().table(a("t")).drop_column(a(v)).build_any(s),
        "table.alter.rename_column_from" => Table::alter().table(a("t")).rename_column(a(v), a("n")).build_any(s),
        "table.alter.rename_column_to" => Table::alter().table(a("t")).rename_column(a("c"), a(v)).build_any(s),
        "table.alter.add_fk_name" => {
            if lite {
                return None;
            }
            let mut fk = TableForeignKey::new();
            fk.name(v).from_tbl(a("t")).from_col(a("c")).to_tbl(a("u")).to_col(a("id"));
            Table::alter().table(a("t")).add_foreign_key(&fk).build_any(s)
        }
        "table.alter.drop_fk_name" => {
            if lite {
                return None;
            }
            Table::alter().table(a("t")).drop_foreign_key(a(v)).build_any(s)
        }
        "table.rename.to" => Table::rename().table(a("t"), a(v)).build_any(s),
        "table.drop" => Table::drop().table(a(v)).build_any(s),
        "table.truncate" => {
            if lite {
                return None;
            }
            Table::truncate().table(a(v)).build_any(s)
        }
        "index.create.name" => Index::create().name(v).table(a("t")).col(a("c")).build_any(s),
        "index.create.table" => Index::create().name("ix").table(a(v)).col(a("c")).build_any(s),
        "index.create.column" => Index::create()
            .name("ix")
            .table(a("t"))
            .col((a(v), IndexOrder::Desc))
            .build_any(s),
        "index.create.include_column" => {
            if !pg {
                return None;
            }
            Index::create().name("ix").table(a("t")).col(a("c")).include(a(v)).build_any(s)
        }
        "index.drop.name" => Index::drop().name(v).table(a("t")).build_any(s),
        "fk.create.name" | "fk.create.ref_table" => {
            if lite {
                return None;
            }
            ForeignKey::create()
                .name(if p.ends_with("name") { v } else { "fk" })
                .from(a("t"), a("c"))
                .to(a(if p.ends_with("ref_table") { v } else { "u" }), a("id"))
                .on_delete(ForeignKeyAction::Cascade)
                .build_any(s)
        }
        "fk.drop.name" => {
            if lite {
                return None;
            }
            ForeignKey::drop().name(v).table(a("t")).build_any(s)
        }
        "pg.type.create_name" => {
            if !pg {
                return None;
            }
            Type::create().as_enum(a(v)).values([a("x")]).to_string(PostgresQueryBuilder)
        }
        "pg.type.drop_schema_name" => {
            if !pg {
                return None;
            }
            Type::drop().name((a("s"), a(v))).to_string(PostgresQueryBuilder)
        }
        "pg.as_enum_type" => {
            // a type name ending in "[]" is by documented convention the array form (covered below)
            if !pg || v.ends_with("[]") {
                return None;
            }
            q_sel(d, Query::select().expr(Expr::val("x").as_enum(a(v))))
        }
        "pg.as_enum_array_type" => {
            if !pg {
                return None;
            }
            q_sel(d, Query::select().expr(Expr::val("x").as_enum(a(&format!("{v}[]")))))
        }
        "func.cast_as_quoted_type" => {
            // the type name is quoted with the quote handed to the function: the backend's own
            let q = qb(d).quote();
            q_sel(d, Query::select().expr(Func::cast_as_quoted(Expr::val("x"), a(v), q)))
        }
        "table.alter.modify_column" => {
            if lite {
                return None;
            }
            // every sub-clause the backends derive from the column's specifications names the column again
            let mut c = ColumnDef::new(a(v));
            c.integer().not_null().default(1).unique_key();
            Table::alter().table(a("t")).modify_column(c).build_any(s)
        }
        "table.alter.second_modify_column" => {
            if lite {
                return None;
            }
            // the second of two modified columns (each option names its own column, nothing of the first)
            let mut first = ColumnDef::new(a("first_col"));
            first.integer().not_null();
            let mut c = ColumnDef::new(a(v));
            c.integer().null().default(2);
            Table::alter().table(a("t")).modify_column(first).drop_column(a("gone")).modify_column(c).build_any(s)
        }
        _ => unreachable!("unknown position {p}"),
    })
}

fn specials(v: &str) -> String {
    let mut set = std::collections::BTreeSet::new();
    for c in v.chars() {
        let k = char_class(c);
        if k != "a" && k != "L1" && k != "BMP" && k != "ASTRAL" && k != "p" {
            set.insert(k);
        }
    }
    set.into_iter().collect::<Vec<_>>().join(" ")
}

type Template = Result<(Vec<Token>, Vec<usize>), String>;

struct Templates {
    map: HashMap<(&'static str, Dialect), Option<Template>>,
}

impl Templates {
    /// The token sequence of the position rendered with a plain marker name, and where the marker sits.
    /// `Err`: even the plain name does not come out as identifier tokens (reported by the caller).
    fn get(&mut self, p: &'static str, d: Dialect) -> Option<Template> {
        self.map
            .entry((p, d))
            .or_insert_with(|| {
                let sql = match guard(|| render(p, d, MARK)) {
                    Ok(Some(s)) => s,
                    Ok(None) => return None,
                    Err(e) => return Some(Err(format!("rendering with the plain name {MARK} panicked: {e}"))),
                };
                let toks = match lex(d, &sql) {
                    Ok(t) => t,
                    Err(e) => return Some(Err(format!("rendering with the plain name {MARK} does not lex: {sql}: {}", e.msg))),
                };
                let slots: Vec<usize> = toks
                    .iter()
                    .enumerate()
                    .filter(|(_, t)| matches!(&t.tok, Tok::Ident(x) if x == MARK))
                    .map(|(i, _)| i)
                    .collect();
                if slots.is_empty() {
                    return Some(Err(format!("the plain name {MARK} is not written as a quoted identifier: {sql}")));
                }
                Some(Ok((toks, slots)))
            })
            .clone()
    }
}

/// Engine view on SQLite for a few positions: the name as the engine decoded it.
fn engine_name(db: &Db, p: &str, sql: &str) -> Option<Result<String, String>> {
    let wrap = |f: &dyn Fn() -> Result<Option<SqlVal>, vcore::sqlite::SqlErr>| -> Result<String, String> {
        db.exec("SAVEPOINT c04").map_err(|e| e.msg)?;
        let r = f();
        let _ = db.exec("ROLLBACK TO c04");
        let _ = db.exec("RELEASE c04");
        match r {
            Ok(Some(SqlVal::Text(t))) => Ok(String::from_utf8_lossy(&t).into_owned()),
            Ok(other) => Err(format!("unexpected catalogue answer {other:?}")),
            Err(e) => Err(e.msg),
        }
    };
    match p {
        "select.expr_as" => Some(
            db.query(sql, &[])
                .map(|r| r.names.first().cloned().unwrap_or_default())
                .map_err(|e| e.msg),
        ),
        "table.create.name" => Some(wrap(&|| {
            db.exec(sql)?;
            Ok(db
                .rows("SELECT name FROM sqlite_master WHERE type='table' AND name NOT IN ('t','u')")?
                .first()
                .and_then(|r| r.first().cloned()))
        })),
        "table.create.column" | "table.alter.add_column" | "table.alter.rename_column_to" => Some(wrap(&|| {
            if p == "table.create.column" {
                db.exec("DROP TABLE t")?;
            }
            db.exec(sql)?;
            Ok(db
                .rows("SELECT name FROM pragma_table_xinfo('t') WHERE name NOT IN ('c','id')")?
                .first()
                .and_then(|r| r.first().cloned()))
        })),
        "index.create.name" => Some(wrap(&|| {
            db.exec(sql)?;
            Ok(db
                .rows("SELECT name FROM sqlite_master WHERE type='index'")?
                .first()
                .and_then(|r| r.first().cloned()))
        })),
        "table.rename.to" => Some(wrap(&|| {
            db.exec(sql)?;
            Ok(db
                .rows("SELECT name FROM sqlite_master WHERE type='table' AND name <> 'u'")?
                .first()
                .and_then(|r| r.first().cloned()))
        })),
        _ => None,
    }
}

#[allow(clippy::too_many_arguments)]
fn check_one(
    ctx: &Ctx,
    rep: &mut Report,
    tpl: &mut Templates,
    db: &Db,
    n: u64,
    p: &'static str,
    d: Dialect,
    v: &str,
    sample: bool,
) {
    let (tt, slots) = match tpl.get(p, d) {
        Some(Ok(x)) => x,
        Some(Err(e)) => {
            rep.eval();
            rep.violation("R.ident.lex", d.name(), format!("{p} [plain name]"), json!({"position": p, "error": e}), ctx.shard, n);
            return;
        }
        None => return,
    };
    rep.eval();
    rep.note("positions", format!("{}:{p}", d.name()));
    let sql = match guard(|| render(p, d, v)) {
        Ok(Some(s)) => s,
        Ok(None) => return,
        Err(pm) => {
            rep.violation(
                "R.panic",
                d.name(),
                format!("{p}: {}", panic_sig(&pm)),
                json!({"position": p, "name": show(v), "panic": pm}),
                ctx.shard,
                n,
            );
            return;
        }
    };
    let sig = format!("{p} [{}]", specials(v));
    let toks = match lex(d, &sql) {
        Ok(t) => t,
        Err(e) => {
            rep.violation(
                "R.ident.lex",
                d.name(),
                sig,
                json!({"position": p, "name": show(v), "sql": show(&sql), "lex_error": e.msg}),
                ctx.shard,
                n,
            );
            return;
        }
    };
    let mut ok = toks.len() == tt.len();
    if ok {
        for (i, (x, y)) in tt.iter().zip(toks.iter()).enumerate() {
            if slots.contains(&i) {
                ok &= matches!(&y.tok, Tok::Ident(got) if got == v);
            } else {
                ok &= x.tok == y.tok;
            }
        }
    }
    if !ok {
        rep.violation(
            "R.ident.tokens",
            d.name(),
            sig,
            json!({"position": p, "name": show(v), "sql": show(&sql),
                   "expected_tokens": shorts(&tt).replace(MARK, "<NAME>"), "got_tokens": shorts(&toks)}),
            ctx.shard,
            n,
        );
        return;
    }
    rep.count("identifiers_decoded", slots.len() as u64);
    if v.chars().any(|c| !c.is_ascii_alphanumeric()) {
        rep.nontrivial(hash_str(v) ^ hash_str(p).rotate_left(17) ^ (d as u64));
    }
    // names that collide with the fixture's own objects (or SQLite's reserved prefix) make the engine
    // refuse for reasons unrelated to quoting: the engine read-back is skipped for them
    let lower = v.to_lowercase();
    let collides = ["t", "u", "c", "id", "n"].contains(&lower.as_str()) || lower.starts_with("sqlite_");
    if d == Dialect::Sqlite && !collides {
        if let Some(r) = engine_name(db, p, &sql) {
            rep.count("engine_names_checked", 1);
            match r {
                Ok(got) if got == v => {}
                Ok(got) => rep.violation(
                    "R.ident.engine",
                    d.name(),
                    format!("{p}: engine decodes another name [{}]", specials(v)),
                    json!({"position": p, "name": show(v), "sql": show(&sql), "engine": show(&got)}),
                    ctx.shard,
                    n,
                ),
                Err(e) => rep.violation(
                    "R.ident.engine",
                    d.name(),
                    format!("{p}: engine rejects [{}]", specials(v)),
                    json!({"position": p, "name": show(v), "sql": show(&sql), "error": e}),
                    ctx.shard,
                    n,
                ),
            }
        }
    }
    if sample {
        rep.sample(json!({"position": p, "backend": d.name(), "name": show(v), "sql": show(&sql)}));
    }
}

// ---- identifiers that come from `#[derive(Iden)]` / `#[derive(IdenStatic)]` rather than `Alias` ----------
// (the spelling of derived names is C19's subject; here: whatever the name, it is quoted so that it decodes
// to itself — the derive writes its own `prepare`, with a non-escaping fast path for plain names)

#[derive(sea_query::Iden)]
enum DerivedA {
    Table,
    #[iden = "no\"te"]
    Note,
    #[iden = "am`ount"]
    Amount,
    #[iden = "back\\slash"]
    Back,
    #[iden(rename = "q\"`x")]
    Both,
    Plain,
}

#[derive(sea_query::Iden)]
enum DerivedB {
    #[iden = "t\"b`l"]
    Table,
    Plain,
    #[iden = "last\"one"]
    Last,
}

#[derive(sea_query::IdenStatic, Clone, Copy)]
enum DerivedC {
    Table,
    #[iden = "s\"t`a"]
    Odd,
    Plain,
}

#[derive(sea_query::Iden)]
#[iden = "u\"n`it"]
struct DerivedUnit;

fn derived_cases() -> Vec<(&'static str, sea_query::DynIden, &'static str)> {
    use sea_query::IntoIden;
    vec![
        ("enum.table-default", DerivedA::Table.into_iden(), "derived_a"),
        ("enum.rename-dquote(not last)", DerivedA::Note.into_iden(), "no\"te"),
        ("enum.rename-backtick(not last)", DerivedA::Amount.into_iden(), "am`ount"),
        ("enum.rename-backslash", DerivedA::Back.into_iden(), "back\\slash"),
        ("enum.rename-list-both-quotes", DerivedA::Both.into_iden(), "q\"`x"),
        ("enum.plain-last", DerivedA::Plain.into_iden(), "plain"),
        ("enum.table-renamed", DerivedB::Table.into_iden(), "t\"b`l"),
        ("enum.plain-middle", DerivedB::Plain.into_iden(), "plain"),
        ("enum.rename-dquote(last)", DerivedB::Last.into_iden(), "last\"one"),
        ("static.table-default", DerivedC::Table.into_iden(), "derived_c"),
        ("static.rename-both-quotes", DerivedC::Odd.into_iden(), "s\"t`a"),
        ("static.plain-last", DerivedC::Plain.into_iden(), "plain"),
        ("unit-struct.renamed", DerivedUnit.into_iden(), "u\"n`it"),
    ]
}

fn check_derived(ctx: &Ctx, rep: &mut Report) {
    use sea_query::{Index, Query, Table};
    use vcore::lex::Tok;
    let n0 = 1u64 << 52;
    for (k, (label, iden, want)) in derived_cases().into_iter().enumerate() {
        let n = n0 + k as u64;
        if (ctx.replay.is_none() && ctx.shard != 0) || !ctx.wants(n) {
            continue;
        }
        for d in Dialect::ALL {
            // the name as a column, a table, an alias, an index name and a column of a schema statement
            let texts: Vec<(&str, Result<String, String>)> = vec![
                ("select.column", guard(|| Query::select().column(iden.clone()).from(iden.clone()).to_owned().inline_any(d))),
                ("select.alias", guard(|| Query::select().expr_as(sea_query::Expr::val(1), iden.clone()).to_owned().inline_any(d))),
                ("table.create", guard(|| crate::ddl::render_schema(Table::create().table(iden.clone()).col(sea_query::ColumnDef::new(iden.clone()).integer()), d))),
                ("index.create", guard(|| crate::ddl::render_schema(Index::create().name("ix").table(iden.clone()).col(iden.clone()), d))),
                ("table.rename", guard(|| crate::ddl::render_schema(Table::rename().table(iden.clone(), iden.clone()), d))),
            ];
            for (pos, t) in texts {
                rep.eval();
                rep.note("derived_positions", format!("{}:{pos}:{label}", d.name()));
                let sig = format!("derived {label} at {pos}");
                let sql = match t {
                    Ok(s) => s,
                    Err(pm) => {
                        rep.violation("R.panic", d.name(), format!("{sig}: {}", panic_sig(&pm)), json!({"panic": pm}), ctx.shard, n);
                        continue;
                    }
                };
                match lex(d, &sql) {
                    Err(e) => rep.violation("R.ident.lex", d.name(), sig, json!({"name": show(want), "sql": show(&sql), "lex_error": e.msg}), ctx.shard, n),
                    Ok(toks) => {
                        let idents: Vec<&String> = toks.iter().filter_map(|t| if let Tok::Ident(i) = &t.tok { Some(i) } else { None }).collect();
                        let expect_count = match pos {
                            "select.alias" => 1,
                            "index.create" => 3,
                            _ => 2,
                        };
                        let bad = idents.iter().filter(|i| i.as_str() != "ix").any(|i| i.as_str() != want) || idents.len() != expect_count;
                        if bad {
                            rep.violation("R.ident.decode", d.name(), sig, json!({"name": show(want), "sql": show(&sql), "decoded_identifiers": format!("{idents:?}")}), ctx.shard, n);
                        } else {
                            rep.count("derived_identifiers_decoded", idents.len() as u64);
                            rep.nontrivial(hash_str(&sql));
                        }
                    }
                }
            }
        }
    }
}

trait InlineAny {
    fn inline_any(&self, d: Dialect) -> String;
}
impl InlineAny for sea_query::SelectStatement {
    fn inline_any(&self, d: Dialect) -> String {
        let mut s = String::new();
        self.build_collect_any(crate::util::qb(d), &mut s)
    }
}

pub fn check(ctx: &Ctx, rep: &mut Report) {
    check_derived(ctx, rep);
    let db = Db::memory();
    db.exec_script("CREATE TABLE t(c INTEGER, id INTEGER); CREATE TABLE u(id INTEGER PRIMARY KEY, c INTEGER)")
        .unwrap();
    let mut tpl = Templates { map: HashMap::new() };
    let max_len = ctx.size(3, 4) as usize;
    let total = count_strings(ALPHA.len(), max_len);
    let mut n = match ctx.replay {
        Some((_, c)) => c,
        None => ctx.shard.max(1),
    };
    if n == 0 {
        n = ctx.nshards; // skip the empty identifier (outside the domain)
    }
    while n < total {
        let v = nth_string(&ALPHA, n);
        for (pi, p) in POSITIONS.iter().enumerate() {
            for d in Dialect::ALL {
                let sample = n % 211 == 5 && pi as u64 == (n / 211) % POSITIONS.len() as u64 && d as u64 == n % 3;
                check_one(ctx, rep, &mut tpl, &db, n, p, d, &v, sample);
            }
        }
        if ctx.replay.is_some() {
            return;
        }
        n += ctx.nshards;
    }
    if ctx.shard == 0 && ctx.replay.is_none() {
        rep.exhaustive_parts.push(format!(
            "all non-empty strings over the 13-symbol identifier alphabet up to length {max_len} ({}) x {} identifier positions x 3 backends",
            total - 1,
            POSITIONS.len()
        ));
    }
    let nrand = ctx.size(30_000, 5_000_000) / ctx.nshards;
    for k in 0..nrand {
        let n = total + k;
        if !ctx.wants(n) {
            continue;
        }
        crate::apply::set_route_seed(ctx.seed ^ n.wrapping_mul(0x9E3779B97F4A7C15));
        let mut rng = ctx.rng("rand", k);
        let mut v = rng.string_from(&ALPHA, 32, true);
        v.retain(|c| c != '\0');
        if v.is_empty() {
            v.push('q');
        }
        let p = *rng.pick(&POSITIONS);
        for d in Dialect::ALL {
            check_one(ctx, rep, &mut tpl, &db, n, p, d, &v, k % 3001 == 1);
        }
    }
}
