//! C05 — rendered expressions re-parse to the expression tree that was built.
//! R.parse: dialect precedence parser (all three dialects); R.eval: the rendering
//! and a fully parenthesised reference are evaluated by SQLite over 64 operand rows.

use crate::util::*;
use crate::xspec::{b, X};
use sea_query::extension::postgres::PgBinOper;
use sea_query::extension::sqlite::SqliteBinOper;
use sea_query::*;
use serde_json::json;
use vcore::lex::lex;
use vcore::prng::{hash_str, Rng};
use vcore::px::parse_expr;
use vcore::report::Report;
use vcore::run::{guard, panic_sig, Ctx};
use vcore::sqlite::Db;

pub fn plain_ops(d: Dialect) -> Vec<BinOper> {
    let mut v = vec![
        BinOper::And,
        BinOper::Or,
        BinOper::Equal,
        BinOper::NotEqual,
        BinOper::SmallerThan,
        BinOper::GreaterThan,
        BinOper::SmallerThanOrEqual,
        BinOper::GreaterThanOrEqual,
        BinOper::Add,
        BinOper::Sub,
        BinOper::Mul,
        BinOper::Div,
        BinOper::Mod,
        BinOper::BitAnd,
        BinOper::BitOr,
        BinOper::LShift,
        BinOper::RShift,
    ];
    match d {
        Dialect::Postgres => {
            v.push(BinOper::Custom("~~"));
            for o in [
                PgBinOper::ILike,
                PgBinOper::NotILike,
                PgBinOper::Matches,
                PgBinOper::Contains,
                PgBinOper::Contained,
                PgBinOper::Concatenate,
                PgBinOper::Overlap,
                PgBinOper::Similarity,
                PgBinOper::WordSimilarity,
                PgBinOper::StrictWordSimilarity,
                PgBinOper::SimilarityDistance,
                PgBinOper::WordSimilarityDistance,
                PgBinOper::StrictWordSimilarityDistance,
                PgBinOper::GetJsonField,
                PgBinOper::CastJsonField,
                PgBinOper::Regex,
                PgBinOper::RegexCaseInsensitive,
                PgBinOper::NegativeInnerProduct,
                PgBinOper::CosineDistance,
            ] {
                v.push(BinOper::PgOperator(o));
            }
        }
        Dialect::Sqlite => {
            v.push(BinOper::Is);
            v.push(BinOper::IsNot);
            v.push(BinOper::Custom("REGEXP"));
            for o in [SqliteBinOper::Glob, SqliteBinOper::Match, SqliteBinOper::GetJsonField, SqliteBinOper::CastJsonField] {
                v.push(BinOper::SqliteOperator(o));
            }
        }
        Dialect::Mysql => {
            v.push(BinOper::Custom("REGEXP"));
            v.push(BinOper::Custom("<=>"));
            // a custom operator that binds looser than NOT and AND
            v.push(BinOper::Custom("XOR"));
        }
    }
    v
}

fn cols() -> [X; 4] {
    [X::Col("p"), X::Col("q"), X::Col("r"), X::Col("s")]
}

/// All "fillers": one-operator expressions over columns.
pub fn fillers(d: Dialect) -> Vec<X> {
    let [p, q, r, _] = cols();
    let mut v = vec![];
    for op in plain_ops(d) {
        v.push(X::Bin(b(p.clone()), op, b(q.clone())));
    }
    v.push(X::Not(b(p.clone())));
    for n in [false, true] {
        v.push(X::Between(b(p.clone()), n, b(q.clone()), b(r.clone())));
        v.push(X::Like(b(p.clone()), n, b(X::Text("a%".into())), None));
        v.push(X::Like(b(p.clone()), n, b(X::Text("a!%".into())), Some('!')));
        v.push(X::Like(b(p.clone()), n, b(q.clone()), None));
        if d == Dialect::Postgres {
            v.push(X::ILike(b(p.clone()), n, b(X::Text("a!%".into())), Some('!')));
            v.push(X::ILike(b(p.clone()), n, b(q.clone()), None));
        }
        v.push(X::In(b(p.clone()), n, vec![q.clone(), r.clone()]));
        v.push(X::In(b(p.clone()), n, vec![]));
        v.push(X::IsNull(b(p.clone()), n));
    }
    v.push(X::Func("ABS", vec![p.clone()]));
    v.push(X::Cast(b(p.clone()), "integer"));
    v.push(X::Case(vec![(X::Bin(b(p.clone()), BinOper::Equal, b(X::Int(1))), q.clone())], Some(b(r.clone()))));
    v.push(X::Int(-3));
    v.push(X::Tuple(vec![p.clone(), q.clone()]));
    // custom SQL fragments with an operator inside, with and without blanks
    v.push(X::Cust("1+2".into()));
    v.push(X::Cust("1 + 2".into()));
    v.push(X::Cust("3=3".into()));
    v.push(X::Cust("1 = 1 OR 2 = 3".into()));
    // enum cast over a compound expression: CAST(.. AS "mood") on Postgres, the bare operand elsewhere
    v.push(X::AsEnum("mood".into(), b(X::Bin(b(p.clone()), BinOper::Add, b(q.clone())))));
    v.push(X::AsEnum("mood".into(), b(X::Bin(b(p.clone()), BinOper::Or, b(q.clone())))));
    v
}

/// All "frames": one-operator contexts with a hole, applied to `h`.
pub fn frames(d: Dialect, h: &X) -> Vec<(String, X)> {
    let [_, _, r, s] = cols();
    let mut v: Vec<(String, X)> = vec![];
    for op in plain_ops(d) {
        let n = crate::xspec::op_name(d, &op);
        v.push((format!("{n}/L"), X::Bin(b(h.clone()), op, b(s.clone()))));
        v.push((format!("{n}/R"), X::Bin(b(s.clone()), op, b(h.clone()))));
    }
    v.push(("NOT".into(), X::Not(b(h.clone()))));
    for n in [false, true] {
        let t = if n { "NOT " } else { "" };
        v.push((format!("{t}BETWEEN/e"), X::Between(b(h.clone()), n, b(r.clone()), b(s.clone()))));
        v.push((format!("{t}BETWEEN/lo"), X::Between(b(s.clone()), n, b(h.clone()), b(r.clone()))));
        v.push((format!("{t}BETWEEN/hi"), X::Between(b(s.clone()), n, b(r.clone()), b(h.clone()))));
        v.push((format!("{t}LIKE/e"), X::Like(b(h.clone()), n, b(X::Text("a%".into())), None)));
        v.push((format!("{t}LIKE/pat"), X::Like(b(s.clone()), n, b(h.clone()), None)));
        v.push((format!("{t}LIKE+ESC/e"), X::Like(b(h.clone()), n, b(X::Text("a%".into())), Some('!'))));
        v.push((format!("{t}LIKE+ESC/pat"), X::Like(b(s.clone()), n, b(h.clone()), Some('!'))));
        if d == Dialect::Postgres {
            v.push((format!("{t}ILIKE/e"), X::ILike(b(h.clone()), n, b(X::Text("a%".into())), None)));
            v.push((format!("{t}ILIKE/pat"), X::ILike(b(s.clone()), n, b(h.clone()), None)));
            v.push((format!("{t}ILIKE+ESC/e"), X::ILike(b(h.clone()), n, b(X::Text("a%".into())), Some('!'))));
            v.push((format!("{t}ILIKE+ESC/pat"), X::ILike(b(s.clone()), n, b(h.clone()), Some('!'))));
        }
        v.push((format!("{t}IN/e"), X::In(b(h.clone()), n, vec![r.clone(), s.clone()])));
        v.push((format!("{t}IN/item"), X::In(b(s.clone()), n, vec![h.clone(), r.clone()])));
        v.push((format!("IS {t}NULL"), X::IsNull(b(h.clone()), n)));
    }
    v.push(("ABS()".into(), X::Func("ABS", vec![h.clone()])));
    v.push(("COALESCE()".into(), X::Func("COALESCE", vec![s.clone(), h.clone()])));
    v.push(("CAST".into(), X::Cast(b(h.clone()), "integer")));
    v.push(("CASE/when".into(), X::Case(vec![(h.clone(), s.clone())], None)));
    v.push(("CASE/then".into(), X::Case(vec![(X::Bin(b(s.clone()), BinOper::Equal, b(X::Int(1))), h.clone())], Some(b(r.clone())))));
    v.push(("CASE/else".into(), X::Case(vec![(X::Bin(b(s.clone()), BinOper::Equal, b(X::Int(1))), r.clone())], Some(b(h.clone())))));
    v.push(("tuple".into(), X::Tuple(vec![h.clone(), s.clone()])));
    v.push(("AS ENUM".into(), X::AsEnum("mood".into(), b(h.clone()))));
    v
}

fn contains_tuple_operand(x: &X) -> bool {
    // a row value as an operand of an arithmetic operator etc. is a type error in every engine: skip eval
    match x {
        X::Tuple(v) if v.len() > 1 => true,
        _ => x.children().iter().any(|c| contains_tuple_operand(c)),
    }
}

pub fn render(d: Dialect, e: &SimpleExpr) -> String {
    let mut s = String::new();
    let full = Query::select().expr(e.clone()).build_collect_any(qb(d), &mut s);
    full["SELECT ".len()..].to_string()
}

pub struct Eval {
    pub db: Db,
}

impl Eval {
    pub fn new() -> Eval {
        let db = Db::memory();
        db.exec("CREATE TABLE ops(id INTEGER PRIMARY KEY, p, q, r, s)").unwrap();
        let vals = ["0", "1", "-1", "2", "3", "7", "NULL", "'a'", "'ab'", "'A%'", "''", "'1'", "0.5", "-2"];
        let mut rng = Rng::new(0xC05);
        for i in 0..64 {
            let pick = |rng: &mut Rng| vals[rng.below(vals.len())];
            let (a, b_, c, d_) = if i < vals.len() {
                (vals[i], vals[(i + 1) % vals.len()], vals[(i + 3) % vals.len()], vals[(i + 5) % vals.len()])
            } else {
                (pick(&mut rng), pick(&mut rng), pick(&mut rng), pick(&mut rng))
            };
            db.exec(&format!("INSERT INTO ops(p,q,r,s) VALUES ({a},{b_},{c},{d_})")).unwrap();
        }
        Eval { db }
    }
    fn column(&self, expr_sql: &str) -> Result<Vec<vcore::sqlite::SqlVal>, String> {
        self.db
            .query(&format!("SELECT {expr_sql} FROM ops ORDER BY id"), &[])
            .map(|r| r.rows.into_iter().map(|mut r| r.remove(0)).collect())
            .map_err(|e| e.msg)
    }
}

pub fn check_tree(ctx: &Ctx, rep: &mut Report, ev: &Eval, n: u64, d: Dialect, x: &X, label: &str) {
    rep.eval();
    let built = match guard(|| x.build()) {
        Ok(e) => e,
        Err(p) => {
            rep.violation("R.panic", d.name(), panic_sig(&p), json!({"tree": format!("{x:?}"), "panic": p}), ctx.shard, n);
            return;
        }
    };
    let sql = match guard(|| render(d, &built)) {
        Ok(s) => s,
        Err(p) => {
            rep.violation("R.panic", d.name(), panic_sig(&p), json!({"tree": format!("{x:?}"), "panic": p}), ctx.shard, n);
            return;
        }
    };
    let want = x.expected(d);
    let got = lex(d, &sql).map_err(|e| format!("lex: {}", e.msg)).and_then(|t| {
        parse_expr(d, &t).map_err(|e| format!("parse error at token {}: {}", e.at, e.msg))
    });
    let sig = || {
        // operator classes along the first operator chain that matters: top and its operator children
        let kids: Vec<String> = x.children().iter().map(|c| c.class(d)).filter(|c| c != "col" && c != "lit").collect();
        format!("{} [{}] over {}", x.class(d), label, kids.join(","))
    };
    match &got {
        Ok(t) if *t == want => {
            rep.count("trees_parsed_equal", 1);
        }
        Ok(t) => {
            rep.violation(
                "R.parse.tree",
                d.name(),
                sig(),
                json!({"tree": format!("{x:?}"), "sql": sql, "expected_parse": want.show(), "got_parse": t.show()}),
                ctx.shard,
                n,
            );
            return;
        }
        Err(e) => {
            rep.violation(
                "R.parse.reject",
                d.name(),
                sig(),
                json!({"tree": format!("{x:?}"), "sql": sql, "error": e, "expected_parse": want.show()}),
                ctx.shard,
                n,
            );
            return;
        }
    }
    rep.note("matrix", format!("{}:{label}<{}", d.name(), x.children().iter().map(|c| c.class(d)).collect::<Vec<_>>().join(",")));
    if x.depth() >= 3 {
        rep.nontrivial(hash_str(&sql) ^ (d as u64) << 61);
    }
    // R.eval on SQLite
    if d == Dialect::Sqlite && !contains_tuple_operand(x) {
        let a = ev.column(&sql);
        let r = ev.column(&x.reference_sqlite());
        rep.count("eval_pairs", 1);
        match (&a, &r) {
            (Ok(av), Ok(rv)) => {
                rep.count("eval_rows_compared", av.len() as u64);
                if av != rv {
                    let i = av.iter().zip(rv.iter()).position(|(x, y)| x != y).unwrap_or(0);
                    rep.violation(
                        "R.eval",
                        d.name(),
                        sig(),
                        json!({"tree": format!("{x:?}"), "sql": sql, "reference": x.reference_sqlite(),
                               "row": i, "rendered_value": av[i].show(), "reference_value": rv[i].show()}),
                        ctx.shard,
                        n,
                    );
                }
            }
            (Err(e1), Err(_)) => {
                rep.count("eval_both_error", 1);
                let _ = e1;
            }
            (Err(e), Ok(_)) => rep.violation(
                "R.eval",
                d.name(),
                format!("{} engine rejects rendering only", sig()),
                json!({"tree": format!("{x:?}"), "sql": sql, "reference": x.reference_sqlite(), "error": e}),
                ctx.shard,
                n,
            ),
            (Ok(_), Err(e)) => {
                rep.inconclusive("reference expression rejected by engine");
                let _ = e;
            }
        }
    }
    if n % 1499 == 7 {
        rep.sample(json!({"backend": d.name(), "sql": sql, "parse": want.show()}));
    }
}

pub fn random_tree(rng: &mut Rng, d: Dialect, depth: usize) -> X {
    let [p, q, r, s] = cols();
    if depth == 0 || rng.chance(1, 6) {
        return match rng.below(9) {
            0 => p,
            1 => q,
            2 => r,
            3 => s,
            4 => X::Int(rng.range(-3, 9)),
            5 => X::Text(rng.pick(&["a", "ab", "A%", "", "1"]).to_string()),
            6 => X::Null,
            7 => X::Bool(rng.coin()),
            _ => X::Int(1),
        };
    }
    let sub = |rng: &mut Rng| random_tree(rng, d, depth - 1);
    match rng.below(14) {
        0..=5 => {
            let ops = plain_ops(d);
            let op = *rng.pick(&ops);
            X::Bin(b(sub(rng)), op, b(sub(rng)))
        }
        6 => X::Not(b(sub(rng))),
        7 => X::Between(b(sub(rng)), rng.coin(), b(sub(rng)), b(sub(rng))),
        8 => {
            let esc = if rng.coin() { Some(*rng.pick(&['!', '\\', '#'])) } else { None };
            let ilike = d == Dialect::Postgres && rng.chance(1, 3);
            let pat = if rng.coin() { X::Text(rng.pick(&["a%", "_b", "%"]).to_string()) } else { sub(rng) };
            if ilike {
                X::ILike(b(sub(rng)), rng.coin(), b(pat), esc)
            } else {
                X::Like(b(sub(rng)), rng.coin(), b(pat), esc)
            }
        }
        9 => {
            let k = rng.below(4);
            X::In(b(sub(rng)), rng.coin(), (0..k).map(|_| sub(rng)).collect())
        }
        10 => X::IsNull(b(sub(rng)), rng.coin()),
        11 => match rng.below(3) {
            0 => X::Func("ABS", vec![sub(rng)]),
            1 => X::Func("COALESCE", vec![sub(rng), sub(rng)]),
            _ => X::Cast(b(sub(rng)), "integer"),
        },
        12 => {
            let k = 1 + rng.below(2);
            X::Case((0..k).map(|_| (sub(rng), sub(rng))).collect(), if rng.coin() { Some(b(sub(rng))) } else { None })
        }
        _ => X::Tuple(vec![sub(rng), sub(rng)]),
    }
}

pub fn check(ctx: &Ctx, rep: &mut Report) {
    let ev = Eval::new();
    let mut n: u64 = 0;
    // depth 2: every frame over every filler; depth 3: every frame over (class-representative frame over filler)
    for d in Dialect::ALL {
        let fs = fillers(d);
        for f in &fs {
            for (label, x) in frames(d, f) {
                if ctx.mine(n) {
                    check_tree(ctx, rep, &ev, n, d, &x, &label);
                }
                n += 1;
            }
        }
        // depth 3 over representatives
        let reps: Vec<X> = fs
            .iter()
            .filter(|f| {
                matches!(
                    f.class(d).as_str(),
                    "AND" | "OR" | "=" | "<" | "+" | "*" | "&" | "<<" | "LIKE" | "IN" | "BETWEEN" | "NOT" | "IS NULL" | "||" | "@>" | "ILIKE" | "->" | "IS"
                )
            })
            .cloned()
            .collect();
        for f in &reps {
            for (l1, mid) in frames(d, f) {
                let top_is_rep = reps.iter().any(|r| r.class(d) == mid.class(d));
                if !top_is_rep {
                    continue;
                }
                for (l2, x) in frames(d, &mid) {
                    if ctx.mine(n) {
                        check_tree(ctx, rep, &ev, n, d, &x, &format!("{l2}<{l1}"));
                    }
                    n += 1;
                }
            }
        }
    }
    if ctx.shard == 0 && ctx.replay.is_none() {
        rep.exhaustive_parts.push(format!(
            "every (frame, filler) pair of depth 2 and every depth-3 chain over precedence-class representatives, per dialect ({n} trees); variant {}",
            ctx.variant
        ));
    }
    let base = 1u64 << 40;
    let nrand = ctx.size(24_000, 3_200_000) / ctx.nshards;
    for k in 0..nrand {
        for d in Dialect::ALL {
            let n = base + k * 3 + d as u64;
            if !ctx.wants(n) {
                continue;
            }
            crate::apply::set_route_seed(ctx.seed ^ n.wrapping_mul(0x9E3779B97F4A7C15));
            let mut rng = ctx.rng("rand", k * 3 + d as u64);
            let depth = 2 + rng.below(5);
            let x = random_tree(&mut rng, d, depth);
            check_tree(ctx, rep, &ev, n, d, &x, "random");
        }
    }
}
