pub mod c01;
pub mod c02;
pub mod c03;
pub mod c04;
pub mod c12;
pub mod c05;
pub mod c06;
pub mod c07;
pub mod c08;
pub mod c09;
pub mod c10;
pub mod c11;
pub mod c13;
pub mod c14;
pub mod c15;
pub mod c16;
pub mod c17;
#[cfg(feature = "hash")]
pub mod c18;
pub mod apply;
pub mod ddl;
pub mod fixture;
pub mod gen;
pub mod refddl;
pub mod refsql;
pub mod render;
pub mod spec;
pub mod util;
pub mod xspec;

use vcore::run::{parse_args, run, CheckFn};

pub fn lookup(prop: &str) -> Option<CheckFn> {
    match prop {
        "C01" => Some(c01::check),
        "C02" => Some(c02::check),
        "C03" => Some(c03::check),
        "C04" => Some(c04::check),
        "C12" => Some(c12::check),
        "C05" => Some(c05::check),
        "C06" => Some(c06::check),
        "C07" => Some(c07::check),
        "C08" => Some(c08::check),
        "C09" => Some(c09::check),
        "C10" => Some(c10::check),
        "C11" => Some(c11::check),
        "C13" => Some(c13::check),
        "C14" => Some(c14::check),
        "C15" => Some(c15::check),
        "C16" => Some(c16::check),
        "C17" => Some(c17::check),
        #[cfg(feature = "hash")]
        "C18" => Some(c18::check),
        _ => None,
    }
}

pub fn main_with_variant(variant: &str) -> i32 {
    let args = parse_args(variant);
    match lookup(&args.prop) {
        Some(f) => run(&args, f),
        None => {
            println!("INCONCLUSIVE: unknown property {}", args.prop);
            2
        }
    }
}
