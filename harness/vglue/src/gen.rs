//! Weighted random generator of statement specs over the fixed fixture schema
//! (DESIGN.md Appendix D), scope-aware so that generated statements are valid,
//! gated by dialect feature sets (Appendix C).

use crate::spec::*;
use crate::util::Dialect;
use crate::xspec::{b, TplPiece, X};
use sea_query::{BinOper, Value};
use vcore::prng::Rng;

#[derive(Clone, Copy, Debug, PartialEq, Eq)]
pub enum K {
    I,
    T,
    R,
}

#[derive(Clone, Debug)]
pub struct Rel {
    pub name: String,
    pub cols: Vec<(String, K)>,
    /// a column (or columns) whose values identify a row of this relation, if known
    pub key: Vec<String>,
}

#[derive(Clone, Debug)]
pub struct Cfg {
    /// target dialect; None = portable subset (rendered on all three)
    pub dialect: Option<Dialect>,
    /// statements must run deterministically on the SQLite fixture
    pub exec: bool,
    /// unique tagged values (C01) instead of domain values (C07/C09)
    pub tags: bool,
    pub max_depth: usize,
    /// quarantined features (listed findings)
    pub named_window: bool,
    pub numeric_frames: bool,
    /// all optional value types (text-level only)
    pub wide_values: bool,
    /// identifiers / inline constants that end in a backslash (quarantined for C11's inject_parameters
    /// workload: listed finding KF-C11-trailing-backslash)
    pub trailing_backslash: bool,
}

impl Cfg {
    pub fn sqlite_exec() -> Cfg {
        Cfg { dialect: Some(Dialect::Sqlite), exec: true, tags: false, max_depth: 3, named_window: true, numeric_frames: true, wide_values: false, trailing_backslash: true }
    }
    pub fn portable_exec() -> Cfg {
        Cfg { dialect: None, exec: true, tags: false, max_depth: 3, named_window: true, numeric_frames: true, wide_values: false, trailing_backslash: true }
    }
    pub fn text(d: Dialect) -> Cfg {
        Cfg { dialect: Some(d), exec: false, tags: true, max_depth: 4, named_window: true, numeric_frames: true, wide_values: true, trailing_backslash: true }
    }
    fn is(&self, d: Dialect) -> bool {
        self.dialect == Some(d)
    }
    fn sqlite_like(&self) -> bool {
        self.dialect == Some(Dialect::Sqlite)
    }
}

pub struct Gen<'a> {
    pub rng: &'a mut Rng,
    pub cfg: Cfg,
    tag: i64,
    alias: u32,
    /// CTE relations visible to FROM
    ctes: Vec<Rel>,
}

pub fn base_tables() -> Vec<Rel> {
    vec![
        Rel {
            name: "t1".into(),
            cols: vec![("id".into(), K::I), ("a".into(), K::I), ("b".into(), K::I), ("c".into(), K::T), ("d".into(), K::R)],
            key: vec!["id".into()],
        },
        Rel {
            name: "t2".into(),
            cols: vec![("id".into(), K::I), ("t1_id".into(), K::I), ("x".into(), K::I), ("y".into(), K::T)],
            key: vec!["id".into()],
        },
        Rel { name: "t3".into(), cols: vec![("k".into(), K::I), ("v".into(), K::T), ("n".into(), K::I)], key: vec!["k".into()] },
        // names that need their quoting: a backtick, a double quote, a blank, a placeholder look-alike
        Rel {
            name: "o`d\"t".into(),
            cols: vec![("id".into(), K::I), ("q`x".into(), K::I), ("w\"y".into(), K::T), ("a ?b".into(), K::I)],
            key: vec!["id".into()],
        },
    ]
}

pub const FIXTURE_SQL: &str = "
CREATE TABLE t1(id INTEGER PRIMARY KEY, a INTEGER, b INTEGER, c TEXT, d REAL);
CREATE TABLE t2(id INTEGER PRIMARY KEY, t1_id INTEGER, x INTEGER, y TEXT);
CREATE TABLE t3(k INTEGER NOT NULL UNIQUE, v TEXT, n INTEGER DEFAULT 7);
CREATE TABLE t4(id INTEGER PRIMARY KEY, w INTEGER DEFAULT 5, z TEXT DEFAULT 'dz');
INSERT INTO t1 VALUES (1,1,2,'x',0.5),(2,1,NULL,'y',1.25),(3,2,2,'',-2.5),(4,NULL,0,'Zed',NULL),(5,0,-1,'abc',0.5),
 (6,3,3,'a%c',2.75),(7,3,NULL,'a_c',NULL),(8,-1,1,'é',-0.25),(9,2,0,NULL,1.25),(10,NULL,NULL,NULL,3.5),(11,5,2,'x',0.5),(12,1,1,'y',-2.5);
INSERT INTO t2 VALUES (1,1,10,'p'),(2,1,20,'q'),(3,1,NULL,'p'),(4,2,10,NULL),(5,5,30,'r'),(6,NULL,40,'s'),(7,99,50,'t'),(8,3,0,''),(9,3,10,'q'),(10,3,-5,'p');
INSERT INTO t3 VALUES (1,'one',1),(2,'two',NULL),(3,NULL,3),(4,'four',7);
INSERT INTO t4(id) VALUES (1);
CREATE TABLE \"o`d\"\"t\"(id INTEGER PRIMARY KEY, \"q`x\" INTEGER, \"w\"\"y\" TEXT, \"a ?b\" INTEGER);
INSERT INTO \"o`d\"\"t\" VALUES (1,1,'p',NULL),(2,NULL,'q',2),(3,2,NULL,2),(4,3,'x',0),(5,1,'',-1);
";

impl<'a> Gen<'a> {
    pub fn new(rng: &'a mut Rng, cfg: Cfg) -> Gen<'a> {
        Gen { rng, cfg, tag: 1000, alias: 0, ctes: vec![] }
    }

    fn fresh(&mut self, p: &str) -> String {
        self.alias += 1;
        if p == "o" && !self.cfg.exec && self.cfg.dialect.is_some() && self.rng.chance(1, 12) {
            // output names are identifiers like any other: quote characters, a trailing backslash,
            // placeholder look-alikes
            let extra = *self.rng.pick(&["\\", "\"", "`", "?", "$1", " x", "é", "'"]);
            let extra = if extra == "\\" && !self.cfg.trailing_backslash { "\\x" } else { extra };
            return format!("{p}{}{extra}", self.alias);
        }
        format!("{p}{}", self.alias)
    }

    // ---- values ---------------------------------------------------------------

    pub fn int_val(&mut self) -> X {
        if self.cfg.tags {
            self.tag += 1;
            X::Int(self.tag)
        } else {
            X::Int(*self.rng.pick(&[0, 1, 1, 2, 2, 3, 5, -1, 10, 20]))
        }
    }

    pub fn text_val(&mut self) -> X {
        if self.cfg.tags {
            self.tag += 1;
            let t = self.tag;
            let extra = *self.rng.pick(&["", "", "'", "?", "$1", "\\", "\"", "é", "\r\n", "\u{8}", "%", "_", "\u{1a}", "\t"]);
            X::Text(format!("v{t}{extra}"))
        } else {
            X::Text(self.rng.pick(&["x", "y", "", "p", "q", "abc", "Zed", "a%c", "it's", "s\u{1a}b"]).to_string())
        }
    }

    pub fn real_val(&mut self) -> X {
        // dyadic, non-integral: the inline literal and the bound double denote the same REAL
        let v = *self.rng.pick(&[0.5, 1.25, -2.5, 2.75, -0.25, 3.5]);
        X::Val(Value::Double(Some(v)))
    }

    fn wide_val(&mut self) -> X {
        self.tag += 1;
        let t = self.tag;
        let pg = self.cfg.is(Dialect::Postgres);
        let v: Value = match self.rng.below(if pg { 40 } else { 36 }) {
            24 => Value::ChronoDateTimeUtc(Some(Box::new(chrono::TimeZone::from_utc_datetime(
                &chrono::Utc,
                &chrono::NaiveDate::from_ymd_opt(2002, 1 + (t % 12) as u32, 1 + (t % 28) as u32).unwrap().and_hms_opt((t % 24) as u32, 9, (t % 60) as u32).unwrap(),
            )))),
            25 => Value::ChronoDateTimeLocal(Some(Box::new(chrono::TimeZone::from_utc_datetime(
                &chrono::Local,
                &chrono::NaiveDate::from_ymd_opt(2003, 1 + (t % 12) as u32, 1 + (t % 28) as u32).unwrap().and_hms_opt((t % 24) as u32, (t % 60) as u32, 11).unwrap(),
            )))),
            26 => {
                // offsets east and west of Greenwich, with and without minutes
                let off = *self.rng.pick(&[0i32, 3600, -5 * 3600, 5 * 3600 + 1800, -(9 * 3600 + 1800), 14 * 3600]);
                Value::ChronoDateTimeWithTimeZone(Some(Box::new(chrono::TimeZone::from_utc_datetime(
                    &chrono::FixedOffset::east_opt(off).unwrap(),
                    &chrono::NaiveDate::from_ymd_opt(2004, 1 + (t % 12) as u32, 1 + (t % 28) as u32).unwrap().and_hms_opt((t % 24) as u32, (t % 60) as u32, 13).unwrap(),
                ))))
            }
            27 => Value::TimeTime(Some(Box::new(time::Time::from_hms_micro((t % 24) as u8, (t % 60) as u8, 17, if t % 2 == 0 { 0 } else { (t % 1000) as u32 * 1000 + 7 }).unwrap()))),
            28 => Value::TimeDateTime(Some(Box::new(time::PrimitiveDateTime::new(
                time::Date::from_calendar_date(2011, time::Month::November, 1 + (t % 28) as u8).unwrap(),
                time::Time::from_hms_micro((t % 24) as u8, 3, (t % 60) as u8, if t % 2 == 0 { 0 } else { 250_000 }).unwrap(),
            )))),
            29 => {
                let (h, m) = *self.rng.pick(&[(0i8, 0i8), (2, 0), (-7, 0), (5, 30), (-3, -30)]);
                Value::TimeDateTimeWithTimeZone(Some(Box::new(
                    time::PrimitiveDateTime::new(
                        time::Date::from_calendar_date(2012, time::Month::February, 1 + (t % 28) as u8).unwrap(),
                        time::Time::from_hms_micro((t % 24) as u8, (t % 60) as u8, 19, 0).unwrap(),
                    )
                    .assume_offset(time::UtcOffset::from_hms(h, m, 0).unwrap()),
                )))
            }
            // the NULL of every optional value type
            30 | 31 | 32 => match self.rng.below(24) {
                0 => Value::Bool(None),
                1 => Value::TinyInt(None),
                2 => Value::SmallInt(None),
                3 => Value::BigInt(None),
                4 => Value::TinyUnsigned(None),
                5 => Value::SmallUnsigned(None),
                6 => Value::Unsigned(None),
                7 => Value::BigUnsigned(None),
                8 => Value::Float(None),
                9 => Value::Double(None),
                10 => Value::Bytes(None),
                11 => Value::Char(None),
                12 => Value::Json(None),
                13 => Value::ChronoDate(None),
                14 => Value::ChronoTime(None),
                15 => Value::ChronoDateTime(None),
                16 => Value::ChronoDateTimeUtc(None),
                17 => Value::ChronoDateTimeLocal(None),
                18 => Value::ChronoDateTimeWithTimeZone(None),
                19 => self.rng.pick(&[Value::TimeDate(None), Value::TimeTime(None), Value::TimeDateTime(None), Value::TimeDateTimeWithTimeZone(None)]).clone(),
                20 => self.rng.pick(&[Value::Decimal(None), Value::BigDecimal(None)]).clone(),
                21 => Value::Uuid(None),
                22 => self.rng.pick(&[Value::IpNetwork(None), Value::MacAddress(None)]).clone(),
                _ => Value::String(None),
            },
            33 => Value::BigInt(Some(if t % 2 == 0 { i64::MIN } else { i64::MAX - t })),
            34 => Value::Double(Some(-(t as f64) - 0.5)),
            // the limits of every integer width
            35 => self
                .rng
                .pick(&[
                    Value::TinyInt(Some(i8::MIN)),
                    Value::TinyInt(Some(i8::MAX)),
                    Value::SmallInt(Some(i16::MIN)),
                    Value::SmallInt(Some(i16::MAX)),
                    Value::Int(Some(i32::MIN)),
                    Value::Int(Some(i32::MAX)),
                    Value::TinyUnsigned(Some(u8::MAX)),
                    Value::SmallUnsigned(Some(u16::MAX)),
                    Value::Unsigned(Some(u32::MAX)),
                    Value::BigUnsigned(Some(u64::MAX)),
                    Value::BigUnsigned(Some(0)),
                    Value::Int(Some(0)),
                ])
                .clone(),
            38 => Value::Array(sea_query::ArrayType::Int, None),
            39 => Value::Vector(None),
            16 => Value::ChronoDate(Some(Box::new(chrono::NaiveDate::from_ymd_opt(2000 + (t % 30) as i32, 1 + (t % 12) as u32, 1 + (t % 28) as u32).unwrap()))),
            17 => Value::ChronoDateTime(Some(Box::new(
                chrono::NaiveDate::from_ymd_opt(2001, 2, 3).unwrap().and_hms_opt((t % 24) as u32, (t % 60) as u32, 7).unwrap(),
            ))),
            18 => Value::ChronoTime(Some(Box::new(chrono::NaiveTime::from_hms_opt((t % 24) as u32, 5, (t % 60) as u32).unwrap()))),
            // (scale is part of a decimal: trailing zeros and a negative zero stay)
            19 => Value::Decimal(Some(Box::new(match t % 4 {
                0 => rust_decimal::Decimal::new(t * 100, 2),
                1 => rust_decimal::Decimal::new(-(t % 2), 1),
                _ => rust_decimal::Decimal::new(t * 10 + 5, 1),
            }))),
            20 => Value::BigDecimal(Some(Box::new(bigdecimal::BigDecimal::from(t) / 4))),
            21 => Value::TimeDate(Some(Box::new(time::Date::from_calendar_date(2010 + (t % 10) as i32, time::Month::March, 1 + (t % 28) as u8).unwrap()))),
            22 => Value::IpNetwork(Some(Box::new(ipnetwork::IpNetwork::new(std::net::IpAddr::V4(std::net::Ipv4Addr::new(10, 0, (t % 250) as u8, 0)), 24).unwrap()))),
            23 => Value::MacAddress(Some(Box::new(mac_address::MacAddress::new([1, 2, 3, 4, 5, (t % 250) as u8])))),
            36 if t % 3 == 0 => Value::Array(
                sea_query::ArrayType::String,
                Some(Box::new(vec![Value::from(format!("a{t}'b")), Value::from("c\\d\"e"), Value::from("plain")])),
            ),
            36 => Value::Array(sea_query::ArrayType::Int, Some(Box::new(if t % 4 == 0 { vec![] } else { vec![Value::Int(Some(t as i32)), Value::Int(Some(7))] }))),
            37 => Value::Vector(Some(Box::new(pgvector::Vector::from(vec![0.5f32, t as f32])))),
            0 => Value::Bool(Some(t % 2 == 0)),
            1 => Value::TinyInt(Some((t % 100) as i8)),
            2 => Value::SmallInt(Some(t as i16)),
            3 => Value::Int(Some(t as i32)),
            4 => Value::TinyUnsigned(Some((t % 200) as u8)),
            5 => Value::SmallUnsigned(Some(t as u16)),
            6 => Value::Unsigned(Some(t as u32)),
            7 => Value::BigUnsigned(Some(if t % 3 == 0 { u64::MAX - t as u64 } else { t as u64 })),
            8 => Value::Float(Some((t % 1000) as f32 + if t % 2 == 0 { 0.1 } else { 0.5 })),
            9 => Value::Double(Some(if t % 2 == 0 { t as f64 / 3.0 } else { t as f64 + 0.25 })),
            10 => Value::Bytes(Some(Box::new(vec![(t % 256) as u8, 0, 39, 92]))),
            11 => Value::Char(Some(*self.rng.pick(&['a', '\'', 'é', '?', '\\', '\n', '"', '\t', '𝄞']))),
            // JSON documents of every kind, the document `null` included (a present value, not SQL NULL)
            12 => Value::Json(Some(Box::new(match self.rng.below(6) {
                0 => serde_json::Value::Null,
                1 => serde_json::json!("s'?$1\\"),
                2 => serde_json::json!(t as f64 + 0.5),
                3 => serde_json::json!([t, "a", null]),
                4 => serde_json::json!(t % 2 == 0),
                _ => serde_json::json!({"t": t, "q": "?'$1"}),
            }))),
            13 => Value::String(None),
            14 => Value::Int(None),
            _ => Value::Uuid(Some(Box::new(uuid::Uuid::from_u128(t as u128)))),
        };
        X::Val(v)
    }

    fn val_of(&mut self, k: K) -> X {
        if self.cfg.wide_values && self.rng.chance(1, 5) {
            return self.wide_val();
        }
        match k {
            K::I => self.int_val(),
            K::T => self.text_val(),
            K::R => self.real_val(),
        }
    }

    // ---- expressions ----------------------------------------------------------

    fn col_of(&mut self, scope: &[Rel], k: Option<K>) -> Option<X> {
        let mut cands = vec![];
        for r in scope {
            for (c, ck) in &r.cols {
                if k.is_none() || k == Some(*ck) {
                    cands.push(X::QCol(r.name.clone(), c.clone()));
                }
            }
        }
        if cands.is_empty() {
            None
        } else {
            Some(self.rng.pick(&cands).clone())
        }
    }

    /// scalar expression of kind k
    pub fn scalar(&mut self, scope: &[Rel], k: K, depth: usize) -> X {
        if depth == 0 || self.rng.chance(2, 5) {
            if self.rng.chance(3, 5) {
                if let Some(c) = self.col_of(scope, Some(k)) {
                    return c;
                }
            }
            return self.val_of(k);
        }
        if !self.cfg.exec && self.rng.chance(1, 10) {
            if let Some(e) = self.text_level_scalar(scope, k, depth) {
                return e;
            }
        }
        match k {
            K::I => match self.rng.below(9) {
                0 | 1 => {
                    let op = *self.rng.pick(&[BinOper::Add, BinOper::Sub, BinOper::Mul, BinOper::Mod]);
                    let l = self.scalar(scope, K::I, depth - 1);
                    let r = if op == BinOper::Mul || op == BinOper::Mod {
                        X::Int(*self.rng.pick(&[2, 3, 7]))
                    } else {
                        self.scalar(scope, K::I, depth - 1)
                    };
                    X::Bin(b(l), op, b(r))
                }
                2 => X::Func("ABS", vec![self.scalar(scope, K::I, depth - 1)]),
                3 => {
                    let mut args = vec![self.scalar(scope, K::I, depth - 1), self.int_val()];
                    if self.rng.chance(1, 3) {
                        args.insert(1, self.scalar(scope, K::I, depth - 1));
                    }
                    X::Func("COALESCE", args)
                }
                4 => X::Func("IFNULL", vec![self.scalar(scope, K::I, depth - 1), self.int_val()]),
                5 => X::Func("CHAR_LENGTH", vec![self.scalar(scope, K::T, depth - 1)]),
                6 => {
                    let c = self.boolean(scope, depth - 1);
                    let t = self.scalar(scope, K::I, depth - 1);
                    let e = if self.rng.coin() { Some(b(self.scalar(scope, K::I, depth - 1))) } else { None };
                    X::Case(vec![(c, t)], e)
                }
                7 => {
                    let a = self.scalar(scope, K::I, depth - 1);
                    let c = self.scalar(scope, K::I, depth - 1);
                    X::Func(if self.rng.coin() { "GREATEST" } else { "LEAST" }, vec![a, c])
                }
                _ => X::Scalar(Box::new(self.agg_subquery(depth - 1))),
            },
            K::T => match self.rng.below(5) {
                0 => X::Func("LOWER", vec![self.scalar(scope, K::T, depth - 1)]),
                1 => X::Func("UPPER", vec![self.scalar(scope, K::T, depth - 1)]),
                2 => X::Func("COALESCE", vec![self.scalar(scope, K::T, depth - 1), self.text_val()]),
                3 => {
                    let c = self.boolean(scope, depth - 1);
                    let t = self.scalar(scope, K::T, depth - 1);
                    let e = self.scalar(scope, K::T, depth - 1);
                    X::Case(vec![(c, t)], Some(b(e)))
                }
                _ => self.scalar(scope, K::T, 0),
            },
            K::R => {
                if self.rng.coin() {
                    X::Func("ABS", vec![self.scalar(scope, K::R, depth - 1)])
                } else {
                    let l = self.scalar(scope, K::R, depth - 1);
                    let r = self.real_val();
                    X::Bin(b(l), *self.rng.pick(&[BinOper::Add, BinOper::Sub, BinOper::Mul]), b(r))
                }
            }
        }
    }

    /// dialect-specific / opaque expression forms, text-level workloads only
    fn text_level_scalar(&mut self, scope: &[Rel], k: K, depth: usize) -> Option<X> {
        let d = self.cfg.dialect?;
        match self.rng.below(4) {
            0 => {
                // custom template with values (positional, or numbered incl. a repeated / reordered $n on Postgres)
                let a0 = self.scalar(scope, k, depth - 1);
                let a1 = self.scalar(scope, k, depth - 1);
                let numbered = d == Dialect::Postgres;
                let pieces = if numbered && self.rng.coin() {
                    vec![TplPiece::Text("COALESCE(".into()), TplPiece::Arg(1), TplPiece::Text(", ".into()), TplPiece::Arg(0), TplPiece::Text(", ".into()), TplPiece::Arg(1), TplPiece::Text(")".into())]
                } else {
                    vec![TplPiece::Text("COALESCE(".into()), TplPiece::Arg(0), TplPiece::Text(", '?$1', ".into()), TplPiece::Arg(1), TplPiece::Text(")".into())]
                };
                Some(X::CustWith(pieces, vec![a0, a1], numbered))
            }
            1 if d == Dialect::Postgres && k == K::T => {
                let e = self.scalar(scope, K::T, depth - 1);
                Some(X::AsEnum(if self.rng.coin() { "mood".into() } else { "mood[]".into() }, b(e)))
            }
            2 if d == Dialect::Postgres && k == K::T => {
                let l = self.scalar(scope, K::T, depth - 1);
                let r = self.scalar(scope, K::T, depth - 1);
                Some(X::Bin(b(l), BinOper::PgOperator(sea_query::extension::postgres::PgBinOper::Concatenate), b(r)))
            }
            3 if d == Dialect::Postgres && self.rng.coin() => {
                let t = |g: &mut Self| g.scalar(scope, K::T, depth - 1);
                Some(match self.rng.below(10) {
                    8 => {
                        let unit = *self.rng.pick(&["microseconds", "milliseconds", "second", "minute", "hour", "day", "week", "month", "quarter", "year", "decade", "century", "millennium"]);
                        X::Func("DATE_TRUNC", vec![X::Text(unit.into()), t(self)])
                    }
                    9 => X::Func("ARRAY_AGG_DISTINCT", vec![self.scalar(scope, k, depth - 1)]),
                    0 => {
                        let f = *self.rng.pick(&["TO_TSQUERY", "TO_TSVECTOR", "PHRASETO_TSQUERY", "PLAINTO_TSQUERY", "WEBSEARCH_TO_TSQUERY"]);
                        if self.rng.coin() {
                            // with a text-search configuration (an OID, bound as an unsigned value) in front
                            self.tag += 1;
                            let cfg = X::Val(Value::Unsigned(Some(self.tag as u32)));
                            X::Func(f, vec![cfg, t(self)])
                        } else {
                            X::Func(f, vec![t(self)])
                        }
                    }
                    1 => {
                        let (v, q) = (X::Func("TO_TSVECTOR", vec![t(self)]), X::Func("TO_TSQUERY", vec![self.text_val()]));
                        X::Func(if self.rng.coin() { "TS_RANK" } else { "TS_RANK_CD" }, vec![v, q])
                    }
                    2 => {
                        let (x0, x1) = (t(self), self.text_val());
                        X::Func("STARTS_WITH", vec![x0, x1])
                    }
                    3 => X::Func("GEN_RANDOM_UUID", vec![]),
                    4 => {
                        let (k0, v0) = (self.text_val(), self.scalar(scope, k, depth - 1));
                        X::Func("JSON_BUILD_OBJECT", vec![k0, v0])
                    }
                    5 => {
                        let (k0, v0, k1, v1) = (self.text_val(), self.scalar(scope, k, depth - 1), self.text_val(), self.int_val());
                        X::Func("JSON_BUILD_OBJECT", vec![k0, v0, k1, v1])
                    }
                    6 => X::Func("JSON_AGG", vec![self.scalar(scope, k, depth - 1)]),
                    _ => X::Func("ARRAY_AGG", vec![self.scalar(scope, k, depth - 1)]),
                })
            }
            3 => Some(match self.rng.below(5) {
                0 => X::Cust(if k == K::T { "CURRENT_USER".into() } else { "PI".into() }),
                1 => X::Kw(*self.rng.pick(&["CURRENT_TIMESTAMP", "CURRENT_DATE", "CURRENT_TIME"])),
                2 if k == K::T => X::Func("MD5", vec![self.scalar(scope, K::T, depth - 1)]),
                3 if k != K::T && self.rng.coin() => X::Func("ROUND", vec![self.scalar(scope, K::R, depth - 1), self.int_val()]),
                3 if k != K::T => X::Func("ROUND", vec![self.scalar(scope, K::R, depth - 1)]),
                4 if k != K::T => X::Func("RANDOM", vec![]),
                _ => X::Kw("LOCALTIME"),
            }),
            _ => None,
        }
    }

    /// boolean expression
    pub fn boolean(&mut self, scope: &[Rel], depth: usize) -> X {
        let k = *self.rng.pick(&[K::I, K::I, K::I, K::T, K::R]);
        if depth == 0 {
            let l = self.scalar(scope, k, 0);
            let r = self.scalar(scope, k, 0);
            return X::Bin(b(l), *self.rng.pick(&[BinOper::Equal, BinOper::SmallerThan, BinOper::GreaterThanOrEqual]), b(r));
        }
        if self.cfg.is(Dialect::Sqlite) && self.rng.chance(1, 20) {
            // SQLite: IS / IS NOT take any operand, a bound NULL or value included
            let l = self.scalar(scope, K::I, depth - 1);
            let r = match self.rng.below(3) {
                0 => X::Val(Value::Int(None)),
                1 => X::Val(Value::BigInt(None)),
                _ => self.int_val(),
            };
            return X::Bin(b(l), if self.rng.coin() { BinOper::Is } else { BinOper::IsNot }, b(r));
        }
        if !self.cfg.exec && self.cfg.is(Dialect::Postgres) && self.rng.chance(1, 25) {
            // comparison with ANY / SOME / ALL of an array value (PgFunc)
            let l = self.scalar(scope, K::I, depth - 1);
            self.tag += 1;
            let arr = X::Val(Value::Array(sea_query::ArrayType::Int, Some(Box::new(vec![Value::Int(Some(self.tag as i32)), Value::Int(Some(3))]))));
            let f = *self.rng.pick(&["ANY", "SOME", "ALL"]);
            return X::Bin(b(l), *self.rng.pick(&[BinOper::Equal, BinOper::NotEqual, BinOper::SmallerThan]), b(X::Func(f, vec![arr])));
        }
        if !self.cfg.exec && self.cfg.is(Dialect::Postgres) && self.rng.chance(1, 12) {
            use sea_query::extension::postgres::PgBinOper;
            let l = self.scalar(scope, K::T, depth - 1);
            let r = self.scalar(scope, K::T, depth - 1);
            let op = *self.rng.pick(&[PgBinOper::ILike, PgBinOper::NotILike, PgBinOper::Contains, PgBinOper::Regex, PgBinOper::Matches]);
            return X::Bin(b(l), BinOper::PgOperator(op), b(r));
        }
        match self.rng.below(14) {
            0..=3 => {
                let op = *self.rng.pick(&[
                    BinOper::Equal,
                    BinOper::NotEqual,
                    BinOper::SmallerThan,
                    BinOper::GreaterThan,
                    BinOper::SmallerThanOrEqual,
                    BinOper::GreaterThanOrEqual,
                ]);
                let l = self.scalar(scope, k, depth - 1);
                let r = self.scalar(scope, k, depth - 1);
                X::Bin(b(l), op, b(r))
            }
            4 => {
                let l = self.boolean(scope, depth - 1);
                let r = self.boolean(scope, depth - 1);
                X::Bin(b(l), if self.rng.coin() { BinOper::And } else { BinOper::Or }, b(r))
            }
            5 => X::Not(b(self.boolean(scope, depth - 1))),
            6 => {
                let e = self.scalar(scope, K::I, depth - 1);
                let lo = self.scalar(scope, K::I, depth - 1);
                let hi = self.scalar(scope, K::I, depth - 1);
                X::Between(b(e), self.rng.chance(1, 4), b(lo), b(hi))
            }
            7 if self.rng.chance(1, 4) => {
                // row-value IN: (c1, c2) IN ((v, v), ..)
                let c1 = self.scalar(scope, K::I, 0);
                let c2 = self.scalar(scope, K::I, 0);
                let nrows = 1 + self.rng.below(3);
                let mut rows = vec![];
                for _ in 0..nrows {
                    let mut row = vec![];
                    for _ in 0..2 {
                        row.push(match self.int_val() {
                            X::Int(v) => Value::BigInt(Some(v)),
                            _ => Value::BigInt(Some(1)),
                        });
                    }
                    rows.push(row);
                }
                X::InTuples(vec![c1, c2], rows)
            }
            7 => {
                let e = self.scalar(scope, k, depth - 1);
                let n = self.rng.below(4);
                let mut list: Vec<X> = (0..n).map(|_| self.val_of(k)).collect();
                if !list.is_empty() && self.rng.chance(1, 5) {
                    // the same member twice in a row (a list is not a set)
                    let dup = list[list.len() - 1].clone();
                    list.push(dup);
                }
                if !self.cfg.exec && self.cfg.is(Dialect::Postgres) && self.rng.chance(1, 5) {
                    // enum casts as direct members of the list
                    list = list.into_iter().map(|v| X::AsEnum("mood".into(), b(v))).collect();
                }
                X::In(b(e), self.rng.chance(1, 4), list)
            }
            8 => {
                let e = self.scalar(scope, K::T, depth - 1);
                let pat = if self.cfg.tags { self.text_val() } else { X::Text(self.rng.pick(&["a%", "%c", "_", "a!%c", "%"]).to_string()) };
                let esc = if self.rng.chance(1, 3) { Some(*self.rng.pick(&['!', '!', if self.cfg.trailing_backslash { '\\' } else { '!' }, '#'])) } else { None };
                if !self.cfg.exec && self.cfg.is(Dialect::Postgres) && self.rng.chance(1, 3) {
                    X::ILike(b(e), self.rng.chance(1, 4), b(pat), esc)
                } else {
                    X::Like(b(e), self.rng.chance(1, 4), b(pat), esc)
                }
            }
            9 => {
                let e = self.scalar(scope, k, depth - 1);
                X::IsNull(b(e), self.rng.coin())
            }
            10 if !self.cfg.exec && (self.cfg.is(Dialect::Mysql) || self.cfg.is(Dialect::Postgres)) && self.rng.chance(1, 3) => {
                let e = self.scalar(scope, K::I, depth - 1);
                let sq = self.one_column_select(K::I, depth - 1);
                let op = *self.rng.pick(&[BinOper::Equal, BinOper::NotEqual, BinOper::GreaterThan, BinOper::SmallerThanOrEqual]);
                X::SubOp(b(e), op, self.rng.below(3) as u8, Box::new(sq))
            }
            10 => {
                let sq = self.simple_select(depth - 1, Some(scope));
                X::Exists(self.rng.chance(1, 3), Box::new(sq))
            }
            11 => {
                let e = self.scalar(scope, K::I, depth - 1);
                let sq = self.one_column_select(K::I, depth - 1);
                X::InSub(b(e), self.rng.chance(1, 4), Box::new(sq))
            }
            _ => {
                let l = self.scalar(scope, k, depth - 1);
                let r = self.scalar(scope, k, depth - 1);
                X::Bin(b(l), BinOper::Equal, b(r))
            }
        }
    }

    /// `SELECT <aggregate> FROM <table> [WHERE ..]` — exactly one row, one column
    fn agg_subquery(&mut self, depth: usize) -> Sel {
        let t = self.pick_base();
        let rel = self.alias_rel(&t);
        let scope = vec![rel.clone()];
        let c = self.col_of(&scope, Some(K::I)).unwrap();
        let agg = match self.rng.below(4) {
            0 => X::Func("COUNT", vec![X::Star]),
            1 => X::Func("MAX", vec![c]),
            2 => X::Func("MIN", vec![c]),
            _ => X::Func("SUM", vec![c]),
        };
        let mut s = Sel { items: vec![Item { expr: agg, alias: None, window: None }], from: vec![self.from_of(&t, &rel)], ..Default::default() };
        if self.rng.coin() {
            s.wheres.push(self.boolean(&scope, depth.min(1)));
        }
        s
    }

    fn one_column_select(&mut self, k: K, depth: usize) -> Sel {
        let t = self.pick_base();
        let rel = self.alias_rel(&t);
        let scope = vec![rel.clone()];
        let e = self.scalar(&scope, k, depth.min(1));
        let mut s = Sel { items: vec![Item { expr: e, alias: None, window: None }], from: vec![self.from_of(&t, &rel)], ..Default::default() };
        if self.rng.coin() {
            s.wheres.push(self.boolean(&scope, depth.min(1)));
        }
        s
    }

    // ---- relations ------------------------------------------------------------

    fn pick_base(&mut self) -> Rel {
        let mut cands = base_tables();
        cands.extend(self.ctes.iter().cloned());
        self.rng.pick(&cands).clone()
    }

    /// the relation as visible under a fresh alias
    fn alias_rel(&mut self, t: &Rel) -> Rel {
        let mut r = t.clone();
        r.name = self.fresh("r");
        r
    }

    fn from_of(&mut self, t: &Rel, aliased: &Rel) -> From_ {
        // a base table may be named with its schema: SQLite's own `main` (so that the statement still runs),
        // any name elsewhere
        if self.cfg.dialect.is_some() && base_tables().iter().any(|b| b.name == t.name) && self.rng.chance(1, 8) {
            let schema = if self.cfg.sqlite_like() { "main" } else { "sch" };
            return From_::SchemaTable(schema.into(), t.name.clone(), Some(aliased.name.clone()));
        }
        From_::Table(t.name.clone(), Some(aliased.name.clone()))
    }

    /// a FROM element and the relation it makes visible
    fn from_element(&mut self, depth: usize) -> (From_, Rel) {
        match self.rng.below(10) {
            0 if depth > 0 => {
                // now and then a full select as the sub-query: its own ORDER BY / LIMIT / OFFSET, set operations, WITH
                let sq = if self.rng.chance(1, 4) { self.select(depth - 1) } else { self.simple_select(depth - 1, None) };
                let alias = self.fresh("s");
                let cols = sq.out.iter().map(|c| (c.clone(), K::I)).collect();
                (From_::Sub(Box::new(sq), alias.clone()), Rel { name: alias, cols, key: vec![] })
            }
            1 if self.cfg.dialect.is_some() && self.rng.coin() => {
                // a VALUES list as a table: 1-3 rows of (integer), (integer, text) or (integer, text, integer);
                // the engines name its columns themselves
                let nrows = 1 + self.rng.below(3) as usize;
                let ncols = *self.rng.pick(&[1usize, 2, 2, 3]);
                let mut rows = vec![];
                for _ in 0..nrows {
                    let i = match self.int_val() {
                        X::Int(v) => v,
                        _ => 1,
                    };
                    let t = match self.text_val() {
                        X::Text(t) => t,
                        _ => "x".into(),
                    };
                    let j = match self.int_val() {
                        X::Int(v) => v,
                        _ => 2,
                    };
                    let row = vec![Value::BigInt(Some(i)), Value::String(Some(Box::new(t))), Value::BigInt(Some(j))];
                    rows.push(row[..ncols].to_vec());
                }
                let alias = self.fresh("v");
                let names = if self.cfg.is(Dialect::Mysql) { ["column_0", "column_1", "column_2"] } else { ["column1", "column2", "column3"] };
                let cols: Vec<(String, K)> = vec![(names[0].to_string(), K::I), (names[1].to_string(), K::T), (names[2].to_string(), K::I)][..ncols].to_vec();
                (From_::Values(rows, alias.clone()), Rel { name: alias, cols, key: vec![] })
            }
            2 if (self.cfg.is(Dialect::Sqlite) || self.cfg.is(Dialect::Postgres)) && self.rng.coin() => {
                // a table function: json_each over a literal array on SQLite (runs on the engine), generate_series
                // on Postgres (text level)
                let alias = self.fresh("f");
                if self.cfg.is(Dialect::Sqlite) {
                    let arr = *self.rng.pick(&["[1,2,3]", "[2,2,5,0]", "[]", "[7]"]);
                    (From_::Func("json_each".into(), vec![X::Text(arr.into())], alias.clone()), Rel { name: alias, cols: vec![("key".into(), K::I), ("value".into(), K::I)], key: vec!["key".into()] })
                } else {
                    let hi = self.int_val();
                    (From_::Func("generate_series".into(), vec![X::Int(1), hi], alias.clone()), Rel { name: alias.clone(), cols: vec![(alias, K::I)], key: vec![] })
                }
            }
            _ => {
                let t = self.pick_base();
                let rel = self.alias_rel(&t);
                (self.from_of(&t, &rel), rel)
            }
        }
    }

    /// A select without set operations / limit, with named output columns.
    pub fn simple_select(&mut self, depth: usize, outer: Option<&[Rel]>) -> Sel {
        let mut s = Sel::default();
        let (f, rel) = self.from_element(depth);
        s.from.push(f);
        let mut scope = vec![rel];
        // joins
        let nj = if depth > 0 { self.rng.pick_weighted(&[6, 3, 1]) } else { 0 };
        for _ in 0..nj {
            let (f, rel) = self.from_element(depth.saturating_sub(1));
            // the API gives every join an ON clause; Postgres has no `CROSS JOIN .. ON` (listed finding,
            // pinned probe in C08), so cross joins are generated for MySQL and SQLite only
            let mut kinds = vec![JoinKind::Inner, JoinKind::Left, JoinKind::Join];
            if self.cfg.is(Dialect::Mysql) || self.cfg.is(Dialect::Sqlite) {
                kinds.push(JoinKind::Cross);
            }
            if !self.cfg.is(Dialect::Mysql) && self.cfg.dialect.is_some() {
                kinds.push(JoinKind::Full);
            }
            if self.cfg.dialect.is_some() {
                kinds.push(JoinKind::Right);
            }
            let kind = *self.rng.pick(&kinds);
            let mut on = vec![];
            {
                // equality between an int column of the new relation and one of the scope
                let l = self.col_of(&scope, Some(K::I)).unwrap();
                let r = self.col_of(std::slice::from_ref(&rel), Some(K::I)).unwrap();
                on.push(X::Bin(b(l), BinOper::Equal, b(r)));
                if self.rng.chance(1, 3) {
                    let mut both = scope.clone();
                    both.push(rel.clone());
                    on.push(self.boolean(&both, depth.min(1)));
                }
            }
            if self.rng.chance(1, 15) {
                // a join given an empty condition group (it renders ON TRUE)
                on.clear();
            }
            let lateral = matches!(f, From_::Sub(..)) && !self.cfg.exec && (self.cfg.is(Dialect::Mysql) || self.cfg.is(Dialect::Postgres)) && self.rng.chance(1, 3);
            s.joins.push(Join { kind, from: f, on, lateral });
            scope.push(rel);
        }
        let mut full_scope = scope.clone();
        if let Some(o) = outer {
            if self.rng.chance(1, 2) {
                full_scope.extend(o.iter().cloned());
            }
        }
        let nw = self.rng.pick_weighted(&[3, 5, 2, 1]);
        for _ in 0..nw {
            let w = self.boolean(&full_scope, depth.min(2));
            s.wheres.push(w);
        }
        let grouped = self.rng.chance(1, 4);
        if !grouped && self.rng.chance(1, 12) {
            // aggregates over the whole result, optionally filtered by HAVING without GROUP BY
            let na = 1 + self.rng.below(2);
            for _ in 0..na {
                let agg = self.aggregate(&scope);
                let a = self.fresh("o");
                s.items.push(Item { expr: agg, alias: Some(a.clone()), window: None });
                s.out.push(a);
            }
            if self.rng.chance(2, 3) {
                let agg = self.aggregate(&scope);
                let v = self.int_val();
                s.havings.push(X::Bin(b(agg), *self.rng.pick(&[BinOper::GreaterThan, BinOper::SmallerThanOrEqual, BinOper::NotEqual]), b(v)));
            }
            return s;
        }
        if grouped {
            let ng = 1 + self.rng.below(2);
            for _ in 0..ng {
                let g = self.col_of(&scope, None).unwrap();
                if !s.groups.contains(&g) {
                    let a = self.fresh("o");
                    s.items.push(Item { expr: g.clone(), alias: Some(a.clone()), window: None });
                    s.out.push(a);
                    s.groups.push(g);
                }
            }
            let na = 1 + self.rng.below(2);
            for _ in 0..na {
                let agg = self.aggregate(&scope);
                let a = self.fresh("o");
                s.items.push(Item { expr: agg, alias: Some(a.clone()), window: None });
                s.out.push(a);
            }
            if self.rng.chance(1, 2) {
                let agg = self.aggregate(&scope);
                let v = self.int_val();
                s.havings.push(X::Bin(b(agg), *self.rng.pick(&[BinOper::GreaterThan, BinOper::SmallerThanOrEqual, BinOper::NotEqual]), b(v)));
            }
        } else {
            let ni = 1 + self.rng.below(4);
            for _ in 0..ni {
                let k = *self.rng.pick(&[K::I, K::I, K::T, K::R]);
                let e = self.scalar(&full_scope, k, depth.min(2));
                let a = self.fresh("o");
                s.items.push(Item { expr: e, alias: Some(a.clone()), window: None });
                s.out.push(a);
            }
            if self.cfg.exec && self.rng.chance(1, 10) {
                // a binary value among the items: x'..' on MySQL / SQLite, '\x..' on Postgres
                let t = self.rng.below(200) as u8;
                let a = self.fresh("o");
                s.items.push(Item { expr: X::Val(Value::Bytes(Some(Box::new(vec![t, 0, 7, 0xAB, 39])))), alias: Some(a.clone()), window: None });
                s.out.push(a);
            }
            if self.cfg.exec && self.rng.chance(1, 12) {
                // a JSON document among the items (a string literal when inlined, its serialised text when bound)
                self.tag += 1;
                let a = self.fresh("o");
                let doc = match self.rng.below(3) {
                    0 => serde_json::json!({"q": "it's", "t": self.tag}),
                    1 => serde_json::json!(["a'b", null, 1.5]),
                    _ => serde_json::json!("plain ' \" text"),
                };
                s.items.push(Item { expr: X::Val(Value::Json(Some(Box::new(doc)))), alias: Some(a.clone()), window: None });
                s.out.push(a);
            }
            // candidate ORDER BY keys that are expressions over the scope rather than output names
            for _ in 0..self.rng.below(3) {
                let e = self.order_key_expr(&scope);
                s.order_exprs.push(e);
            }
            if self.rng.chance(1, 6) {
                s.distinct = Some(Distinct::Distinct);
            } else if self.rng.chance(1, 6) && self.cfg.dialect.is_some() {
                // window function item
                let w = self.window_spec(&scope);
                let c = self.col_of(&scope, Some(K::I)).unwrap();
                let f = match self.rng.below(4) {
                    0 => X::Func("SUM", vec![c]),
                    1 => X::Func("COUNT", vec![X::Star]),
                    2 => X::Func("MAX", vec![c]),
                    _ => X::Func("MIN", vec![c]),
                };
                let a = self.fresh("o");
                let wref = if self.cfg.named_window && self.rng.chance(1, 3) {
                    let name = self.fresh("w");
                    s.window = Some((name.clone(), w));
                    WinRef::Named(name)
                } else {
                    WinRef::Inline(w)
                };
                s.items.push(Item { expr: f, alias: Some(a.clone()), window: Some(wref) });
                s.out.push(a);
            }
        }
        s
    }

    fn aggregate(&mut self, scope: &[Rel]) -> X {
        let c = self.col_of(scope, Some(K::I)).unwrap();
        if !self.cfg.exec && self.cfg.dialect.is_some() && self.rng.chance(1, 6) {
            // aggregates without an exact SQLite counterpart (text level only)
            return X::Func(*self.rng.pick(&["AVG", "BIT_AND", "BIT_OR"]), vec![c]);
        }
        match self.rng.below(6) {
            0 => X::Func("COUNT", vec![X::Star]),
            1 => X::Func("SUM", vec![c]),
            2 => X::Func("MAX", vec![c]),
            3 => X::Func("MIN", vec![c]),
            4 => X::Func("COUNT_DISTINCT", vec![c]),
            _ => X::Func("COUNT", vec![c]),
        }
    }

    fn window_spec(&mut self, scope: &[Rel]) -> Win {
        let mut w = Win { partition: vec![], order: vec![], frame: None };
        if !self.cfg.exec && self.cfg.numeric_frames && self.rng.chance(1, 10) {
            // nothing but a frame (text level: without an ordering the frame's rows are not determined)
            w.frame = Some((true, FrameBound::Preceding(2), Some(FrameBound::Following(1))));
            return w;
        }
        if self.rng.coin() {
            let c = self.col_of(scope, Some(K::I)).unwrap();
            match &c {
                // the partition key written as a custom fragment (partition_by_customs)
                X::QCol(t, n) if self.rng.chance(1, 8) && t.chars().chain(n.chars()).all(|ch| ch.is_ascii_alphanumeric() || ch == '_') => {
                    w.partition.push(X::Cust(format!("{t}.{n}")));
                }
                _ => w.partition.push(c),
            }
            if self.rng.chance(1, 4) {
                let c2 = self.col_of(scope, None).unwrap();
                if !w.partition.contains(&c2) {
                    w.partition.push(c2);
                }
            }
        }
        // total order inside the partition: a column then every key of the scope
        if self.rng.chance(3, 4) {
            let c = self.col_of(scope, None).unwrap();
            let wn = if self.rng.chance(1, 4) { Some(self.rng.coin()) } else { None };
            w.order.push(Ord_ { expr: c, dir: if self.rng.coin() { Dir::Asc } else { Dir::Desc }, nulls_first: wn });
            let mut keyed = true;
            for r in scope {
                if r.key.is_empty() {
                    keyed = false;
                }
                for k in &r.key {
                    w.order.push(Ord_ { expr: X::QCol(r.name.clone(), k.clone()), dir: Dir::Asc, nulls_first: None });
                }
            }
            if keyed || !self.cfg.exec {
                let bounds = [FrameBound::UnboundedPreceding, FrameBound::CurrentRow, FrameBound::UnboundedFollowing];
                let numeric = [FrameBound::Preceding(1), FrameBound::Following(2)];
                if self.cfg.numeric_frames && self.rng.chance(1, 6) {
                    // both bounds numeric, on the same side or around the current row (start never after end)
                    let (s0, e0) = match self.rng.below(6) {
                        // an offset of zero is an offset like any other
                        4 => (FrameBound::Preceding(0), FrameBound::Following(0)),
                        5 => (FrameBound::Preceding(2), FrameBound::Preceding(0)),
                        0 => (FrameBound::Preceding(3), FrameBound::Preceding(1)),
                        1 => (FrameBound::Following(1), FrameBound::Following(3)),
                        2 => (FrameBound::Preceding(2), FrameBound::Following(1)),
                        _ => (FrameBound::CurrentRow, FrameBound::Following(2)),
                    };
                    w.frame = Some((true, s0, Some(e0)));
                } else if self.rng.coin() {
                    let start = if self.cfg.numeric_frames && self.rng.coin() { numeric[0].clone() } else { bounds[self.rng.below(2)].clone() };
                    let end = if self.rng.coin() {
                        Some(if self.cfg.numeric_frames && self.rng.coin() { numeric[1].clone() } else { bounds[1 + self.rng.below(2)].clone() })
                    } else {
                        None
                    };
                    w.frame = Some((true, start, end));
                }
            } else {
                // without a total order only the default frame is deterministic
            }
        }
        w
    }

    /// An expression over the scope for an ORDER BY key: function calls over nullable columns, arithmetic
    /// with a value, or a general scalar.
    fn order_key_expr(&mut self, scope: &[Rel]) -> X {
        let k = *self.rng.pick(&[K::I, K::I, K::T]);
        match self.rng.below(6) {
            // a truth value as a key (loosest-binding operators on top)
            5 => self.boolean(scope, 1),
            0 => {
                let a = self.col_any(scope, k);
                let c = self.col_any(scope, k);
                X::Func("COALESCE", vec![a, c])
            }
            1 => {
                let a = self.col_any(scope, k);
                let v = self.val_of(k);
                X::Func(if self.rng.coin() { "IFNULL" } else { "COALESCE" }, vec![a, v])
            }
            2 => {
                let a = self.col_any(scope, K::I);
                let v = self.int_val();
                X::Bin(b(a), *self.rng.pick(&[BinOper::Add, BinOper::Sub, BinOper::Mul]), b(v))
            }
            3 => self.col_of(scope, None).unwrap(),
            _ => {
                // a bare literal is not a key: an inlined integer in ORDER BY is a column position, a bound
                // one a constant (SQL's rule, not the builder's)
                let e = self.scalar(scope, k, 1);
                if e.children().is_empty() && !matches!(e, X::Col(_) | X::QCol(..)) {
                    self.col_any(scope, k)
                } else {
                    e
                }
            }
        }
    }

    fn col_any(&mut self, scope: &[Rel], k: K) -> X {
        match self.col_of(scope, Some(k)) {
            Some(c) => c,
            None => self.col_of(scope, None).unwrap(),
        }
    }

    fn order_item(&mut self, s: &Sel, allow_nulls: bool, allow_field: bool) -> Ord_ {
        if allow_field && s.distinct.is_none() && !s.order_exprs.is_empty() && self.rng.chance(1, 3) {
            let e = self.rng.pick(&s.order_exprs).clone();
            let dir = if self.rng.chance(1, 5) {
                Dir::Field(vec![Value::from(1i32), Value::from(2i32)][..1 + self.rng.below(2)].to_vec())
            } else if self.rng.coin() {
                Dir::Asc
            } else {
                Dir::Desc
            };
            if matches!(dir, Dir::Field(_)) {
                // (FIELD order with NULLS ordering on a non-column key: listed C09 finding, not generated here)
                return Ord_ { expr: e, dir, nulls_first: None };
            }
            let nulls_first = if allow_nulls && self.rng.coin() { Some(self.rng.coin()) } else { None };
            return Ord_ { expr: e, dir, nulls_first };
        }
        let c = self.rng.pick(&s.out).clone();
        let dir = if allow_field && self.rng.chance(1, 8) {
            let vals = vec![Value::from(1i32), Value::from(2i32), Value::from(*self.rng.pick(&["x", "x", if self.cfg.trailing_backslash { "dir\\" } else { "dir\\x" }, "it's"]))];
            Dir::Field(vals[..1 + self.rng.below(3)].to_vec())
        } else if self.rng.coin() {
            Dir::Asc
        } else {
            Dir::Desc
        };
        // FIELD order + NULLS ordering: MySQL's emulation orders by the expression's nullness, the native
        // `CASE .. END NULLS LAST` of Postgres/SQLite is a no-op (the CASE is never NULL) — listed finding
        // KF-C09-field-order-nulls, pinned probe in C09; the combination is not generated for portable statements
        let nulls_first = if allow_nulls && (self.cfg.dialect.is_some() || !matches!(dir, Dir::Field(_))) && self.rng.chance(1, 3) { Some(self.rng.coin()) } else { None };
        if c.chars().all(|ch| ch.is_ascii_alphanumeric()) && !matches!(dir, Dir::Field(_)) && self.rng.chance(1, 10) {
            // the output name written as a custom fragment (order_by_customs)
            return Ord_ { expr: X::Cust(c), dir, nulls_first };
        }
        Ord_ { expr: X::Col(crate::util::intern(&c)), dir, nulls_first }
    }

    /// Full select: simple select + optional CTEs, set operations, ORDER BY, LIMIT/OFFSET, dialect extras.
    pub fn select(&mut self, depth: usize) -> Sel {
        let saved_ctes = self.ctes.clone();
        let mut with = None;
        if depth > 0 && self.rng.chance(1, 5) {
            with = Some(self.with_clause(depth - 1));
        }
        let mut s = self.simple_select(depth, None);
        if depth > 0 && self.rng.chance(1, 5) {
            let n = 1 + self.rng.below(2);
            for _ in 0..n {
                let mut u = self.simple_select(depth - 1, None);
                // same number of output columns
                while u.items.len() > s.items.len() {
                    u.items.pop();
                    u.out.pop();
                }
                while u.items.len() < s.items.len() {
                    let a = self.fresh("o");
                    u.items.push(Item { expr: self.int_val(), alias: Some(a.clone()), window: None });
                    u.out.push(a);
                }
                if !u.groups.is_empty() && u.items.iter().filter(|i| u.groups.contains(&i.expr)).count() < u.groups.len() {
                    // group keys were cut: keep it valid by dropping grouping
                    continue;
                }
                if !self.cfg.exec && (self.cfg.is(Dialect::Mysql) || self.cfg.is(Dialect::Postgres)) && u.groups.is_empty() && self.rng.chance(1, 8) {
                    // an operand that is itself a compound (nested parentheses)
                    let mut inner = self.simple_select(0, None);
                    while inner.items.len() > u.items.len() {
                        inner.items.pop();
                        inner.out.pop();
                    }
                    if inner.items.len() == u.items.len() && inner.groups.is_empty() {
                        u.unions.push((*self.rng.pick(&[SetOp::Union, SetOp::UnionAll, SetOp::Intersect, SetOp::Except]), inner));
                    }
                }
                if !self.cfg.exec && (self.cfg.is(Dialect::Mysql) || self.cfg.is(Dialect::Postgres)) && !u.out.is_empty() && self.rng.chance(1, 4) {
                    // an operand with its own ORDER BY / LIMIT (parenthesised operands: not a SQLite feature)
                    let c: &'static str = crate::util::intern(&u.out[0]);
                    u.orders.push(Ord_ { expr: X::Col(c), dir: if self.rng.coin() { Dir::Asc } else { Dir::Desc }, nulls_first: None });
                    u.limit = Some(1 + self.rng.below(5) as u64);
                    if self.rng.coin() {
                        u.offset = Some(self.rng.below(3) as u64);
                    }
                }
                let mut op = *self.rng.pick(&[SetOp::Union, SetOp::UnionAll, SetOp::Intersect, SetOp::Except]);
                if self.cfg.sqlite_like() && u.groups.is_empty() && u.unions.is_empty() && self.rng.chance(1, 8) {
                    // SQLite has no parenthesised operands: a nested compound is written flat, which is the same
                    // query when the inner and the outer operator are one and the same associative operator
                    let mut inner = self.simple_select(0, None);
                    while inner.items.len() > u.items.len() {
                        inner.items.pop();
                        inner.out.pop();
                    }
                    if inner.items.len() == u.items.len() && inner.groups.is_empty() {
                        op = *self.rng.pick(&[SetOp::Union, SetOp::UnionAll, SetOp::Intersect]);
                        u.unions.push((op, inner));
                    }
                }
                s.unions.push((op, u));
            }
        }
        let compound = !s.unions.is_empty();
        let want_limit = self.rng.chance(1, 3);
        if !s.out.is_empty() && (self.rng.coin() || want_limit) {
            let n = 1 + self.rng.below(2);
            for _ in 0..n {
                let o = self.order_item(&s, !compound, !compound);
                s.orders.push(o);
            }
            if want_limit {
                // make the order total over the output row: order by every output column
                for c in s.out.clone() {
                    let name: &'static str = crate::util::intern(&c);
                    if !s.orders.iter().any(|o| o.expr == X::Col(name) && !matches!(o.dir, Dir::Field(_))) {
                        s.orders.push(Ord_ { expr: X::Col(name), dir: Dir::Asc, nulls_first: None });
                    }
                }
                s.total_order = true;
                s.limit = Some(self.rng.below(6) as u64);
                if self.rng.coin() {
                    s.offset = Some(self.rng.below(4) as u64);
                }
            }
        }
        if !self.cfg.exec {
            if self.cfg.is(Dialect::Postgres) && s.limit.is_none() && self.rng.chance(1, 8) {
                // Postgres has OFFSET without LIMIT
                s.offset = Some(self.rng.below(9) as u64);
            }
            self.text_level_extras(&mut s);
        } else if self.cfg.sqlite_like() && self.rng.chance(1, 10) {
            // SQLite has no locking clause: whatever form the builder is given, nothing is rendered
            let of = if self.rng.coin() { vec!["t1".to_string()] } else { vec![] };
            s.lock = Some(Lock { kind: *self.rng.pick(&[LockKind::Update, LockKind::Share]), of, nowait: if self.rng.coin() { Some(self.rng.coin()) } else { None } });
        }
        s.with = with;
        self.ctes = saved_ctes;
        s
    }

    fn text_level_extras(&mut self, s: &mut Sel) {
        if s.unions.is_empty() && s.groups.is_empty() && s.havings.is_empty() && s.distinct.is_none() && self.rng.chance(1, 12) {
            // every column of one relation, as one more item
            let name = match s.from.first() {
                Some(From_::Table(t, al)) | Some(From_::SchemaTable(_, t, al)) => Some(al.clone().unwrap_or_else(|| t.clone())),
                Some(From_::Sub(_, al)) | Some(From_::Values(_, al)) | Some(From_::Func(_, _, al)) => Some(al.clone()),
                None => None,
            };
            if let (Some(n), false) = (name, s.items.iter().any(|i| matches!(i.expr, X::Func(..)) && i.window.is_none())) {
                s.items.push(Item { expr: X::QStar(n), alias: None, window: None });
            }
        }
        match self.cfg.dialect {
            Some(Dialect::Mysql) => {
                if self.rng.chance(1, 8) && !s.from.is_empty() {
                    s.index_hints.push((self.rng.below(3) as u8, self.rng.below(4) as u8, "ix1".into()));
                }
                if self.rng.chance(1, 8) && s.unions.is_empty() {
                    s.lock = Some(Lock { kind: *self.rng.pick(&[LockKind::Update, LockKind::Share]), of: vec![], nowait: if self.rng.coin() { Some(self.rng.coin()) } else { None } });
                }
            }
            Some(Dialect::Sqlite) => {
                // SQLite has no locking clause: whatever form the builder is given, nothing is rendered
                if self.rng.chance(1, 10) {
                    let of = if self.rng.coin() { vec!["t1".to_string()] } else { vec![] };
                    s.lock = Some(Lock { kind: *self.rng.pick(&[LockKind::Update, LockKind::Share]), of, nowait: if self.rng.coin() { Some(self.rng.coin()) } else { None } });
                }
            }
            Some(Dialect::Postgres) => {
                if self.rng.chance(1, 10) && s.joins.is_empty() && matches!(s.from.first(), Some(From_::Table(..))) {
                    s.sample = Some((self.rng.coin(), *self.rng.pick(&[10.0, 0.5, 100.0]), *self.rng.pick(&[None, Some(1.0), Some(0.0), Some(0.25)])));
                }
                if self.rng.chance(1, 8) && s.unions.is_empty() && s.groups.is_empty() && s.distinct.is_none() {
                    s.lock = Some(Lock {
                        kind: *self.rng.pick(&[LockKind::Update, LockKind::Share, LockKind::NoKeyUpdate, LockKind::KeyShare]),
                        of: if self.rng.coin() { vec![s.from[0].name().to_string()] } else { vec![] },
                        nowait: if self.rng.coin() { Some(self.rng.coin()) } else { None },
                    });
                }
                if self.rng.chance(1, 10) && s.distinct.is_none() && s.groups.is_empty() && s.unions.is_empty() {
                    if let Some(From_::Table(_, Some(a))) = s.from.first() {
                        s.distinct = Some(Distinct::On(vec![(a.clone(), "id".into())]));
                    }
                }
            }
            _ => {}
        }
    }

    fn with_clause(&mut self, depth: usize) -> With {
        let mut w = With::default();
        if self.rng.chance(1, 3) {
            // recursive counter: WITH RECURSIVE c(n) AS (SELECT 1 UNION ALL SELECT n + 1 FROM c WHERE n < k)
            let name = self.fresh("c");
            let lim = 2 + self.rng.below(4) as i64;
            let start = self.int_val();
            let step = X::Int(1);
            let rec = Sel {
                items: vec![Item { expr: X::Bin(b(X::QCol(name.clone(), "n".into())), BinOper::Add, b(step)), alias: None, window: None }],
                from: vec![From_::Table(name.clone(), None)],
                wheres: vec![X::Bin(b(X::QCol(name.clone(), "n".into())), BinOper::SmallerThan, b(X::Int(lim + if self.cfg.tags { 0 } else { 5 })))],
                ..Default::default()
            };
            let base = Sel {
                items: vec![Item { expr: if self.cfg.tags { start } else { X::Int(1) }, alias: None, window: None }],
                unions: vec![(SetOp::UnionAll, rec)],
                ..Default::default()
            };
            w.recursive = true;
            w.ctes.push(Cte { name: name.clone(), cols: vec!["n".into()], infer: false, body: Box::new(CteBody::Sel(base)), materialized: None });
            self.ctes.push(Rel { name, cols: vec![("n".into(), K::I)], key: vec!["n".into()] });
            if self.cfg.is(Dialect::Postgres) && !self.cfg.exec && self.rng.chance(1, 3) {
                w.search = Some((self.rng.coin(), "n".into(), "ord".into()));
            }
            if self.cfg.is(Dialect::Postgres) && !self.cfg.exec && self.rng.chance(1, 3) {
                w.cycle = Some(("n".into(), "is_cycle".into(), "path".into()));
            }
        } else if !self.cfg.exec && self.cfg.is(Dialect::Postgres) && self.rng.chance(1, 4) {
            // data-modifying CTE (Postgres): DELETE / UPDATE / INSERT .. RETURNING <key> as the body
            let name = self.fresh("c");
            let saved = std::mem::take(&mut self.ctes);
            let (body, key) = match self.rng.below(3) {
                0 => {
                    let mut d = self.delete(0);
                    d.with = None;
                    let key = base_tables().into_iter().find(|t| t.name == d.table).map(|t| t.key[0].clone()).unwrap_or_else(|| "id".into());
                    d.returning = Some(Returning::Cols(vec![key.clone()]));
                    (CteBody::Del(d), key)
                }
                1 => {
                    let mut u = self.update(0);
                    u.with = None;
                    let key = base_tables().into_iter().find(|t| t.name == u.table).map(|t| t.key[0].clone()).unwrap_or_else(|| "id".into());
                    u.returning = Some(Returning::Cols(vec![key.clone()]));
                    (CteBody::Upd(u), key)
                }
                _ => {
                    let mut i = self.insert(0);
                    i.with = None;
                    i.returning = Some(Returning::Cols(vec!["k".into()]));
                    (CteBody::Ins(i), "k".to_string())
                }
            };
            self.ctes = saved;
            w.ctes.push(Cte { name: name.clone(), cols: vec![], infer: false, body: Box::new(body), materialized: None });
            self.ctes.push(Rel { name, cols: vec![(key, K::I)], key: vec![] });
        } else {
            let n = 1 + self.rng.below(2);
            for _ in 0..n {
                let q = self.simple_select(depth, None);
                let name = self.fresh("c");
                let named_cols = self.rng.coin();
                let cols: Vec<String> = if named_cols { (0..q.out.len()).map(|i| format!("k{i}")).collect() } else { vec![] };
                let rel_cols: Vec<(String, K)> = if named_cols { cols.iter().map(|c| (c.clone(), K::I)).collect() } else { q.out.iter().map(|c| (c.clone(), K::I)).collect() };
                let materialized = if self.cfg.dialect != Some(Dialect::Mysql) && self.cfg.dialect.is_some() && self.rng.chance(1, 3) {
                    Some(self.rng.coin())
                } else {
                    None
                };
                let mut q = q;
                let mut rel_cols = rel_cols;
                let infer = !named_cols && self.rng.chance(1, 3);
                if infer && q.items.len() >= 2 && q.unions.is_empty() && self.rng.coin() {
                    // a select list that is only partly nameable: the last item loses its alias (and is not
                    // visible under a name outside)
                    let last = q.items.len() - 1;
                    if !matches!(q.items[last].expr, X::Col(_) | X::QCol(..)) && q.items[last].window.is_none() {
                        q.items[last].alias = None;
                        rel_cols.pop();
                    }
                }
                w.ctes.push(Cte { name: name.clone(), cols, infer, body: Box::new(CteBody::Sel(q)), materialized });
                self.ctes.push(Rel { name, cols: rel_cols, key: vec![] });
            }
        }
        w
    }

    // ---- DML ------------------------------------------------------------------

    fn returning(&mut self, rel: &Rel) -> Option<Returning> {
        if self.cfg.dialect.is_none() || self.cfg.is(Dialect::Mysql) || !self.rng.chance(1, 3) {
            return None;
        }
        Some(match self.rng.below(3) {
            0 => Returning::All,
            1 => {
                let n = 1 + self.rng.below(rel.cols.len().min(3));
                Returning::Cols(rel.cols[..n].iter().map(|c| c.0.clone()).collect())
            }
            _ => {
                let unq = Rel { name: rel.name.clone(), cols: rel.cols.clone(), key: vec![] };
                let n = 1 + self.rng.below(2);
                Returning::Exprs((0..n).map(|_| self.scalar_unqualified(&unq, K::I)).collect())
            }
        })
    }

    /// expression over unqualified columns of one table (DML contexts)
    fn scalar_unqualified(&mut self, rel: &Rel, k: K) -> X {
        let cands: Vec<&(String, K)> = rel.cols.iter().filter(|c| c.1 == k).collect();
        if cands.is_empty() {
            return self.val_of(k);
        }
        let c = self.rng.pick(&cands).0.clone();
        let col = X::Col(crate::util::intern(&c));
        match self.rng.below(3) {
            0 => col,
            1 if k == K::I => X::Bin(b(col), BinOper::Add, b(self.int_val())),
            _ => col,
        }
    }

    fn bool_unqualified(&mut self, rel: &Rel) -> X {
        let k = *self.rng.pick(&[K::I, K::I, K::T]);
        let l = self.scalar_unqualified(rel, k);
        let r = self.val_of(k);
        match self.rng.below(5) {
            0 => X::IsNull(b(l), self.rng.coin()),
            1 if k == K::I => {
                let sq = self.one_column_select(K::I, 1);
                X::InSub(b(l), false, Box::new(sq))
            }
            2 => X::In(b(l), false, vec![r, self.val_of(k)]),
            _ => X::Bin(b(l), *self.rng.pick(&[BinOper::Equal, BinOper::GreaterThan, BinOper::SmallerThanOrEqual, BinOper::NotEqual]), b(r)),
        }
    }

    pub fn insert(&mut self, depth: usize) -> Ins {
        let t3 = base_tables().remove(2);
        let mut s = Ins { with: None, replace: false, table: "t3".into(), cols: vec![], source: InsSource::Default(1), conflict: None, returning: None };
        let pick = if self.cfg.dialect.is_none() { 1 + self.rng.below(7) } else { self.rng.below(8) };
        match pick {
            0 => {
                // default rows into t4
                s.table = "t4".into();
                let n = if self.cfg.sqlite_like() || self.cfg.dialect.is_none() { 1 } else { 1 + self.rng.below(2) as u32 };
                s.source = InsSource::Default(n);
                let t4 = Rel { name: "t4".into(), cols: vec![("id".into(), K::I), ("w".into(), K::I)], key: vec![] };
                s.returning = self.returning(&t4);
                if self.rng.chance(1, 3) {
                    let action = if self.cfg.is(Dialect::Mysql) || self.rng.coin() { ConflictAction::UpdateCols(vec!["w".into()]) } else { ConflictAction::Nothing };
                    s.conflict = Some(Conflict { target_cols: vec!["id".into()], target_exprs: vec![], target_where: vec![], action: Some(action), action_where: vec![] });
                }
                return s;
            }
            1 | 2 => {
                s.cols = vec!["k".into(), "v".into()];
                let t = self.pick_base();
                let rel = self.alias_rel(&t);
                let scope = vec![rel.clone()];
                let key = self.col_of(&scope, Some(K::I)).unwrap();
                let off = if self.cfg.tags { self.int_val() } else { X::Int(100) };
                let items = vec![
                    Item { expr: X::Bin(b(key), BinOper::Add, b(off)), alias: None, window: None },
                    Item { expr: self.scalar(&scope, K::T, 1), alias: None, window: None },
                ];
                let mut q = Sel { items, from: vec![self.from_of(&t, &rel)], ..Default::default() };
                if self.rng.coin() {
                    q.wheres.push(self.boolean(&scope, depth.min(1)));
                }
                q.distinct = Some(Distinct::Distinct);
                if q.wheres.is_empty() {
                    // SQLite's documented parsing ambiguity: INSERT .. SELECT .. ON CONFLICT needs something between
                    // the FROM table and ON — a WHERE clause, or an ORDER BY / LIMIT (above every table's size)
                    if self.rng.coin() {
                        q.wheres.push(X::Bool(true));
                    } else {
                        let k0 = q.items[0].expr.clone();
                        q.orders.push(Ord_ { expr: k0, dir: Dir::Asc, nulls_first: None });
                        q.limit = Some(50 + self.rng.below(9) as u64);
                    }
                }
                s.source = InsSource::Select(Box::new(q));
            }
            _ => {
                let with_n = self.rng.coin();
                s.cols = if with_n { vec!["k".into(), "v".into(), "n".into()] } else { vec!["k".into(), "v".into()] };
                let rows = 1 + self.rng.below(3);
                let mut used = vec![];
                let mut out = vec![];
                for _ in 0..rows {
                    let k = if self.cfg.tags {
                        self.int_val()
                    } else {
                        let mut k = *self.rng.pick(&[1i64, 2, 3, 4, 50, 51, 52, 53]);
                        while used.contains(&k) {
                            k += 7;
                        }
                        used.push(k);
                        X::Int(k)
                    };
                    let mut row = vec![k, self.scalar(&[], K::T, 1)];
                    if with_n {
                        row.push(if self.rng.chance(1, 4) { X::Null } else { self.scalar(&[], K::I, 1) });
                    }
                    out.push(row);
                }
                s.source = InsSource::Values(out);
            }
        }
        // REPLACE / ON CONFLICT
        let can_replace = !self.cfg.is(Dialect::Postgres) && self.cfg.dialect.is_some();
        if can_replace && self.rng.chance(1, 6) {
            s.replace = true;
        } else if self.rng.chance(1, 2) && self.cfg.dialect.is_some() {
            let mysql = self.cfg.is(Dialect::Mysql);
            let action = match self.rng.below(4) {
                0 => {
                    // do_nothing_on with one key or a composite key
                    let keys: Vec<String> = if self.rng.coin() { vec!["k".into(), "v".into()] } else { vec!["k".into()] };
                    if mysql {
                        ConflictAction::NothingOn(keys)
                    } else if self.rng.coin() {
                        ConflictAction::Nothing
                    } else {
                        ConflictAction::NothingOn(keys)
                    }
                }
                1 => ConflictAction::UpdateCols(vec!["v".into()]),
                2 => ConflictAction::UpdateCols(s.cols[1..].to_vec()),
                _ => ConflictAction::UpdateExprs(vec![("v".into(), self.text_val())]),
            };
            let mut c = Conflict { target_cols: vec!["k".into()], target_exprs: vec![], target_where: vec![], action: Some(action), action_where: vec![] };
            if !mysql && self.rng.chance(1, 3) && matches!(c.action, Some(ConflictAction::UpdateCols(_)) | Some(ConflictAction::UpdateExprs(_))) {
                // action condition refers to the existing row
                c.action_where.push(X::Bin(b(X::QCol("t3".into(), "k".into())), BinOper::GreaterThan, b(self.int_val())));
            }
            if !mysql && !self.cfg.exec && self.cfg.dialect.is_some() {
                // the conflict target may name a partial (WHERE ..) or expression index — with every action
                if self.rng.chance(1, 4) {
                    c.target_where.push(X::Bin(b(X::Col("k")), BinOper::GreaterThan, b(self.int_val())));
                    if self.rng.chance(1, 3) {
                        c.target_where.push(X::IsNull(b(X::Col("v")), true));
                    }
                }
                if self.rng.chance(1, 6) {
                    c.target_exprs.push(X::Func("LOWER", vec![X::Col("v")]));
                }
            }
            s.conflict = Some(c);
        }
        s.returning = self.returning(&t3);
        if depth > 0 && self.rng.chance(1, 8) && !self.cfg.is(Dialect::Mysql) && self.cfg.dialect.is_some() {
            if let InsSource::Select(q) = &mut s.source {
                let saved = self.ctes.clone();
                let w = self.with_clause(0);
                // use the CTE as the source relation when it is a plain one
                if let Some(c) = self.ctes.last().cloned() {
                    if let Some((col, _)) = c.cols.first() {
                        q.items[0].expr = X::Bin(b(X::QCol(c.name.clone(), col.clone())), BinOper::Add, b(X::Int(200)));
                        q.items[1].expr = self.text_val();
                        q.from = vec![From_::Table(c.name.clone(), None)];
                        q.wheres.clear();
                        q.wheres.push(X::IsNull(b(X::QCol(c.name.clone(), col.clone())), true));
                        s.with = Some(w);
                    }
                }
                self.ctes = saved;
            }
        }
        s
    }

    fn dml_target(&mut self) -> Rel {
        { let mut b = base_tables(); let n = b.len(); b.remove(self.rng.below(n)) }
    }

    pub fn update(&mut self, depth: usize) -> Upd {
        let t = self.dml_target();
        let alias = if self.cfg.dialect.is_some() && self.rng.chance(1, 6) { Some(self.fresh("g")) } else { None };
        let tq = alias.clone().unwrap_or_else(|| t.name.clone());
        let mut s = Upd { with: None, table: t.name.clone(), alias, sets: vec![], from: vec![], wheres: vec![], orders: vec![], limit: None, returning: None };
        let settable: Vec<(String, K)> = t.cols.iter().filter(|c| !t.key.contains(&c.0)).cloned().collect();
        let ns = 1 + self.rng.below(2);
        let use_from = self.rng.chance(1, 4) && self.cfg.dialect.is_some();
        let mut from_rel = None;
        if use_from {
            let other = base_tables().remove(if t.name == "t2" { 0 } else { 1 });
            let rel = self.alias_rel(&other);
            s.from.push(self.from_of(&other, &rel));
            // join condition: target key = some int column of the other relation
            let oc = self.col_of(std::slice::from_ref(&rel), Some(K::I)).unwrap();
            s.wheres.push(X::Bin(b(X::QCol(tq.clone(), t.key[0].clone())), BinOper::Equal, b(oc)));
            from_rel = Some(rel);
        }
        for i in 0..ns {
            let (c, k) = settable[(self.rng.below(settable.len()) + i) % settable.len()].clone();
            // (a column assigned twice is two assignments, in call order: text level, where the engine allows it)
            let twice_ok = !self.cfg.exec && (self.cfg.is(Dialect::Mysql) || self.cfg.is(Dialect::Sqlite)) && self.rng.chance(1, 4);
            if s.sets.iter().any(|(x, _)| *x == c) && !twice_ok {
                continue;
            }
            let e = match &from_rel {
                Some(r) if self.rng.coin() => {
                    // deterministic only if at most one row matches; use an aggregate-free constant instead when executing
                    if self.cfg.exec {
                        self.val_of(k)
                    } else {
                        self.col_of(std::slice::from_ref(r), Some(k)).unwrap_or_else(|| self.val_of(k))
                    }
                }
                _ => {
                    if use_from {
                        self.val_of(k)
                    } else {
                        self.scalar_unqualified(&t, k)
                    }
                }
            };
            s.sets.push((c, e));
        }
        if !use_from {
            let nw = self.rng.pick_weighted(&[1, 5, 2]);
            for _ in 0..nw {
                s.wheres.push(self.bool_unqualified(&t));
            }
            let can_limit = !self.cfg.is(Dialect::Postgres) && self.cfg.dialect.is_some();
            if can_limit && self.rng.chance(1, 10) {
                // LIMIT without ORDER BY: deterministic because the limit exceeds every table
                s.limit = Some(100 + self.rng.below(5) as u64);
            } else if can_limit && self.rng.chance(1, 3) {
                if self.rng.coin() {
                    let c = t.cols[1].0.clone();
                    let keyx = if self.rng.chance(1, 3) {
                    // an expression key (the statement's own key column follows, so the order stays total)
                    let v = self.int_val();
                    X::Func("COALESCE", vec![X::Col(crate::util::intern(&c)), v])
                } else {
                    X::Col(crate::util::intern(&c))
                };
                s.orders.push(Ord_ { expr: keyx, dir: if self.rng.coin() { Dir::Asc } else { Dir::Desc }, nulls_first: if self.rng.chance(1, 3) { Some(self.rng.coin()) } else { None } });
                }
                s.orders.push(Ord_ { expr: X::Col(crate::util::intern(&t.key[0])), dir: Dir::Asc, nulls_first: None });
                s.limit = Some(1 + self.rng.below(4) as u64);
            }
        }
        s.returning = self.returning(&t);
        self.quarantine_limit_returning(&mut s.returning, s.limit.is_some());
        if depth > 0 && self.rng.chance(1, 8) && !use_from && !self.cfg.is(Dialect::Mysql) && self.cfg.dialect.is_some() {
            self.attach_cte_filter(&t, &mut s.with, &mut s.wheres);
        }
        s
    }

    /// (formerly a quarantine for SQLite's RETURNING-before-LIMIT order; the defect is fixed, commit e09306d)
    fn quarantine_limit_returning(&mut self, _ret: &mut Option<Returning>, _has_limit: bool) {}

    fn attach_cte_filter(&mut self, t: &Rel, with: &mut Option<With>, wheres: &mut Vec<X>) {
        let saved = self.ctes.clone();
        let w = self.with_clause(0);
        if let Some(c) = self.ctes.last().cloned() {
            if let Some((col, _)) = c.cols.first() {
                let sq = Sel {
                    items: vec![Item { expr: X::QCol(c.name.clone(), col.clone()), alias: None, window: None }],
                    from: vec![From_::Table(c.name.clone(), None)],
                    ..Default::default()
                };
                let key: &'static str = crate::util::intern(&t.key[0]);
                wheres.push(X::InSub(b(X::Col(key)), false, Box::new(sq)));
                *with = Some(w);
            }
        }
        self.ctes = saved;
    }

    pub fn delete(&mut self, depth: usize) -> Del {
        let t = self.dml_target();
        let alias = if self.cfg.dialect.is_some() && self.rng.chance(1, 6) { Some(self.fresh("g")) } else { None };
        let mut s = Del { with: None, table: t.name.clone(), alias, wheres: vec![], orders: vec![], limit: None, returning: None };
        let nw = self.rng.pick_weighted(&[1, 5, 2]);
        for _ in 0..nw {
            s.wheres.push(self.bool_unqualified(&t));
        }
        let can_limit = !self.cfg.is(Dialect::Postgres) && self.cfg.dialect.is_some();
        if can_limit && self.rng.chance(1, 10) {
            s.limit = Some(100 + self.rng.below(5) as u64);
        } else if can_limit && self.rng.chance(1, 3) {
            if self.rng.coin() {
                let c = t.cols[1].0.clone();
                let keyx = if self.rng.chance(1, 3) {
                    // an expression key (the statement's own key column follows, so the order stays total)
                    let v = self.int_val();
                    X::Func("COALESCE", vec![X::Col(crate::util::intern(&c)), v])
                } else {
                    X::Col(crate::util::intern(&c))
                };
                s.orders.push(Ord_ { expr: keyx, dir: if self.rng.coin() { Dir::Asc } else { Dir::Desc }, nulls_first: if self.rng.chance(1, 3) { Some(self.rng.coin()) } else { None } });
            }
            s.orders.push(Ord_ { expr: X::Col(crate::util::intern(&t.key[0])), dir: Dir::Asc, nulls_first: None });
            s.limit = Some(1 + self.rng.below(4) as u64);
        }
        s.returning = self.returning(&t);
        self.quarantine_limit_returning(&mut s.returning, s.limit.is_some());
        if depth > 0 && self.rng.chance(1, 8) && !self.cfg.is(Dialect::Mysql) && self.cfg.dialect.is_some() {
            self.attach_cte_filter(&t, &mut s.with, &mut s.wheres);
        }
        s
    }

    pub fn statement(&mut self) -> Stmt {
        let depth = 1 + self.rng.below(self.cfg.max_depth);
        match self.rng.pick_weighted(&[6, 2, 2, 2]) {
            0 => Stmt::Sel(self.select(depth)),
            1 => Stmt::Ins(self.insert(depth)),
            2 => Stmt::Upd(self.update(depth)),
            _ => Stmt::Del(self.delete(depth)),
        }
    }
}

// ---- fingerprints ---------------------------------------------------------------

/// clause-kind labels present in a statement (for histograms and non-triviality rules)
pub fn clause_kinds(s: &Stmt) -> Vec<&'static str> {
    let mut v = vec![];
    fn sel_kinds(q: &Sel, v: &mut Vec<&'static str>) {
        if q.with.is_some() {
            v.push("with");
            if q.with.as_ref().unwrap().recursive {
                v.push("recursive");
            }
        }
        if q.distinct.is_some() {
            v.push("distinct");
        }
        if !q.joins.is_empty() {
            v.push("join");
        }
        if q.from.iter().any(|f| matches!(f, From_::Sub(..))) || q.joins.iter().any(|j| matches!(j.from, From_::Sub(..))) {
            v.push("from-subquery");
        }
        if q.from.iter().any(|f| matches!(f, From_::Values(..))) || q.joins.iter().any(|j| matches!(j.from, From_::Values(..))) {
            v.push("values-list");
        }
        if q.from.iter().any(|f| matches!(f, From_::Func(..))) || q.joins.iter().any(|j| matches!(j.from, From_::Func(..))) {
            v.push("table-function");
        }
        if !q.wheres.is_empty() {
            v.push("where");
        }
        if !q.groups.is_empty() {
            v.push("group");
        }
        if !q.havings.is_empty() {
            v.push("having");
        }
        if !q.unions.is_empty() {
            v.push("setop");
        }
        if !q.orders.is_empty() {
            v.push("order");
            if q.orders.iter().any(|o| o.nulls_first.is_some()) {
                v.push("nulls-order");
            }
            if q.orders.iter().any(|o| matches!(o.dir, Dir::Field(_))) {
                v.push("field-order");
            }
        }
        if q.limit.is_some() {
            v.push("limit");
        }
        if q.offset.is_some() {
            v.push("offset");
        }
        if q.items.iter().any(|i| i.window.is_some()) {
            v.push("window");
        }
        if q.lock.is_some() {
            v.push("lock");
        }
    }
    match s {
        Stmt::Sel(q) => sel_kinds(q, &mut v),
        Stmt::Ins(q) => {
            v.push("insert");
            match &q.source {
                InsSource::Values(_) => v.push("values"),
                InsSource::Select(s) => {
                    v.push("insert-select");
                    sel_kinds(s, &mut v)
                }
                InsSource::Default(_) => v.push("default-values"),
            }
            if q.replace {
                v.push("replace");
            }
            if q.conflict.is_some() {
                v.push("on-conflict");
            }
            if q.returning.is_some() {
                v.push("returning");
            }
            if q.with.is_some() {
                v.push("with");
            }
        }
        Stmt::Upd(q) => {
            v.push("update");
            if !q.from.is_empty() {
                v.push("update-from");
                if q.alias.is_some() {
                    v.push("update-from-aliased-target");
                }
            }
            if !q.wheres.is_empty() {
                v.push("where");
            }
            if q.limit.is_some() {
                v.push("dml-limit");
            }
            if q.returning.is_some() {
                v.push("returning");
            }
            if q.with.is_some() {
                v.push("with");
            }
        }
        Stmt::Del(q) => {
            v.push("delete");
            if !q.wheres.is_empty() {
                v.push("where");
            }
            if q.limit.is_some() {
                v.push("dml-limit");
            }
            if q.returning.is_some() {
                v.push("returning");
            }
            if q.with.is_some() {
                v.push("with");
            }
        }
    }
    v
}
