//! C07 — on SQLite, a built statement does what the builder calls say.
//! The inline form, the parameterised form (bound) and an independently written
//! fully explicit reference rendering are executed on the same fixture and must
//! agree on acceptance, rows and resulting table contents.

use crate::apply;
use crate::fixture::{binds_of, show_outcome, Fixture, Outcome};
use crate::gen::{clause_kinds, Cfg, Gen};
use crate::refsql::{self, Ref};
use crate::spec::*;
use crate::util::*;
use serde_json::json;
use vcore::prng::hash_str;
use vcore::report::Report;
use vcore::run::{guard, panic_sig, Ctx};

fn ordered(s: &Stmt) -> bool {
    matches!(s, Stmt::Sel(q) if q.total_order)
}

fn changes_rows(fx: &Fixture, o: &Outcome) -> bool {
    match o {
        Outcome::Ok { snapshot, .. } => *snapshot != fx.snapshot(),
        _ => false,
    }
}

/// Clause-removal variants of a spec, labelled by the clause removed.
fn ablations(s: &Stmt) -> Vec<(&'static str, Stmt)> {
    let mut v = vec![];
    match s {
        Stmt::Sel(q) => {
            if !q.wheres.is_empty() {
                let mut c = q.clone();
                c.wheres.pop();
                v.push(("where", Stmt::Sel(c)));
            }
            if q.distinct.is_some() {
                let mut c = q.clone();
                c.distinct = None;
                v.push(("distinct", Stmt::Sel(c)));
            }
            if !q.havings.is_empty() {
                let mut c = q.clone();
                c.havings.clear();
                v.push(("having", Stmt::Sel(c)));
            }
            if q.limit.is_some() {
                let mut c = q.clone();
                c.limit = None;
                c.offset = None;
                v.push(("limit", Stmt::Sel(c)));
            }
            if q.offset.is_some() {
                let mut c = q.clone();
                c.offset = None;
                v.push(("offset", Stmt::Sel(c)));
            }
            if q.limit.is_some() && !q.orders.is_empty() {
                let mut c = q.clone();
                for o in c.orders.iter_mut() {
                    o.dir = match &o.dir {
                        Dir::Asc => Dir::Desc,
                        Dir::Desc => Dir::Asc,
                        d => d.clone(),
                    };
                }
                v.push(("order-direction", Stmt::Sel(c)));
            }
            if q.orders.iter().any(|o| o.nulls_first.is_some()) && q.limit.is_some() {
                let mut c = q.clone();
                for o in c.orders.iter_mut() {
                    o.nulls_first = o.nulls_first.map(|x| !x);
                }
                v.push(("nulls-order", Stmt::Sel(c)));
            }
            if !q.unions.is_empty() {
                let mut c = q.clone();
                c.unions.pop();
                v.push(("setop", Stmt::Sel(c)));
            }
            if let Some(j) = q.joins.first() {
                if j.kind == JoinKind::Left || j.kind == JoinKind::Inner {
                    let mut c = q.clone();
                    c.joins[0].kind = if j.kind == JoinKind::Left { JoinKind::Inner } else { JoinKind::Left };
                    v.push(("join-type", Stmt::Sel(c)));
                }
            }
        }
        Stmt::Upd(q) => {
            if !q.wheres.is_empty() && q.from.is_empty() {
                let mut c = q.clone();
                c.wheres.pop();
                v.push(("update-where", Stmt::Upd(c)));
            }
            if q.limit.is_some() {
                let mut c = q.clone();
                c.limit = None;
                c.orders.clear();
                v.push(("dml-limit", Stmt::Upd(c)));
            }
        }
        Stmt::Del(q) => {
            if !q.wheres.is_empty() {
                let mut c = q.clone();
                c.wheres.pop();
                v.push(("delete-where", Stmt::Del(c)));
            }
            if q.limit.is_some() {
                let mut c = q.clone();
                c.limit = None;
                c.orders.clear();
                v.push(("dml-limit", Stmt::Del(c)));
            }
        }
        Stmt::Ins(q) => {
            if q.conflict.is_some() {
                let mut c = q.clone();
                c.conflict = None;
                v.push(("on-conflict", Stmt::Ins(c)));
            }
        }
    }
    v
}

pub fn check_spec(ctx: &Ctx, rep: &mut Report, fx: &Fixture, n: u64, spec: &Stmt, label: &str) {
    rep.eval();
    let d = Dialect::Sqlite;
    let reference = {
        let mut r = Ref::new(d, false);
        refsql::stmt(&mut r, spec)
    };
    let ord = ordered(spec);
    let ref_out = fx.run(&reference, &[], ord);
    if let Outcome::Rejected(m) = &ref_out {
        // generator or reference bug: never a verdict about sea-query
        rep.inconclusive("reference statement rejected by the engine");
        rep.note("reference_rejections", format!("{} :: {}", m.chars().take(60).collect::<String>(), reference.chars().take(400).collect::<String>()));
        if ctx.verbose {
            println!("reference rejected: {m}\n{reference}");
        }
        return;
    }
    apply::set_route_seed(ctx.seed ^ n.wrapping_mul(0x9E3779B97F4A7C15));
    let built = match guard(|| {
        let b = apply::stmt(spec);
        let inline = b.inline(qb(d));
        let (p, v) = b.build(qb(d));
        (inline, p, v)
    }) {
        Ok(x) => x,
        Err(p) => {
            rep.violation(
                "R.panic",
                d.name(),
                format!("{} {}", spec.kind(), panic_sig(&p)),
                json!({"reference": reference, "panic": p, "spec": format!("{spec:?}")}),
                ctx.shard,
                n,
            );
            return;
        }
    };
    let (inline, param, vals) = built;
    let kinds = clause_kinds(spec);
    let sig_of = |what: &str| {
        if label.starts_with("pinned:") {
            format!("{label} -> {what}")
        } else {
            format!("{} {what} [{}]", spec.kind(), kinds.join(","))
        }
    };
    let inline_out = fx.run(&inline, &[], ord);
    let param_out = match binds_of(&vals) {
        Some(b) => fx.run(&param, &b, ord),
        None => {
            rep.inconclusive("value not bindable in SQLite");
            return;
        }
    };
    rep.count("engine_executions", 3);
    if matches!(&ref_out, Outcome::Failed(m) if m.starts_with("step budget exceeded")) {
        rep.inconclusive("the reference statement exceeded the engine step budget");
        return;
    }
    for (form, out, sql) in [("inline", &inline_out, &inline), ("parameterised", &param_out, &param)] {
        if *out != ref_out {
            let what = match (out, &ref_out) {
                (Outcome::Rejected(_), _) => "engine rejects the rendering",
                (Outcome::Failed(_), Outcome::Ok { .. }) => "runtime error only in the rendering",
                (Outcome::Ok { .. }, Outcome::Failed(_)) => "runtime error only in the reference",
                (Outcome::Failed(_), Outcome::Failed(_)) => "different runtime errors",
                (Outcome::Ok { rows: a, .. }, Outcome::Ok { rows: b, .. }) if a != b => "different rows",
                _ => "different table contents",
            };
            rep.violation(
                "R.same",
                d.name(),
                sig_of(what),
                json!({"form": form, "sql": sql, "values": format!("{:?}", vals.0), "reference": reference,
                       "rendering_outcome": show_outcome(out), "reference_outcome": show_outcome(&ref_out), "label": label}),
                ctx.shard,
                n,
            );
            return;
        }
    }
    for k in &kinds {
        rep.count(&format!("clause.{k}"), 1);
    }
    let dml_effect = changes_rows(fx, &ref_out);
    if dml_effect {
        rep.count("dml_statements_changing_rows", 1);
    }
    if let Outcome::Ok { rows, .. } = &ref_out {
        rep.count("result_rows_compared", rows.len() as u64);
        if !rows.is_empty() {
            rep.count("statements_with_nonempty_result", 1);
        }
    }
    if let Outcome::Failed(_) = &ref_out {
        rep.count("same_runtime_error_in_all_three", 1);
    }
    if kinds.len() >= 3 || dml_effect {
        rep.nontrivial(hash_str(&reference));
    }
    // sensitivity audit: would the monitor see a dropped clause?
    if n % 8 == 0 {
        for (clause, ab) in ablations(spec) {
            let mut r = Ref::new(d, false);
            let sql = refsql::stmt(&mut r, &ab);
            let out = fx.run(&sql, &[], ord);
            rep.count(&format!("audit.{clause}.tried"), 1);
            if out != ref_out {
                rep.count(&format!("audit.{clause}.visible"), 1);
            }
        }
    }
    if n % 1009 == 5 {
        rep.sample(json!({"sql": inline, "parameterised": param, "values": format!("{:?}", vals.0),
                          "reference": reference, "outcome": show_outcome(&ref_out)}));
    }
}

/// Pinned probes of listed findings (quarantined from the random workload).
fn pinned(ctx: &Ctx, rep: &mut Report, fx: &Fixture) {
    use crate::xspec::X;
    let base = 1u64 << 50;
    let probes: Vec<(&str, Stmt)> = vec![
        (
            "pinned: UPDATE .. ORDER BY .. LIMIT .. RETURNING",
            Stmt::Upd(Upd {
                with: None,
                alias: None,
                table: "t1".into(),
                sets: vec![("a".into(), X::Int(5))],
                from: vec![],
                wheres: vec![],
                orders: vec![Ord_ { expr: X::Col("id"), dir: Dir::Asc, nulls_first: None }],
                limit: Some(2),
                returning: Some(Returning::Cols(vec!["id".into()])),
            }),
        ),
        (
            "pinned: DELETE .. ORDER BY .. LIMIT .. RETURNING",
            Stmt::Del(Del {
                with: None,
                alias: None,
                table: "t1".into(),
                wheres: vec![],
                orders: vec![Ord_ { expr: X::Col("id"), dir: Dir::Asc, nulls_first: None }],
                limit: Some(2),
                returning: Some(Returning::Cols(vec!["id".into()])),
            }),
        ),
    ];
    for (i, (label, spec)) in probes.iter().enumerate() {
        let n = base + i as u64;
        if ctx.replay.is_none() && ctx.shard != 0 {
            continue;
        }
        if !ctx.wants(n) {
            continue;
        }
        check_spec(ctx, rep, fx, n, spec, label);
    }
}

pub fn check(ctx: &Ctx, rep: &mut Report) {
    let fx = Fixture::new();
    pinned(ctx, rep, &fx);
    let total = ctx.size(8_000, 800_000) / ctx.nshards;
    for k in 0..total {
        if !ctx.wants(k) {
            continue;
        }
        let mut rng = ctx.rng("stmt", k);
        let spec = {
            let mut g = Gen::new(&mut rng, Cfg::sqlite_exec());
            g.statement()
        };
        if ctx.verbose {
            println!("spec: {spec:#?}");
        }
        check_spec(ctx, rep, &fx, k, &spec, "random");
    }
}
