//! C18 — `Value` equality and hashing are coherent (`hashable-value`).
//!
//! A pool of values (every variant, NULLs, float edge cases, arrays of every
//! ArrayType, JSON built in different orders, ...) is compared pairwise with
//! `Value::eq` and hashed with three hashers; an independent three-valued
//! payload oracle (`Same` / `Diff` / `Amb`) says what equality is required.
#![cfg(feature = "hash")]

use crate::c12::{all_array_types, array_name, array_of, enc_json, enc_v, is_null, show_value, variant_name, ALL_VARIANTS};
use sea_query::{ArrayType, Value, ValueTuple};
use serde_json::{json, Value as J};
use std::collections::hash_map::DefaultHasher;
use std::collections::{HashMap, HashSet};
use std::hash::{BuildHasherDefault, Hash, Hasher};
use std::mem::discriminant;
use vcore::prng::mix;
use vcore::report::Report;
use vcore::run::{guard, panic_sig, Ctx};

use chrono::{Offset, TimeZone};

// ---------------------------------------------------------------------------
// Hashers
// ---------------------------------------------------------------------------

#[derive(Clone)]
struct Fnv(u64);
impl Default for Fnv {
    fn default() -> Self {
        Fnv(0xcbf29ce484222325)
    }
}
impl Hasher for Fnv {
    fn write(&mut self, bytes: &[u8]) {
        for b in bytes {
            self.0 ^= *b as u64;
            self.0 = self.0.wrapping_mul(0x100000001b3);
        }
    }
    fn finish(&self) -> u64 {
        self.0
    }
}

/// deliberately weak: sum of all bytes mod 256
#[derive(Clone, Default)]
struct Weak(u8);
impl Hasher for Weak {
    fn write(&mut self, bytes: &[u8]) {
        for b in bytes {
            self.0 = self.0.wrapping_add(*b);
        }
    }
    fn finish(&self) -> u64 {
        self.0 as u64
    }
}

const HASHERS: [&str; 3] = ["DefaultHasher", "Fnv1a", "WeakSum8"];

fn hashes<T: Hash>(v: &T) -> [u64; 3] {
    let mut a = DefaultHasher::new();
    v.hash(&mut a);
    let mut b = Fnv::default();
    v.hash(&mut b);
    let mut c = Weak::default();
    v.hash(&mut c);
    [a.finish(), b.finish(), c.finish()]
}

// ---------------------------------------------------------------------------
// Coarse payload classes for signatures
// ---------------------------------------------------------------------------

fn fcls(bits_nan: bool, inf: bool, zero: bool, sub: bool, neg: bool) -> &'static str {
    match (bits_nan, inf, zero, sub, neg) {
        (true, _, _, _, false) => "+NaN",
        (true, _, _, _, true) => "-NaN",
        (_, true, _, _, false) => "+inf",
        (_, true, _, _, true) => "-inf",
        (_, _, true, _, false) => "+0",
        (_, _, true, _, true) => "-0",
        (_, _, _, true, _) => "subnormal",
        _ => "normal",
    }
}

fn f32cls(f: f32) -> &'static str {
    fcls(f.is_nan(), f.is_infinite(), f == 0.0, f.is_subnormal(), f.is_sign_negative())
}

fn f64cls(f: f64) -> &'static str {
    fcls(f.is_nan(), f.is_infinite(), f == 0.0, f.is_subnormal(), f.is_sign_negative())
}

fn jcls(j: &J) -> &'static str {
    match j {
        J::Null => "null",
        J::Bool(_) => "bool",
        J::Number(n) if n.is_f64() => "float",
        J::Number(_) => "int",
        J::String(_) => "string",
        J::Array(_) => "array",
        J::Object(_) => "object",
    }
}

/// e.g. `Float(+NaN)`, `Int(NULL)`, `Array<Double>(n=2)`
fn cls(v: &Value) -> String {
    let name = variant_name(v);
    if let Value::Array(t, x) = v {
        let inner = match x {
            None => "NULL".to_string(),
            Some(xs) if xs.is_empty() => "empty".to_string(),
            Some(xs) => {
                let e = &xs[0];
                let ec = cls(e);
                format!("n={} of {}", xs.len(), ec)
            }
        };
        return format!("Array<{}>({inner})", array_name(t));
    }
    if is_null(v) {
        return format!("{name}(NULL)");
    }
    let inner: String = match v {
        Value::Float(Some(f)) => f32cls(*f).into(),
        Value::Double(Some(f)) => f64cls(*f).into(),
        Value::Json(Some(j)) => jcls(j).into(),
        Value::Vector(Some(x)) => {
            let s = x.as_slice();
            if s.is_empty() {
                "empty".into()
            } else {
                format!("n={} first {}", s.len(), f32cls(s[0]))
            }
        }
        Value::String(Some(s)) if s.is_empty() => "empty".into(),
        Value::Bytes(Some(s)) if s.is_empty() => "empty".into(),
        Value::Decimal(Some(d)) => {
            if d.is_zero() {
                format!("zero scale {}{}", d.scale(), if d.is_sign_negative() { " neg" } else { "" })
            } else {
                format!("scale {}", d.scale())
            }
        }
        Value::BigDecimal(Some(d)) => format!("scale {}", d.as_bigint_and_exponent().1),
        Value::ChronoDateTimeWithTimeZone(Some(d)) => format!("offset {}", d.offset().local_minus_utc()),
        Value::ChronoDateTimeLocal(Some(d)) => format!("offset {}", d.offset().fix().local_minus_utc()),
        Value::TimeDateTimeWithTimeZone(Some(d)) => format!("offset {}", d.offset().whole_seconds()),
        _ => "value".into(),
    };
    format!("{name}({inner})")
}

// ---------------------------------------------------------------------------
// Independent payload oracle (never calls Value::eq)
// ---------------------------------------------------------------------------

#[derive(Clone, Copy, PartialEq, Eq, Debug)]
enum Rel {
    /// bitwise-equal payloads: MUST compare equal
    Same,
    /// numerically / semantically equal but different representation: MAY be either
    Amb,
    /// definitely different payloads: MUST NOT compare equal
    Diff,
}

fn both(a: Rel, b: Rel) -> Rel {
    match (a, b) {
        (Rel::Diff, _) | (_, Rel::Diff) => Rel::Diff,
        (Rel::Amb, _) | (_, Rel::Amb) => Rel::Amb,
        _ => Rel::Same,
    }
}

fn bits<T: PartialEq>(a: T, b: T) -> Rel {
    if a == b {
        Rel::Same
    } else {
        Rel::Diff
    }
}

fn frel64(a: f64, b: f64) -> Rel {
    if a.to_bits() == b.to_bits() {
        Rel::Same
    } else if (a.is_nan() && b.is_nan()) || a == b {
        Rel::Amb
    } else {
        Rel::Diff
    }
}

fn frel32(a: f32, b: f32) -> Rel {
    if a.to_bits() == b.to_bits() {
        Rel::Same
    } else if (a.is_nan() && b.is_nan()) || a == b {
        Rel::Amb
    } else {
        Rel::Diff
    }
}

fn jnum_rel(a: &serde_json::Number, b: &serde_json::Number) -> Rel {
    let kind = |n: &serde_json::Number| if n.is_u64() { 0 } else if n.is_i64() { 1 } else { 2 };
    if kind(a) == kind(b) {
        return match kind(a) {
            0 => bits(a.as_u64(), b.as_u64()),
            1 => bits(a.as_i64(), b.as_i64()),
            _ => frel64(a.as_f64().unwrap_or(f64::NAN), b.as_f64().unwrap_or(f64::NAN)),
        };
    }
    // different representation (1 vs 1.0, or i64 vs u64 which cannot be equal)
    if kind(a) != 2 && kind(b) != 2 {
        return Rel::Diff; // is_u64 covers every non-negative integer, is_i64-only means negative
    }
    match (a.as_f64(), b.as_f64()) {
        (Some(x), Some(y)) if x == y => Rel::Amb,
        _ => Rel::Diff,
    }
}

fn jrel(a: &J, b: &J) -> Rel {
    match (a, b) {
        (J::Null, J::Null) => Rel::Same,
        (J::Bool(x), J::Bool(y)) => bits(x, y),
        (J::Number(x), J::Number(y)) => jnum_rel(x, y),
        (J::String(x), J::String(y)) => bits(x.as_bytes(), y.as_bytes()),
        (J::Array(x), J::Array(y)) => {
            if x.len() != y.len() {
                return Rel::Diff;
            }
            x.iter().zip(y).fold(Rel::Same, |r, (p, q)| both(r, jrel(p, q)))
        }
        (J::Object(x), J::Object(y)) => {
            if x.len() != y.len() {
                return Rel::Diff;
            }
            let mut r = Rel::Same;
            for (k, p) in x {
                match y.get(k) {
                    Some(q) => r = both(r, jrel(p, q)),
                    None => return Rel::Diff,
                }
            }
            r
        }
        _ => Rel::Diff,
    }
}

fn opt<T>(a: &Option<T>, b: &Option<T>, f: impl FnOnce(&T, &T) -> Rel) -> Rel {
    match (a, b) {
        (None, None) => Rel::Same,
        (Some(x), Some(y)) => f(x, y),
        _ => Rel::Diff,
    }
}

fn instant_rel(same_instant: bool, same_offset: bool) -> Rel {
    match (same_instant, same_offset) {
        (true, true) => Rel::Same,
        (true, false) => Rel::Amb,
        _ => Rel::Diff,
    }
}

fn oracle(a: &Value, b: &Value) -> Rel {
    use Value as V;
    match (a, b) {
        (V::Bool(x), V::Bool(y)) => opt(x, y, |p, q| bits(p, q)),
        (V::TinyInt(x), V::TinyInt(y)) => opt(x, y, |p, q| bits(p, q)),
        (V::SmallInt(x), V::SmallInt(y)) => opt(x, y, |p, q| bits(p, q)),
        (V::Int(x), V::Int(y)) => opt(x, y, |p, q| bits(p, q)),
        (V::BigInt(x), V::BigInt(y)) => opt(x, y, |p, q| bits(p, q)),
        (V::TinyUnsigned(x), V::TinyUnsigned(y)) => opt(x, y, |p, q| bits(p, q)),
        (V::SmallUnsigned(x), V::SmallUnsigned(y)) => opt(x, y, |p, q| bits(p, q)),
        (V::Unsigned(x), V::Unsigned(y)) => opt(x, y, |p, q| bits(p, q)),
        (V::BigUnsigned(x), V::BigUnsigned(y)) => opt(x, y, |p, q| bits(p, q)),
        (V::Float(x), V::Float(y)) => opt(x, y, |p, q| frel32(*p, *q)),
        (V::Double(x), V::Double(y)) => opt(x, y, |p, q| frel64(*p, *q)),
        (V::String(x), V::String(y)) => opt(x, y, |p, q| bits(p.as_bytes(), q.as_bytes())),
        (V::Char(x), V::Char(y)) => opt(x, y, |p, q| bits(*p as u32, *q as u32)),
        (V::Bytes(x), V::Bytes(y)) => opt(x, y, |p, q| bits(p.as_slice(), q.as_slice())),
        (V::Json(x), V::Json(y)) => opt(x, y, |p, q| {
            // cross-check the structural walk against the canonical encoding
            let r = jrel(p, q);
            let (mut e1, mut e2) = (vec![], vec![]);
            enc_json(p, &mut e1);
            enc_json(q, &mut e2);
            if (e1 == e2) != (r == Rel::Same) {
                Rel::Amb
            } else {
                r
            }
        }),
        (V::ChronoDate(x), V::ChronoDate(y)) => opt(x, y, |p, q| bits(p, q)),
        (V::ChronoTime(x), V::ChronoTime(y)) => opt(x, y, |p, q| bits(p, q)),
        (V::ChronoDateTime(x), V::ChronoDateTime(y)) => opt(x, y, |p, q| bits(p, q)),
        (V::ChronoDateTimeUtc(x), V::ChronoDateTimeUtc(y)) => opt(x, y, |p, q| bits(p.naive_utc(), q.naive_utc())),
        (V::ChronoDateTimeLocal(x), V::ChronoDateTimeLocal(y)) => opt(x, y, |p, q| {
            instant_rel(p.naive_utc() == q.naive_utc(), p.offset().fix() == q.offset().fix())
        }),
        (V::ChronoDateTimeWithTimeZone(x), V::ChronoDateTimeWithTimeZone(y)) => {
            opt(x, y, |p, q| instant_rel(p.naive_utc() == q.naive_utc(), p.offset() == q.offset()))
        }
        (V::TimeDate(x), V::TimeDate(y)) => opt(x, y, |p, q| bits(p.to_julian_day(), q.to_julian_day())),
        (V::TimeTime(x), V::TimeTime(y)) => opt(x, y, |p, q| bits(p.as_hms_nano(), q.as_hms_nano())),
        (V::TimeDateTime(x), V::TimeDateTime(y)) => opt(x, y, |p, q| {
            bits((p.date().to_julian_day(), p.time().as_hms_nano()), (q.date().to_julian_day(), q.time().as_hms_nano()))
        }),
        (V::TimeDateTimeWithTimeZone(x), V::TimeDateTimeWithTimeZone(y)) => opt(x, y, |p, q| {
            instant_rel(
                p.unix_timestamp_nanos() == q.unix_timestamp_nanos(),
                p.offset().whole_seconds() == q.offset().whole_seconds(),
            )
        }),
        (V::Uuid(x), V::Uuid(y)) => opt(x, y, |p, q| bits(p.as_u128(), q.as_u128())),
        (V::Decimal(x), V::Decimal(y)) => opt(x, y, |p, q| {
            if p.serialize() == q.serialize() {
                Rel::Same
            } else if p.cmp(q) == std::cmp::Ordering::Equal {
                Rel::Amb
            } else {
                Rel::Diff
            }
        }),
        (V::BigDecimal(x), V::BigDecimal(y)) => opt(x, y, |p, q| {
            if p.as_bigint_and_exponent() == q.as_bigint_and_exponent() {
                Rel::Same
            } else if p.as_ref() == q.as_ref() {
                Rel::Amb
            } else {
                Rel::Diff
            }
        }),
        (V::Array(t1, x), V::Array(t2, y)) => {
            if array_name(t1) != array_name(t2) {
                return Rel::Diff;
            }
            opt(x, y, |p, q| {
                if p.len() != q.len() {
                    return Rel::Diff;
                }
                p.iter().zip(q.iter()).fold(Rel::Same, |r, (e, f)| both(r, oracle(e, f)))
            })
        }
        (V::Vector(x), V::Vector(y)) => opt(x, y, |p, q| {
            let (p, q) = (p.as_slice(), q.as_slice());
            if p.len() != q.len() {
                return Rel::Diff;
            }
            p.iter().zip(q).fold(Rel::Same, |r, (e, f)| both(r, frel32(*e, *f)))
        }),
        (V::IpNetwork(x), V::IpNetwork(y)) => opt(x, y, |p, q| bits((p.ip(), p.prefix()), (q.ip(), q.prefix()))),
        (V::MacAddress(x), V::MacAddress(y)) => opt(x, y, |p, q| bits(p.bytes(), q.bytes())),
        // different variants
        _ => {
            assert!(variant_name(a) != variant_name(b), "oracle: no arm for variant {}", variant_name(a));
            Rel::Diff
        }
    }
}

// ---------------------------------------------------------------------------
// The pool
// ---------------------------------------------------------------------------

fn f32_pool() -> Vec<f32> {
    let q = f32::NAN.to_bits();
    vec![
        0.0,
        -0.0,
        1.0,
        -1.0,
        f32::INFINITY,
        f32::NEG_INFINITY,
        f32::NAN,
        f32::from_bits(q | 0x8000_0000),
        f32::from_bits(q | 1),
        f32::from_bits(0x7f80_0001),
        f32::from_bits(0xff80_0055),
        f32::from_bits(1),
        f32::from_bits(0x8000_0001),
        f32::MIN_POSITIVE,
        f32::MAX,
        0.1,
    ]
}

fn f64_pool() -> Vec<f64> {
    let q = f64::NAN.to_bits();
    vec![
        0.0,
        -0.0,
        1.0,
        -1.0,
        f64::INFINITY,
        f64::NEG_INFINITY,
        f64::NAN,
        f64::from_bits(q | (1 << 63)),
        f64::from_bits(q | 1),
        f64::from_bits(0x7ff0_0000_0000_0001),
        f64::from_bits(0xfff0_0000_0000_0055),
        f64::from_bits(1),
        f64::from_bits((1 << 63) | 1),
        f64::MIN_POSITIVE,
        f64::MAX,
        0.1,
    ]
}

/// JSON object with the given keys inserted in the given order
fn obj(pairs: &[(&str, J)]) -> J {
    let mut m = serde_json::Map::new();
    for (k, v) in pairs {
        m.insert((*k).to_string(), v.clone());
    }
    J::Object(m)
}

fn json_pool() -> Vec<J> {
    let nested_ab = obj(&[("a", obj(&[("x", json!([1, {"y": null}])), ("w", json!(2))])), ("b", json!("t"))]);
    let nested_ba = obj(&[("b", json!("t")), ("a", obj(&[("w", json!(2)), ("x", json!([1, {"y": null}]))]))]);
    vec![
        J::Null,
        json!(true),
        json!(false),
        json!(1),
        json!(1.0),
        json!(-1),
        json!(0),
        json!(0.0),
        json!(-0.0),
        json!("1"),
        json!(""),
        json!("null"),
        json!([]),
        json!({}),
        json!([1]),
        json!([1.0]),
        json!([1, 2]),
        json!([2, 1]),
        obj(&[("a", json!(1)), ("b", json!(2))]),
        obj(&[("b", json!(2)), ("a", json!(1))]),
        obj(&[("a", json!(1.0)), ("b", json!(2))]),
        obj(&[("a", json!(2)), ("b", json!(1))]),
        nested_ab,
        nested_ba,
        json!(u64::MAX),
        json!(i64::MIN),
        json!(1e308),
        json!(1e-7),
        json!(0.0000001),
        json!([null]),
        json!({"": null}),
    ]
}

fn build_pool() -> Vec<Value> {
    use Value as V;
    let mut p: Vec<Value> = vec![];
    // booleans and integers ("all optional types": NULLs come from None::<T>)
    p.extend([V::from(None::<bool>), true.into(), false.into(), Some(true).into()]);
    macro_rules! ints {
        ($t:ty) => {
            p.push(V::from(None::<$t>));
            for x in [0 as $t, 1, <$t>::MAX, <$t>::MIN, <$t>::MAX - 1, 2] {
                p.push(x.into());
            }
        };
    }
    ints!(i8);
    ints!(i16);
    ints!(i32);
    ints!(i64);
    ints!(u8);
    ints!(u16);
    ints!(u32);
    ints!(u64);
    p.push(V::from(None::<f32>));
    p.extend(f32_pool().into_iter().map(V::from));
    p.push(V::from(None::<f64>));
    p.extend(f64_pool().into_iter().map(V::from));
    // strings, chars, bytes
    p.push(V::from(None::<String>));
    for s in ["", "a", "A", "a\0", "é", "e\u{301}", "1", "null", "a "] {
        p.push(s.into());
    }
    p.push("x".repeat(5000).into());
    p.push(V::from(None::<char>));
    for c in ['a', 'A', '\0', 'é', '1', '\u{10FFFF}'] {
        p.push(c.into());
    }
    p.push(V::from(None::<Vec<u8>>));
    for b in [&b""[..], b"\0", b"a", b"\0\0", b"\xff", b"1"] {
        p.push(b.into());
    }
    // json
    p.push(V::from(None::<J>));
    p.extend(json_pool().into_iter().map(V::from));
    // chrono
    let d = |y, m, dd| chrono::NaiveDate::from_ymd_opt(y, m, dd).unwrap();
    let t = |s, n| chrono::NaiveTime::from_num_seconds_from_midnight_opt(s, n).unwrap();
    p.push(V::from(None::<chrono::NaiveDate>));
    for x in [chrono::NaiveDate::default(), d(2020, 1, 1), d(2020, 1, 2), chrono::NaiveDate::MIN, chrono::NaiveDate::MAX] {
        p.push(x.into());
    }
    p.push(V::from(None::<chrono::NaiveTime>));
    for x in [t(0, 0), t(43_200, 0), t(86_399, 999_999_999), t(86_399, 1_000_000_000), t(86_399, 0), t(0, 1)] {
        p.push(x.into());
    }
    p.push(V::from(None::<chrono::NaiveDateTime>));
    for x in [chrono::NaiveDateTime::default(), d(2020, 1, 1).and_time(t(0, 0)), d(2020, 1, 1).and_time(t(0, 1)), d(2020, 1, 2).and_time(t(0, 0))] {
        p.push(x.into());
    }
    let epoch = chrono::NaiveDateTime::default();
    let y2020 = d(2020, 1, 1).and_time(t(7322, 0));
    p.push(V::from(None::<chrono::DateTime<chrono::Utc>>));
    for x in [epoch, y2020, d(2020, 1, 1).and_time(t(7322, 1))] {
        p.push(chrono::Utc.from_utc_datetime(&x).into());
    }
    p.push(V::from(None::<chrono::DateTime<chrono::Local>>));
    for x in [epoch, y2020] {
        p.push(chrono::Local.from_utc_datetime(&x).into());
    }
    p.push(V::from(None::<chrono::DateTime<chrono::FixedOffset>>));
    let east = |s| chrono::FixedOffset::east_opt(s).unwrap();
    p.push(east(0).from_utc_datetime(&epoch).into());
    p.push(east(8 * 3600).from_utc_datetime(&epoch).into()); // same instant, other offset
    p.push(east(8 * 3600).from_local_datetime(&epoch).unwrap().into()); // same wall clock, other instant
    p.push(east(8 * 3600).from_utc_datetime(&y2020).into());
    p.push(east(-5 * 3600).from_utc_datetime(&y2020).into());
    p.push(east(1).from_utc_datetime(&y2020).into());
    let y2020n = d(2020, 1, 1).and_time(t(7322, 1));
    p.push(east(0).from_utc_datetime(&y2020n).into()); // same second, other sub-second part
    p.push(east(8 * 3600).from_utc_datetime(&y2020n).into());
    p.push(chrono::Local.from_utc_datetime(&y2020n).into());
    // time
    let td = |y, o| time::Date::from_ordinal_date(y, o).unwrap();
    let tt = |h, m, s, n| time::Time::from_hms_nano(h, m, s, n).unwrap();
    p.push(V::from(None::<time::Date>));
    for x in [time::Date::MIN, time::Date::MAX, td(2020, 1), td(1970, 1), td(2020, 2)] {
        p.push(x.into());
    }
    p.push(V::from(None::<time::Time>));
    for x in [time::Time::MIDNIGHT, tt(12, 0, 0, 0), tt(23, 59, 59, 999_999_999), tt(0, 0, 0, 1)] {
        p.push(x.into());
    }
    p.push(V::from(None::<time::PrimitiveDateTime>));
    for x in [
        time::PrimitiveDateTime::MIN,
        time::PrimitiveDateTime::new(td(2020, 1), tt(2, 2, 2, 0)),
        time::PrimitiveDateTime::new(td(2020, 1), tt(2, 2, 2, 1)),
        time::PrimitiveDateTime::MAX,
    ] {
        p.push(x.into());
    }
    p.push(V::from(None::<time::OffsetDateTime>));
    let off = |s| time::UtcOffset::from_whole_seconds(s).unwrap();
    let base = time::PrimitiveDateTime::new(td(2020, 1), tt(2, 2, 2, 0));
    p.push(time::OffsetDateTime::UNIX_EPOCH.into());
    p.push(time::OffsetDateTime::UNIX_EPOCH.to_offset(off(8 * 3600)).into()); // same instant
    p.push(time::PrimitiveDateTime::new(td(1970, 1), time::Time::MIDNIGHT).assume_offset(off(8 * 3600)).into());
    p.push(base.assume_utc().into());
    p.push(base.assume_utc().to_offset(off(-5 * 3600)).into());
    p.push(base.assume_offset(off(1)).into());
    // the same second, other sub-second parts (and the same instant again through another offset)
    let base1 = time::PrimitiveDateTime::new(td(2020, 1), tt(2, 2, 2, 1));
    let base9 = time::PrimitiveDateTime::new(td(2020, 1), tt(2, 2, 2, 999_999_999));
    p.push(base1.assume_utc().into());
    p.push(base9.assume_utc().into());
    p.push(base1.assume_utc().to_offset(off(8 * 3600)).into());
    // uuid / decimals
    p.push(V::from(None::<uuid::Uuid>));
    for x in [0u128, u128::MAX, 0x936DA01F_9ABD_4D9D_80C7_02AF85C822A8, 1, 1 << 127] {
        p.push(uuid::Uuid::from_u128(x).into());
    }
    p.push(uuid::Uuid::from_u128(1).braced().into()); // same payload through another Rust type
    p.push(V::from(None::<rust_decimal::Decimal>));
    {
        use rust_decimal::Decimal as D;
        for x in [
            D::ZERO,
            D::from_parts(0, 0, 0, true, 0),
            D::from_parts(0, 0, 0, false, 2),
            D::from_parts(0, 0, 0, true, 28),
            D::ONE,
            D::from_parts(10, 0, 0, false, 1),
            D::from_parts(100, 0, 0, false, 2),
            D::from_parts(1, 0, 0, true, 0),
            D::from_parts(1, 0, 0, false, 1),
            D::from_parts(10, 0, 0, false, 2),
            D::from_parts(1, 0, 0, false, 28),
            D::MAX,
            D::MIN,
            D::from_parts(0, 0, 1, false, 0),
            D::from_parts(0, 0, 10, false, 1),
        ] {
            p.push(x.into());
        }
    }
    p.push(V::from(None::<bigdecimal::BigDecimal>));
    {
        use bigdecimal::num_bigint::BigInt;
        let b = |i: i64, s: i64| bigdecimal::BigDecimal::new(BigInt::from(i), s);
        for x in [
            b(0, 0),
            b(0, 5),
            b(0, -3),
            b(1, 0),
            b(10, 1),
            b(100, 2),
            b(1, -2),
            b(100, 0),
            b(10, -1),
            b(-1, 0),
            b(-10, 1),
            b(1, 1),
            b(10, 2),
            b(15, 1),
            b(15, 0),
            b(i64::MAX, 40),
        ] {
            p.push(x.into());
        }
        p.push(bigdecimal::BigDecimal::new(BigInt::from(i64::MAX) * BigInt::from(i64::MAX) * BigInt::from(1000), 3).into());
        p.push(bigdecimal::BigDecimal::new(BigInt::from(i64::MAX) * BigInt::from(i64::MAX), 0).into());
    }
    // vector
    p.push(V::from(None::<pgvector::Vector>));
    let vecs: Vec<Vec<f32>> = vec![
        vec![],
        vec![0.0],
        vec![-0.0],
        vec![f32::NAN],
        vec![f32::from_bits(0xffc0_0000)],
        vec![f32::from_bits(0x7f80_0001)],
        vec![1.0],
        vec![1.0, 2.0],
        vec![2.0, 1.0],
        vec![1.0, 2.0, 3.0],
        vec![f32::INFINITY],
        vec![f32::NEG_INFINITY],
        vec![f32::from_bits(1)],
        vec![0.0, 0.0],
        vec![0.0, -0.0],
        vec![f32::NAN, 1.0],
        vec![1.0, f32::NAN],
    ];
    p.extend(vecs.into_iter().map(|v| V::from(pgvector::Vector::from(v))));
    // net
    p.push(V::from(None::<ipnetwork::IpNetwork>));
    for s in ["0.0.0.0/32", "0.0.0.0/0", "10.1.2.3/8", "10.0.0.0/8", "10.1.2.3/32", "::/128", "::/0", "::ffff:10.1.2.3/128", "::a01:203/128"] {
        p.push(s.parse::<ipnetwork::IpNetwork>().unwrap().into());
    }
    p.push(V::from(None::<mac_address::MacAddress>));
    for b in [[0u8; 6], [0xff; 6], [1, 2, 3, 4, 5, 6], [6, 5, 4, 3, 2, 1]] {
        p.push(mac_address::MacAddress::new(b).into());
    }

    // arrays: every ArrayType with NULL, empty, [e], [e, NULL], [NULL], [e2, e]
    let scalars = p.clone();
    for ty in all_array_types() {
        let elems: Vec<Value> = scalars.iter().filter(|v| variant_name(v) == array_name(&ty) && !is_null(v)).cloned().collect();
        p.push(V::Array(ty.clone(), None));
        p.push(V::Array(ty.clone(), Some(Box::new(vec![]))));
        if let Some(e) = elems.first() {
            p.push(V::Array(ty.clone(), Some(Box::new(vec![e.clone()]))));
            p.push(V::Array(ty.clone(), Some(Box::new(vec![e.clone(), e.as_null()]))));
            p.push(V::Array(ty.clone(), Some(Box::new(vec![e.as_null()]))));
            if let Some(e2) = elems.get(1) {
                p.push(V::Array(ty.clone(), Some(Box::new(vec![e2.clone(), e.clone()]))));
                p.push(V::Array(ty.clone(), Some(Box::new(vec![e.clone(), e2.clone()]))));
            }
        }
    }
    // floats inside arrays (typed construction through Vec<T>)
    for x in [vec![f32::NAN], vec![f32::from_bits(0xffc0_0001)], vec![0.0], vec![-0.0], vec![1.0, f32::NAN], vec![f32::from_bits(1)]] {
        p.push(x.into());
    }
    for x in [vec![f64::NAN], vec![f64::from_bits(0xfff8_0000_0000_0001)], vec![0.0], vec![-0.0], vec![1.0, f64::NAN], vec![f64::from_bits(1)]] {
        p.push(x.into());
    }
    // same elements under different ArrayType, nested arrays, JSON order inside arrays
    let one = V::Int(Some(1));
    for ty in [ArrayType::Int, ArrayType::BigInt, ArrayType::Unsigned, ArrayType::String] {
        p.push(V::Array(ty, Some(Box::new(vec![one.clone()]))));
    }
    let inner = |ty: ArrayType| V::Array(ty, Some(Box::new(vec![one.clone()])));
    p.push(V::Array(ArrayType::Int, Some(Box::new(vec![inner(ArrayType::Int)]))));
    p.push(V::Array(ArrayType::Int, Some(Box::new(vec![inner(ArrayType::BigInt)]))));
    p.push(V::Array(ArrayType::Int, Some(Box::new(vec![V::Array(ArrayType::Int, None)]))));
    p.push(V::Array(ArrayType::Int, Some(Box::new(vec![V::Array(ArrayType::Int, Some(Box::new(vec![])))]))));
    let jp = json_pool();
    p.push(vec![jp[18].clone(), jp[22].clone()].into());
    p.push(vec![jp[19].clone(), jp[23].clone()].into());
    p.push(vec![jp[3].clone()].into());
    p.push(vec![jp[4].clone()].into());
    p
}

// ---------------------------------------------------------------------------
// Checks
// ---------------------------------------------------------------------------

struct Uf(Vec<usize>);
impl Uf {
    fn new(n: usize) -> Self {
        Uf((0..n).collect())
    }
    fn find(&mut self, x: usize) -> usize {
        let mut r = x;
        while self.0[r] != r {
            r = self.0[r];
        }
        let mut c = x;
        while self.0[c] != r {
            let n = self.0[c];
            self.0[c] = r;
            c = n;
        }
        r
    }
    fn union(&mut self, a: usize, b: usize) {
        let (a, b) = (self.find(a), self.find(b));
        if a != b {
            self.0[a.max(b)] = a.min(b);
        }
    }
    fn classes(&mut self) -> usize {
        (0..self.0.len()).filter(|i| self.find(*i) == *i).count()
    }
}

const TRIPLE_BASE: u64 = 1 << 40;
const SAMPLE_BASE: u64 = 2 << 40;
const GROUP_BASE: u64 = 3 << 40;
const SET_BASE: u64 = 4 << 40;

fn pair_sig(law: &str, a: &Value, b: &Value) -> String {
    format!("{law} {} / {}", cls(a), cls(b))
}

fn pair_detail(a: &Value, b: &Value, extra: J) -> J {
    json!({"a": show_value(a), "b": show_value(b), "a_bits": hex(&enc_v(a)), "b_bits": hex(&enc_v(b)), "observed": extra})
}

fn hex(b: &[u8]) -> String {
    let mut s = String::new();
    for x in b.iter().take(96) {
        s.push_str(&format!("{x:02x}"));
    }
    if b.len() > 96 {
        s.push('…');
    }
    s
}

fn tuple_pool(pool: &[Value]) -> Vec<ValueTuple> {
    let n = pool.len();
    let mut t = vec![];
    for (i, v) in pool.iter().enumerate() {
        t.push(ValueTuple::One(v.clone()));
        if i % 3 == 0 {
            t.push(ValueTuple::Many(vec![v.clone()]));
        }
        if i % 2 == 0 {
            t.push(ValueTuple::Two(v.clone(), pool[(i + 1) % n].clone()));
            t.push(ValueTuple::Two(pool[(i + 1) % n].clone(), v.clone()));
        }
        if i % 4 == 0 {
            t.push(ValueTuple::Three(v.clone(), pool[(i + 1) % n].clone(), pool[(i + 2) % n].clone()));
            t.push(ValueTuple::Many(vec![v.clone(), pool[(i + 1) % n].clone(), pool[(i + 2) % n].clone()]));
        }
        if i % 5 == 0 {
            t.push(ValueTuple::Many((0..4).map(|k| pool[(i + k) % n].clone()).collect()));
        }
    }
    t.push(ValueTuple::Many(vec![]));
    // float / decimal representations inside tuples
    for (a, b) in [(0.0f64, -0.0f64), (f64::NAN, f64::from_bits(0xfff8_0000_0000_0001))] {
        t.push(ValueTuple::Two(a.into(), 1i32.into()));
        t.push(ValueTuple::Two(b.into(), 1i32.into()));
        t.push(ValueTuple::Many(vec![a.into(), b.into(), a.into(), b.into()]));
        t.push(ValueTuple::Many(vec![b.into(), a.into(), b.into(), a.into()]));
    }
    t
}

fn vt_cls(t: &ValueTuple) -> String {
    let items: Vec<&Value> = match t {
        ValueTuple::One(a) => vec![a],
        ValueTuple::Two(a, b) => vec![a, b],
        ValueTuple::Three(a, b, c) => vec![a, b, c],
        ValueTuple::Many(v) => v.iter().collect(),
    };
    let name = match t {
        ValueTuple::One(_) => "One",
        ValueTuple::Two(..) => "Two",
        ValueTuple::Three(..) => "Three",
        ValueTuple::Many(_) => "Many",
    };
    format!("{name}[{}]", items.iter().map(|v| cls(v)).collect::<Vec<_>>().join(", "))
}

pub fn check(ctx: &Ctx, rep: &mut Report) {
    // two independently built copies: pair (i, j) compares pool[i] with pool2[j], so even
    // the diagonal compares separately allocated values
    let (pool, pool2) = match guard(|| (build_pool(), build_pool())) {
        Ok(p) => p,
        Err(p) => {
            rep.violation("R.panic", "-", format!("pool: {}", panic_sig(&p)), json!({"panic": p}), ctx.shard, 0);
            return;
        }
    };
    let n = pool.len();
    if ctx.shard == 0 {
        rep.max("max_pool_size", n as u64);
        for v in &pool {
            rep.note("variants", variant_name(v));
            rep.note("pool_classes", cls(v));
            if let Some(a) = array_of(v) {
                rep.note("array_types", a);
            }
        }
        let seen: HashSet<&str> = pool.iter().map(variant_name).collect();
        let arr: HashSet<&str> = pool.iter().filter_map(array_of).collect();
        if seen.len() != ALL_VARIANTS.len() || arr.len() != all_array_types().len() {
            rep.inconclusive("pool does not cover every variant / ArrayType");
        }
        // harness self-check: the two copies are bitwise identical and the oracle is reflexive / symmetric
        for i in 0..n {
            if enc_v(&pool[i]) != enc_v(&pool2[i]) || oracle(&pool[i], &pool2[i]) != Rel::Same {
                rep.inconclusive("pool construction is not deterministic or oracle not reflexive");
            }
        }
    }

    // hashes of every pool value (twice: hashing must be a function of the value)
    let mut hs: Vec<[u64; 3]> = Vec::with_capacity(n);
    for (i, v) in pool.iter().enumerate() {
        match guard(|| (hashes(v), hashes(&pool2[i]), hashes(&v.clone()))) {
            Ok((h1, h2, h3)) => {
                if ctx.mine(i as u64 * n as u64 + i as u64) {
                    for k in 0..3 {
                        if h1[k] != h2[k] || h1[k] != h3[k] {
                            rep.violation("R.hash", "-", format!("hash {} unstable for identical {}", HASHERS[k], cls(v)),
                                pair_detail(v, &pool2[i], json!([h1[k], h2[k], h3[k]])), ctx.shard, (i * n + i) as u64);
                        }
                    }
                }
                hs.push(h1);
            }
            Err(p) => {
                if ctx.mine(i as u64 * n as u64 + i as u64) {
                    rep.violation("R.panic", "-", format!("hash {}: {}", cls(v), panic_sig(&p)), json!({"value": show_value(v), "panic": p}), ctx.shard, (i * n + i) as u64);
                }
                hs.push([0, 0, 0]);
            }
        }
    }

    // full equality matrix (every shard needs it for the triples); violations are reported by the owner of the pair
    let mut eq = vec![false; n * n];
    for i in 0..n {
        for j in 0..n {
            let case = (i * n + j) as u64;
            let (a, b) = (&pool[i], &pool2[j]);
            let r = guard(|| (a == b, a == b, !(a != b)));
            let mine = ctx.mine(case);
            match r {
                Ok((e1, e2, e3)) => {
                    eq[i * n + j] = e1;
                    if mine && (e1 != e2 || e1 != e3) {
                        rep.violation("R.eq", "-", pair_sig("eq unstable or ne inconsistent", a, b), pair_detail(a, b, json!([e1, e2, e3])), ctx.shard, case);
                    }
                }
                Err(p) => {
                    if mine {
                        rep.violation("R.panic", "-", format!("eq {} / {}: {}", cls(a), cls(b), panic_sig(&p)), pair_detail(a, b, json!(p)), ctx.shard, case);
                    }
                }
            }
        }
    }

    // --- pair laws -------------------------------------------------------------
    let mut amb_equal = 0u64;
    let mut amb_unequal = 0u64;
    for i in 0..n {
        for j in 0..n {
            let case = (i * n + j) as u64;
            if !ctx.mine(case) {
                continue;
            }
            rep.eval();
            rep.count("pairs", 1);
            let (a, b) = (&pool[i], &pool2[j]);
            let e = eq[i * n + j];
            // reflexivity
            if i == j {
                rep.count("law_reflexivity", 1);
                if !e {
                    rep.violation("R.reflexive", "-", format!("reflexivity {}", cls(a)), pair_detail(a, b, json!(e)), ctx.shard, case);
                }
                let self_eq = guard(|| {
                    #[allow(clippy::eq_op)]
                    let r = a == a;
                    r
                });
                if self_eq != Ok(true) {
                    rep.violation("R.reflexive", "-", format!("reflexivity (same object) {}", cls(a)), pair_detail(a, a, json!(format!("{self_eq:?}"))), ctx.shard, case);
                }
            }
            // symmetry
            rep.count("law_symmetry", 1);
            if e != eq[j * n + i] {
                rep.violation("R.symmetric", "-", pair_sig("symmetry", a, b), pair_detail(a, b, json!({"a==b": e, "b==a": eq[j * n + i]})), ctx.shard, case);
            }
            // variant separation
            let same_variant = discriminant(a) == discriminant(b);
            if same_variant != (variant_name(a) == variant_name(b)) {
                rep.inconclusive("discriminant and variant name disagree");
            }
            if !same_variant {
                rep.count("law_variant_separation", 1);
                if e {
                    rep.violation("R.variant", "-", format!("variant-separation {}/{}", variant_name(a), variant_name(b)), pair_detail(a, b, json!(e)), ctx.shard, case);
                }
            } else {
                rep.nontrivial(mix(i as u64, j as u64));
            }
            // payload agreement
            let want = guard(|| oracle(a, b));
            match want {
                Ok(Rel::Same) => {
                    rep.count("law_payload_same", 1);
                    if !e {
                        rep.violation("R.payload", "-", pair_sig("equal payloads compare unequal", a, b), pair_detail(a, b, json!(e)), ctx.shard, case);
                    }
                }
                Ok(Rel::Diff) => {
                    rep.count("law_payload_diff", 1);
                    if e {
                        rep.violation("R.payload", "-", pair_sig("different payloads compare equal", a, b), pair_detail(a, b, json!(e)), ctx.shard, case);
                    }
                }
                Ok(Rel::Amb) => {
                    rep.count("payload_ambiguous_pairs", 1);
                    if e {
                        amb_equal += 1;
                        rep.note("ambiguous_pairs_equal", format!("{} / {}", cls(a), cls(b)));
                    } else {
                        amb_unequal += 1;
                        rep.note("ambiguous_pairs_unequal", format!("{} / {}", cls(a), cls(b)));
                    }
                }
                Err(p) => rep.inconclusive(&format!("oracle panicked: {}", panic_sig(&p))),
            }
            // hash agreement
            if e {
                rep.count("law_hash_agreement", 1);
                for k in 0..3 {
                    if hs[i][k] != hs[j][k] {
                        rep.violation("R.hash", "-", format!("hash {} {}", HASHERS[k], pair_sig("", a, b).trim_start()), pair_detail(a, b, json!({"hash_a": hs[i][k], "hash_b": hs[j][k]})), ctx.shard, case);
                    }
                }
                if i != j && rep.samples.len() < 3 {
                    rep.sample(json!({"kind": "equal pair", "a": show_value(a), "b": show_value(b), "hashes": hs[i]}));
                }
            } else if same_variant && rep.samples.len() < 5 && (i + j) % 97 == 0 {
                rep.sample(json!({"kind": "unequal pair of one variant", "a": show_value(a), "b": show_value(b)}));
            }
        }
    }
    rep.count("ambiguous_pairs_equal", amb_equal);
    rep.count("ambiguous_pairs_unequal", amb_unequal);

    // --- transitivity -----------------------------------------------------------
    let mut premise = 0u64;
    let mut triples = 0u64;
    let mut triple = |rep: &mut Report, a: usize, b: usize, c: usize, case: u64| {
        triples += 1;
        if eq[a * n + b] && eq[b * n + c] {
            premise += 1;
            if !eq[a * n + c] {
                rep.violation("R.transitive", "-", format!("transitivity {} / {} / {}", cls(&pool[a]), cls(&pool[b]), cls(&pool[c])),
                    json!({"a": show_value(&pool[a]), "b": show_value(&pool[b]), "c": show_value(&pool[c])}), ctx.shard, case);
            }
        }
    };
    if ctx.quick() {
        let per = 2_000_000 / ctx.nshards;
        for k in 0..per {
            if !ctx.wants(SAMPLE_BASE + k) {
                continue;
            }
            let mut r = ctx.rng("triple", k);
            // half of the sample is drawn inside one variant, where the premises can hold
            let a = r.below(n);
            let (b, c) = if k % 2 == 0 {
                (r.below(n), r.below(n))
            } else {
                let same: Vec<usize> = (0..n).filter(|x| discriminant(&pool[*x]) == discriminant(&pool[a])).collect();
                (*r.pick(&same), *r.pick(&same))
            };
            triple(rep, a, b, c, SAMPLE_BASE + k);
        }
    } else {
        for a in 0..n {
            if !ctx.mine(TRIPLE_BASE + a as u64) {
                continue;
            }
            for b in 0..n {
                for c in 0..n {
                    triple(rep, a, b, c, TRIPLE_BASE + a as u64);
                }
            }
        }
        if ctx.shard == 0 && ctx.replay.is_none() {
            rep.exhaustive_parts.push(format!("all {n}^3 triples of the pool for transitivity"));
        }
    }
    // both tiers: every triple inside one variant (the only place where both premises can hold)
    for a in 0..n {
        if !ctx.mine(GROUP_BASE + a as u64) {
            continue;
        }
        let same: Vec<usize> = (0..n).filter(|x| discriminant(&pool[*x]) == discriminant(&pool[a])).collect();
        for &b in &same {
            for &c in &same {
                triple(rep, a, b, c, GROUP_BASE + a as u64);
            }
        }
    }
    rep.count("triples", triples);
    rep.count("triples_with_both_premises", premise);
    rep.count("law_transitivity", premise);
    rep.evaluations += triples;
    if ctx.shard == 0 && ctx.replay.is_none() {
        rep.exhaustive_parts.push(format!("all {n}x{n} ordered pairs of the pool; all same-variant triples"));
    }

    // --- hash sets and maps -------------------------------------------------------
    if ctx.mine(SET_BASE) {
        rep.eval();
        let mut uf = Uf::new(n);
        for i in 0..n {
            for j in 0..n {
                if eq[i * n + j] {
                    uf.union(i, j);
                }
            }
        }
        let classes = uf.classes();
        rep.max("max_value_classes", classes as u64);
        let r = guard(|| {
            let mut out: Vec<(String, J)> = vec![];
            let s1: HashSet<Value> = pool.iter().cloned().collect();
            let s2: HashSet<Value, BuildHasherDefault<Fnv>> = pool.iter().cloned().collect();
            let s3: HashSet<Value, BuildHasherDefault<Weak>> = pool.iter().cloned().collect();
            for (name, len) in [("RandomState", s1.len()), ("Fnv1a", s2.len()), ("WeakSum8", s3.len())] {
                if len != classes {
                    out.push((format!("HashSet<Value> ({name}) size differs from the number of equality classes"), json!({"len": len, "classes": classes})));
                }
            }
            for v in pool2.iter() {
                if !s1.contains(v) || !s2.contains(v) || !s3.contains(v) {
                    out.push((format!("HashSet<Value> does not contain member {}", cls(v)), json!({"value": show_value(v)})));
                }
            }
            out
        });
        match r {
            Ok(out) => {
                for (sig, d) in out {
                    rep.violation("R.set", "-", sig, d, ctx.shard, SET_BASE);
                }
            }
            Err(p) => rep.violation("R.panic", "-", format!("HashSet<Value>: {}", panic_sig(&p)), json!({"panic": p}), ctx.shard, SET_BASE),
        }
        rep.count("hashset_members_checked", n as u64);
    }
    if ctx.mine(SET_BASE + 1) {
        rep.eval();
        let r = guard(|| {
            let mut out: Vec<(String, J)> = vec![];
            let ts = tuple_pool(&pool);
            let ts2 = tuple_pool(&pool2);
            let m = ts.len();
            let th: Vec<[u64; 3]> = ts.iter().map(hashes).collect();
            let mut uf = Uf::new(m);
            let mut eq_pairs = 0u64;
            for i in 0..m {
                for j in 0..m {
                    let e = ts[i] == ts2[j];
                    if i == j && !e {
                        out.push((format!("reflexivity ValueTuple {}", vt_cls(&ts[i])), json!({"tuple": clip_dbg(&ts[i])})));
                    }
                    if e != (ts[j] == ts2[i]) {
                        out.push((format!("symmetry ValueTuple {} / {}", vt_cls(&ts[i]), vt_cls(&ts[j])), json!({})));
                    }
                    if e {
                        eq_pairs += 1;
                        uf.union(i, j);
                        for k in 0..3 {
                            if th[i][k] != th[j][k] {
                                out.push((format!("hash {} ValueTuple {} / {}", HASHERS[k], vt_cls(&ts[i]), vt_cls(&ts[j])),
                                    json!({"a": clip_dbg(&ts[i]), "b": clip_dbg(&ts[j])})));
                            }
                        }
                    }
                }
            }
            let classes = uf.classes();
            let mut m1: HashMap<ValueTuple, usize> = HashMap::new();
            let mut m2: HashMap<ValueTuple, usize, BuildHasherDefault<Fnv>> = HashMap::default();
            let mut m3: HashMap<ValueTuple, usize, BuildHasherDefault<Weak>> = HashMap::default();
            for (i, t) in ts.iter().enumerate() {
                m1.entry(t.clone()).or_insert(i);
                m2.entry(t.clone()).or_insert(i);
                m3.entry(t.clone()).or_insert(i);
            }
            for (name, len) in [("RandomState", m1.len()), ("Fnv1a", m2.len()), ("WeakSum8", m3.len())] {
                if len != classes {
                    out.push((format!("HashMap<ValueTuple,_> ({name}) size differs from the number of equality classes"), json!({"len": len, "classes": classes})));
                }
            }
            for (i, t) in ts2.iter().enumerate() {
                for got in [m1.get(t), m2.get(t), m3.get(t)] {
                    match got {
                        Some(k) if uf.find(*k) == uf.find(i) => {}
                        Some(_) => out.push((format!("HashMap<ValueTuple,_> finds another class for {}", vt_cls(t)), json!({}))),
                        None => out.push((format!("HashMap<ValueTuple,_> does not find key {}", vt_cls(t)), json!({"key": clip_dbg(t)}))),
                    }
                }
            }
            (out, m, classes, eq_pairs)
        });
        match r {
            Ok((out, m, classes, eq_pairs)) => {
                for (sig, d) in out {
                    rep.violation("R.map", "-", sig, d, ctx.shard, SET_BASE + 1);
                }
                rep.max("max_tuple_pool_size", m as u64);
                rep.max("max_tuple_classes", classes as u64);
                rep.count("tuple_pairs", (m * m) as u64);
                rep.count("tuple_pairs_equal", eq_pairs);
                rep.count("hashmap_keys_checked", m as u64);
            }
            Err(p) => rep.violation("R.panic", "-", format!("HashMap<ValueTuple,_>: {}", panic_sig(&p)), json!({"panic": p}), ctx.shard, SET_BASE + 1),
        }
    }
}

fn clip_dbg<T: std::fmt::Debug>(t: &T) -> String {
    let s = format!("{t:?}");
    if s.chars().count() > 200 {
        let mut c: String = s.chars().take(200).collect();
        c.push('…');
        c
    } else {
        s
    }
}
