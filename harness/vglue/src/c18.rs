//! C18 — `Value` equality and hashing are coherent (`hashable-value`).
//!
//! A pool of values (every variant, NULLs, float edge cases, arrays of every
//! ArrayType, JSON built in different orders, ...) is compared pairwise with
//! `Value::eq` and hashed with three hashers; an independent three-valued
//! payload oracle (`Same` / `Diff` / `Amb`) says what equality is required.
#![cfg(feature = "hash")]

use crate::c12::{all_array_types, array_name, array_of, enc_json, enc_v, is_null, show_value, variant_name, ALL_VARIANTS};
use sea_query::{ArrayType, Value, ValueTuple};
use serde_json::{json, Value as J};
use std::collections::hash_map::DefaultHasher;
use std::collections::{HashMap, HashSet};
use std::hash::{BuildHasherDefault, Hash, Hasher};
use std::mem::discriminant;
use vcore::prng::mix;
use vcore::report::Report;
use vcore::run::{guard, panic_sig, Ctx};

use chrono::{Offset, TimeZone};

// ---------------------------------------------------------------------------
// Hashers
// ---------------------------------------------------------------------------

#[derive(Clone)]
struct Fnv(u64);
impl Default for Fnv {
    fn default() -> Self {
        Fnv(0xcbf29ce484222325)
    }
}
impl Hasher for Fnv {
    fn write(&mut self, bytes: &[u8]) {
        for b in bytes {
            self.0 ^= *b as u64;
            self.0 = self.0.wrapping_mul(0x100000001b3);
        }
    }
    fn finish(&self) -> u64 {
        self.0
    }
}

/// deliberately weak: sum of all bytes mod 256
#[derive(Clone, Default)]
struct Weak(u8);
impl Hasher for Weak {
    fn write(&mut self, bytes: &[u8]) {
        for b in bytes {
            self.0 = self.0.wrapping_add(*b);
        }
    }
    fn finish(&self) -> u64 {
        self.0 as u64
    }
}

const HASHERS: [&str; 3] = ["DefaultHasher", "Fnv1a", "WeakSum8"];

fn hashes<T: Hash>(v: &T) -> [u64; 3] {
    let mut a = DefaultHasher::new();
    v.hash(&mut a);
    let mut b = Fnv::default();
    v.hash(&mut b);
    let mut c = Weak::default();
    v.hash(&mut c);
    [a.finish(), b.finish(), c.finish()]
}

// ---------------------------------------------------------------------------
// Coarse payload classes for signatures
// ---------------------------------------------------------------------------

fn fcls(bits_nan: bool, inf: bool, zero: bool, sub: bool, neg: bool) -> &'static str {
    match (bits_nan, inf, zero, sub, neg) {
        (true, _, _, _, false) => "+NaN",
        (true, _, _, _, true) => "-NaN",
        (_, true, _, _, false) => "+inf",
        (_, true, _, _, true) => "-inf",
        (_, _, true, _, false) => "+0",
        (_, _, true, _, true) => "-0",
        (_, _, _, true, _) => "subnormal",
        _ => "normal",
    }
}

fn f32cls(f: f32) -> &'static str {
    fcls(f.is_nan(), f.is_infinite(), f == 0.0, f.is_subnormal(), f.is_sign_negative())
}

fn f64cls(f: f64) -> &'static str {
    fcls(f.is_nan(), f.is_infinite(), f == 0.0, f.is_subnormal(), f.is_sign_negative())
}

fn jcls(j: &J) -> &'static str {
    match j {
        J::Null => "null",
        J::Bool(_) => "bool",
        J::Number(n) if n.is_f64() => "float",
        J::Number(_) => "int",
        J::String(_) => "string",
        J::Array(_) => "array",
        J::Object(_) => "object",
    }
}

/// e.g. `Float(+NaN)`, `Int(NULL)`, `Array<Double>(n=2)`
fn cls(v: &Value) -> String {
    let name = variant_name(v);
    if let Value::Array(t, x) = v {
        let inner = match x {
            None => "NULL".to_string(),
            Some(xs) if xs.is_empty() => "empty".to_string(),
            Some(xs) => {
                let e = &xs[0];
                let ec = cls(e);
                format!("n={} of {}", xs.len(), ec)
            }
        };
        return format!("Array<{}>({inner})", array_name(t));
    }
    if is_null(v) {
        return format!("{name}(NULL)");
    }
    let inner: String = match v {
        Value::Float(Some(f)) => f32cls(*f).into(),
        Value::Double(Some(f)) => f64cls(*f).into(),
        Value::Json(Some(j)) => jcls(j).into(),
        Value::Vector(Some(x)) => {
            let s = x.as_slice();
            if s.is_empty() {
                "empty".into()
            } else {
                format!("n={} first {}", s.len(), f32cls(s[0]))
            }
        }
        Value::String(Some(s)) if s.is_empty() => "empty".into(),
        Value::Bytes(Some(s)) if s.is_empty() => "empty".into(),
        Value::Decimal(Some(d)) => {
            if d.is_zero() {
                format!("zero scale {}{}", d.scale(), if d.is_sign_negative() { " neg" } else { "" })
            } else {
                format!("scale {}", d.scale())
            }
        }
        Value::BigDecimal(Some(d)) => format!("scale {}", d.as_bigint_and_exponent().1),
        Value::ChronoDateTimeWithTimeZone(Some(d)) => format!("offset {}", d.offset().local_minus_utc()),
        Value::ChronoDateTimeLocal(Some(d)) => format!("offset {}", d.offset().fix().local_minus_utc()),
        Value::TimeDateTimeWithTimeZone(Some(d)) => format!("offset {}", d.offset().whole_seconds()),
        _ => "value".into(),
    };
    format!("{name}({inner})")
}

// ---------------------------------------------------------------------------
// Independent payload oracle (never calls Value::eq)
// ---------------------------------------------------------------------------

#[derive(Clone, Copy, PartialEq, Eq, Debug)]
enum Rel {
    /// bitwise-equal payloads: MUST compare equal
    Same,
    /// numerically / semantically equal but different representation: MAY be either
    Amb,
    /// definitely different payloads: MUST NOT compare equal
    Diff,
}

fn both(a: Rel, b: Rel) -> Rel {
    match (a, b) {
        (Rel::Diff, _) | (_, Rel::Diff) => Rel::Diff,
        (Rel::Amb, _) | (_, Rel::Amb) => Rel::Amb,
        _ => Rel::Same,
    }
}

fn bits<T: PartialEq>(a: T, b: T) -> Rel {
    if a == b {
        Rel::Same
    } else {
        Rel::Diff
    }
}

fn frel64(a: f64, b: f64) -> Rel {
    if a.to_bits() == b.to_bits() {
        Rel::Same
    } else if (a.is_nan() && b.is_nan()) || a == b {
        Rel::Amb
    } else {
        Rel::Diff
    }
}

fn frel32(a: f32, b: f32) -> Rel {
    if a.to_bits() == b.to_bits() {
        Rel::Same
    } else if (a.is_nan() && b.is_nan()) || a == b {
        Rel::Amb
    } else {
        Rel::Diff
    }
}

fn jnum_rel(a: &serde_json::Number, b: &serde_json::Number) -> Rel {
    let kind = |n: &serde_json::Number| if n.is_u64() { 0 } else if n.is_i64() { 1 } else { 2 };
    if kind(a) == kind(b) {
        return match kind(a) {
            0 => bits(a.as_u64(), b.as_u64()),
            1 => bits(a.as_i64(), b.as_i64()),
            _ => frel64(a.as_f64().unwrap_or(f64::NAN), b.as_f64().unwrap_or(f64::NAN)),
        };
    }
    // different representation (1 vs 1.0, or i64 vs u64 which cannot be equal)
    if kind(a) != 2 && kind(b) != 2 {
        return Rel::Diff; // is_u64 covers every non-negative integer, is_i64-only means negative
    }
    match (a.as_f64(), b.as_f64()) {
        (Some(x), Some(y)) if x == y => Rel::Amb,
        _ => Rel::Diff,
    }
}

fn jrel(a: &J, b: &J) -> Rel {
    match (a, b) {
        (J::Null, J::Null) => Rel::Same,
        (J::Bool(x), J::Bool(y)) => bits(x, y),
        (J::Number(x), J::Number(y)) => jnum_rel(x, y),
        (J::String(x), J::String(y)) => bits(x.as_bytes(), y.as_bytes()),
        (J::Array(x), J::Array(y)) => {
            if x.len() != y.len() {
                return Rel::Diff;
            }
            x.iter().zip(y).fold(Rel::Same, |r, (p, q)| both(r, jrel(p, q)))
        }
        (J::Object(x), J::Object(y)) => {
            if x.len() != y.len() {
                return Rel::Diff;
            }
            let mut r = Rel::Same;
            for (k, p) in x {
                match y.get(k) {
                    Some(q) => r = both(r, jrel(p, q)),
                    None => return Rel::Diff,
                }
            }
            r
        }
        _ => Rel::Diff,
    }
}

fn opt<T>(a: &Option<T>, b: &Option<T>, f: impl FnOnce(&T, &T) -> Rel) -> Rel {
    match (a, b) {
        (None, None) => Rel::Same,
        (Some(x), Some(y)) => f(x, y),
        _ => Rel::Diff,
    }
}

fn instant_rel(same_instant: bool, same_offset: bool) -> Rel {
    match (same_instant, same_offset) {
        (true, true) => Rel::Same,
        (true, false) => Rel::Amb,
        _ => Rel::Diff,
    }
}

fn oracle(a: &Value, b: &Value) -> Rel {
    use Value as V;
    match (a, b) {
        (V::Bool(x), V::Bool(y)) => opt(x, y, |p, q| bits(p, q)),
        (V::TinyInt(x), V::TinyInt(y)) => opt(x, y, |p, q| bits(p, q)),
        (V::SmallInt(x), V::SmallInt(y)) => opt(x, y, |p, q| bits(p, q)),
        (V::Int(x), V::Int(y)) => opt(x, y, |p, q| bits(p, q)),
        (V::BigInt(x), V::BigInt(y)) => opt(x, y, |p, q| bits(p, q)),
        (V::TinyUnsigned(x), V::TinyUnsigned(y)) => opt(x, y, |p, q| bits(p, q)),
        (V::SmallUnsigned(x), V::SmallUnsigned(y)) => opt(x, y, |p, q| bits(p, q)),
        (V::Unsigned(x), V::Unsigned(y)) => opt(x, y, |p, q| bits(p, q)),
        (V::BigUnsigned(x), V::BigUnsigned(y)) => opt(x, y, |p, q| bits(p, q)),
        (V::Float(x), V::Float(y)) => opt(x, y, |p, q| frel32(*p, *q)),
        (V::Double(x), V::Double(y)) => opt(x, y, |p, q| frel64(*p, *q)),
        (V::String(x), V::String(y)) => opt(x, y, |p, q| bits(p.as_bytes(), q.as_bytes())),
        (V::Char(x), V::Char(y)) => opt(x, y, |p, q| bits(*p as u32, *q as u32)),
        (V::Bytes(x), V::Bytes(y)) => opt(x, y, |p, q| bits(p.as_slice(), q.as_slice())),
        (V::Json(x), V::Json(y)) => opt(x, y, |p, q| {
            // cross-check the structural walk against the canonical encoding
            let r = jrel(p, q);
            let (mut e1, mut e2) = (vec![], vec![]);
            enc_json(p, &mut e1);
            enc_json(q, &mut e2);
            if (e1 == e2) != (r == Rel::Same) {
                Rel::Amb
            } else {
                r
            }
        }),
        (V::ChronoDate(x), V::ChronoDate(y)) => opt(x, y, |p, q| bits(p, q)),
        (V::ChronoTime(x), V::ChronoTime(y)) => opt(x, y, |p, q| bits(p, q)),
        (V::ChronoDateTime(x), V::ChronoDateTime(y)) => opt(x, y, |p, q| bits(p, q)),
        (V::ChronoDateTimeUtc(x), V::ChronoDateTimeUtc(y)) => opt(x, y, |p, q| bits(p.naive_utc(), q.naive_utc())),
        (V::ChronoDateTimeLocal(x), V::ChronoDateTimeLocal(y)) => opt(x, y, |p, q| {
            instant_rel(p.naive_utc() == q.naive_utc(), p.offset().fix() == q.offset().fix())
        }),
        (V::ChronoDateTimeWithTimeZone(x), V::ChronoDateTimeWithTimeZone(y)) => {
            opt(x, y, |p, q| instant_rel(p.naive_utc() == q.naive_utc(), p.offset() == q.offset()))
        }
        (V::TimeDate(x), V::TimeDate(y)) => opt(x, y, |p, q| bits(p.to_julian_day(), q.to_julian_day())),
        (V::TimeTime(x), V::TimeTime(y)) => opt(x, y, |p, q| bits(p.as_hms_nano(), q.as_hms_nano())),
        (V::TimeDateTime(x), V::TimeDateTime(y)) => opt(x, y, |p, q| {
            bits((p.date().to_julian_day(), p.time().as_hms_nano()), (q.date().to_julian_day(), q.time().as_hms_nano()))
        }),
        (V::TimeDateTimeWithTimeZone(x), V::TimeDateTimeWithTimeZone(y)) => opt(x, y, |p, q| {
            instant_rel(
                p.unix_timestamp_nanos() == q.unix_timestamp_nanos(),
                p.offset().whole_seconds() == q.offset().whole_seconds(),
            )
        }),
        (V::Uuid(x), V::Uuid(y)) => opt(x, y, |p, q| bits(p.as_u128(), q.as_u128())),
        (V::Decimal(x), V::Decimal(y)) => opt(x, y, |p, q| {
            if p.serialize() == q.serialize() {
                Rel::Same
            } else if p.cmp(q) == std::cmp::Ordering::Equal {
                Rel::Amb
            } else {
                Rel::Diff
            }
        }),
        (V::BigDecimal(x), V::BigDecimal(y)) => opt(x, y, |p, q| {
            if p.as_bigint_and_exponent() == q.as_bigint_and_exponent() {
                Rel::Same
            } else if p.as_ref() == q.as_ref() {
                Rel::Amb
            } else {
                Rel::Diff
            }
        }),
        (V::Array(t1, x), V::Array(t2, y)) => {
            if array_name(t1) != array_name(t2) {
                return Rel::Diff;
            }
            opt(x, y, |p, q| {
                if p.len() != q.len() {
                    return Rel::Diff;
                }
                p.iter().zip(q.iter()).fold(Rel::Same, |r, (e, f)| both(r, oracle(e, f)))
            })
        }
        (V::Vector(x), V::Vector(y)) => opt(x, y, |p, q| {
            let (p, q) = (p.as_slice(), q.as_slice());
            if p.len() != q.len() {
                return Rel::Diff;
            }
            p.iter().zip(q).fold(Rel::Same, |r, (e, f)| both(r, frel32(*e, *f)))
        }),
        (V::IpNetwork(x), V::IpNetwork(y)) => opt(x, y, |p, q| bits((p.ip(), p.prefix()), (q.ip(), q.prefix()))),
        (V::MacAddress(x), V::MacAddress(y)) => opt(x, y, |p, q| bits(p.bytes(), q.bytes())),
        // different variants
        _ => Rel::Diff,
    }
}
