//! C10 — INSERT rows always match the column list; mismatches are reported.
//! Oracle: a sequential model of the builder, compared after every call.

use crate::util::*;
use sea_query::error::Error;
use sea_query::*;
use serde_json::json;
use vcore::lex::{lex, Tok};
use vcore::report::Report;
use vcore::run::{guard, Ctx};

#[derive(Clone, Copy, Debug, PartialEq)]
enum Call {
    Columns(usize),
    Values(usize),
    ValuesPanic(usize),
    /// values_from_panic with rows of the given widths (0 = no second row)
    ValuesFrom(usize, usize),
    SelectFrom(usize),
    /// select_from with a select list of the given length whose first item is a wildcard (`*` / `t.*`);
    /// only issued when the length differs from the column list (must be rejected like any other list)
    SelectFromStar(usize),
    OrDefault,
    OrDefaultMany(u32),
}

fn kinds() -> Vec<Call> {
    let mut v = vec![];
    for k in 0..4 {
        v.push(Call::Columns(k));
    }
    for k in 0..4 {
        v.push(Call::Values(k));
    }
    for k in 0..4 {
        v.push(Call::ValuesPanic(k));
    }
    v.push(Call::ValuesFrom(1, 0));
    v.push(Call::ValuesFrom(2, 2));
    v.push(Call::ValuesFrom(2, 1));
    for k in 0..4 {
        v.push(Call::SelectFrom(k));
    }
    v.push(Call::SelectFromStar(1));
    v.push(Call::SelectFromStar(2));
    v.push(Call::OrDefault);
    v.push(Call::OrDefaultMany(0));
    v.push(Call::OrDefaultMany(2));
    v
}

#[derive(Clone, Debug, PartialEq)]
enum Src {
    None,
    Values(Vec<Vec<i64>>),
    Select(Vec<i64>),
}

#[derive(Clone, Debug)]
struct Model {
    cols: Vec<String>,
    src: Src,
    default: Option<u32>,
    /// true once columns() was re-declared with another arity while a source of the old arity is held
    redeclared: bool,
}

struct Tagger(i64);
impl Tagger {
    fn row(&mut self, n: usize) -> Vec<i64> {
        (0..n)
            .map(|_| {
                self.0 += 1;
                self.0
            })
            .collect()
    }
}

fn model_values(m: &mut Model, row: &[i64]) -> Result<(), (usize, usize)> {
    if m.cols.len() != row.len() {
        return Err((m.cols.len(), row.len()));
    }
    if !row.is_empty() {
        if let Src::Values(rows) = &mut m.src {
            rows.push(row.to_vec());
        } else {
            m.src = Src::Values(vec![row.to_vec()]);
        }
    }
    Ok(())
}

fn exprs(row: &[i64]) -> Vec<SimpleExpr> {
    row.iter().map(|t| SimpleExpr::Value((*t).into())).collect()
}

/// Parse the rendered INSERT: (column names, Some(rows of numeric cells) | select items | default form)
#[derive(Debug, PartialEq)]
enum Seen {
    Values(Vec<String>, Vec<Vec<i64>>),
    Select(Vec<String>, Vec<i64>),
    NoSource(Vec<String>),
    Default(String),
}

fn parse(d: Dialect, sql: &str) -> Result<Seen, String> {
    let toks = lex(d, sql).map_err(|e| format!("lex: {}", e.msg))?;
    let t: Vec<&Tok> = toks.iter().map(|x| &x.tok).collect();
    let mut i = 0;
    let expect_word = |i: &mut usize, w: &str| -> Result<(), String> {
        if *i < t.len() && t[*i].is_word(w) {
            *i += 1;
            Ok(())
        } else {
            Err(format!("expected {w} at token {i}"))
        }
    };
    expect_word(&mut i, "INSERT")?;
    expect_word(&mut i, "INTO")?;
    match t.get(i) {
        Some(Tok::Ident(_)) => i += 1,
        _ => return Err("expected table".into()),
    }
    if i < t.len() && t[i].is_word("DEFAULT") {
        expect_word(&mut i, "DEFAULT")?;
        expect_word(&mut i, "VALUES")?;
        return if i == t.len() { Ok(Seen::Default("DEFAULT VALUES".into())) } else { Err("trailing".into()) };
    }
    if i < t.len() && t[i].is_word("VALUES") {
        // MySQL `VALUES (), ()` / Postgres `VALUES (DEFAULT), (DEFAULT)`
        let rest: Vec<String> = t[i..].iter().map(|x| x.short()).collect();
        return Ok(Seen::Default(rest.join(" ")));
    }
    if t.get(i) != Some(&&Tok::LParen) {
        return Err("expected ( of column list".into());
    }
    i += 1;
    let mut cols = vec![];
    loop {
        match t.get(i) {
            Some(Tok::RParen) => {
                i += 1;
                break;
            }
            Some(Tok::Ident(c)) => {
                cols.push(c.clone());
                i += 1;
                match t.get(i) {
                    Some(Tok::Comma) => i += 1,
                    Some(Tok::RParen) => {}
                    _ => return Err("bad column list".into()),
                }
            }
            _ => return Err("bad column list".into()),
        }
    }
    if i == t.len() {
        return Ok(Seen::NoSource(cols));
    }
    if t[i].is_word("SELECT") {
        i += 1;
        let mut items = vec![];
        while i < t.len() {
            match t[i] {
                Tok::Num(n) => items.push(n.parse::<i64>().map_err(|e| e.to_string())?),
                _ => return Err("bad select item".into()),
            }
            i += 1;
            if i < t.len() {
                if t[i] != &Tok::Comma {
                    return Err("bad select list".into());
                }
                i += 1;
            }
        }
        return Ok(Seen::Select(cols, items));
    }
    expect_word(&mut i, "VALUES")?;
    let mut rows = vec![];
    loop {
        if t.get(i) != Some(&&Tok::LParen) {
            return Err("expected ( of row".into());
        }
        i += 1;
        let mut row = vec![];
        loop {
            match t.get(i) {
                Some(Tok::RParen) => {
                    i += 1;
                    break;
                }
                Some(Tok::Num(n)) => {
                    row.push(n.parse::<i64>().map_err(|e| e.to_string())?);
                    i += 1;
                    match t.get(i) {
                        Some(Tok::Comma) => i += 1,
                        Some(Tok::RParen) => {}
                        _ => return Err("bad row".into()),
                    }
                }
                _ => return Err("bad cell".into()),
            }
        }
        rows.push(row);
        match t.get(i) {
            Some(Tok::Comma) => i += 1,
            None => break,
            _ => return Err("trailing tokens after VALUES list".into()),
        }
    }
    Ok(Seen::Values(cols, rows))
}

fn expected(m: &Model, d: Dialect) -> Seen {
    if m.default.is_some() && m.cols.is_empty() && m.src == Src::None {
        let n = m.default.unwrap() as usize;
        return Seen::Default(match d {
            Dialect::Sqlite => "DEFAULT VALUES".to_string(),
            Dialect::Mysql => {
                let mut v = vec!["VALUES".to_string()];
                for k in 0..n {
                    if k > 0 {
                        v.push(",".into());
                    }
                    v.push("(".into());
                    v.push(")".into());
                }
                v.join(" ")
            }
            Dialect::Postgres => {
                let mut v = vec!["VALUES".to_string()];
                for k in 0..n {
                    if k > 0 {
                        v.push(",".into());
                    }
                    v.push("(".into());
                    v.push("DEFAULT".into());
                    v.push(")".into());
                }
                v.join(" ")
            }
        });
    }
    match &m.src {
        Src::None => Seen::NoSource(m.cols.clone()),
        Src::Values(r) => Seen::Values(m.cols.clone(), r.clone()),
        Src::Select(s) => Seen::Select(m.cols.clone(), s.clone()),
    }
}

fn render3(stmt: &InsertStatement) -> Vec<String> {
    Dialect::ALL
        .iter()
        .map(|d| {
            let mut s = String::new();
            stmt.build_collect_any(qb(*d), &mut s)
        })
        .collect()
}

fn run_seq(ctx: &Ctx, rep: &mut Report, n: u64, seq: &[Call]) {
    rep.eval();
    let mut stmt = Query::insert();
    stmt.into_table(Alias::new("t"));
    let mut m = Model { cols: vec![], src: Src::None, default: None, redeclared: false };
    let mut tg = Tagger(1000);
    let mut colgen = 0;
    let hist = || format!("{seq:?}");
    // after the listed finding (columns() re-declared with another arity over an accepted source) the
    // statement is non-rectangular by construction: its renderings are no longer compared, but what the
    // remaining calls answer (Ok / the error and its numbers) still is
    let mut results_only = false;
    for (step, call) in seq.iter().enumerate() {
        let before = stmt.clone();
        let before_sql = render3(&stmt);
        // --- apply to real statement and to model
        let mut failed = false; // the call was rejected
        let mut rule_fail: Option<(&str, String, serde_json::Value)> = None;
        match *call {
            Call::Columns(k) => {
                let names: Vec<String> = (0..k)
                    .map(|_| {
                        colgen += 1;
                        format!("c{colgen}")
                    })
                    .collect();
                stmt.columns(names.iter().map(|s| Alias::new(s.as_str())));
                let held = match &m.src {
                    Src::Values(r) => Some(r[0].len()),
                    Src::Select(s) => Some(s.len()),
                    Src::None => None,
                };
                if let Some(w) = held {
                    m.redeclared = w != k;
                }
                m.cols = names;
            }
            Call::Values(k) | Call::ValuesPanic(k) => {
                let row = tg.row(k);
                let want = model_values(&mut m, &row);
                let is_panic_form = matches!(call, Call::ValuesPanic(_));
                let got: Result<Result<(), Error>, String> = if is_panic_form {
                    guard(|| {
                        stmt.values_panic(exprs(&row));
                        Ok(())
                    })
                } else if crate::apply::route(3) == 0 {
                    // the row as a lazy iterator that yields fewer items than its size_hint allows
                    let mut padded = exprs(&row);
                    padded.insert(row.len() / 2, SimpleExpr::Keyword(Keyword::Null));
                    rep.count("lazy_rows", 1);
                    guard(|| stmt.values(padded.into_iter().filter(|e| !matches!(e, SimpleExpr::Keyword(Keyword::Null)))).map(|_| ()))
                } else {
                    guard(|| stmt.values(exprs(&row)).map(|_| ()))
                };
                match (&want, &got) {
                    (Ok(()), Ok(Ok(()))) => {}
                    (Err((c, v)), Ok(Err(Error::ColValNumMismatch { col_len, val_len })))
                        if !is_panic_form && c == col_len && v == val_len =>
                    {
                        failed = true;
                        rep.count("errors_returned_and_checked", 1);
                    }
                    (Err(_), Err(_)) if is_panic_form => {
                        failed = true;
                        rep.count("panics_expected_and_seen", 1);
                    }
                    _ => {
                        rule_fail = Some((
                            "R.result",
                            format!("{} cols={} row={}: model {:?}", if is_panic_form { "values_panic" } else { "values" }, m.cols.len(), k, want.is_ok()),
                            json!({"model": format!("{want:?}"), "got": format!("{got:?}")}),
                        ));
                    }
                }
            }
            Call::ValuesFrom(a, b) => {
                let mut rows = vec![tg.row(a)];
                if b > 0 {
                    rows.push(tg.row(b));
                }
                let mut want_ok = true;
                for r in &rows {
                    if model_values(&mut m, r).is_err() {
                        want_ok = false;
                        break;
                    }
                }
                let got = guard(|| {
                    stmt.values_from_panic(rows.iter().map(|r| exprs(r)));
                });
                if want_ok != got.is_ok() {
                    rule_fail = Some((
                        "R.result",
                        format!("values_from_panic cols={} rows={a},{b}: model ok={want_ok}", m.cols.len()),
                        json!({"got": format!("{got:?}")}),
                    ));
                }
                // partial application is modelled row by row, so no "unchanged" requirement here
            }
            Call::SelectFrom(j) => {
                let items = tg.row(j);
                let mut sel = Query::select();
                for t in &items {
                    sel.expr(SimpleExpr::Value((*t).into()));
                }
                let got = guard(|| stmt.select_from(sel).map(|_| ()));
                let want_ok = m.cols.len() == j;
                match (&got, want_ok) {
                    (Ok(Ok(())), true) => m.src = Src::Select(items),
                    (Ok(Err(Error::ColValNumMismatch { col_len, val_len })), false)
                        if *col_len == m.cols.len() && *val_len == j =>
                    {
                        failed = true;
                        rep.count("errors_returned_and_checked", 1);
                    }
                    _ => {
                        rule_fail = Some((
                            "R.result",
                            format!("select_from cols={} items={j}: model ok={want_ok}", m.cols.len()),
                            json!({"got": format!("{got:?}")}),
                        ));
                    }
                }
            }
            Call::SelectFromStar(j) => {
                if m.cols.len() == j {
                    // would be accepted: not modelled, leave the statement alone
                    continue;
                }
                let mut sel = Query::select();
                if j % 2 == 1 {
                    sel.column(sea_query::Asterisk);
                } else {
                    sel.column((Alias::new("src"), sea_query::Asterisk));
                }
                for t in tg.row(j - 1) {
                    sel.expr(SimpleExpr::Value(t.into()));
                }
                sel.from(Alias::new("src"));
                let got = guard(|| stmt.select_from(sel).map(|_| ()));
                match &got {
                    Ok(Err(Error::ColValNumMismatch { col_len, val_len })) if *col_len == m.cols.len() && *val_len == j => {
                        failed = true;
                        rep.count("errors_returned_and_checked", 1);
                    }
                    _ => {
                        rule_fail = Some((
                            "R.result",
                            format!("select_from (wildcard first) cols={} items={j}: must be rejected", m.cols.len()),
                            json!({"got": format!("{got:?}")}),
                        ));
                    }
                }
            }
            Call::OrDefault => {
                stmt.or_default_values();
                m.default = Some(1);
            }
            Call::OrDefaultMany(k) => {
                stmt.or_default_values_many(k);
                m.default = Some(k);
            }
        }
        if let Some((rule, sig, detail)) = rule_fail {
            rep.violation(rule, "-", sig, json!({"history": hist(), "step": step, "detail": detail}), ctx.shard, n);
            return;
        }
        if results_only {
            rep.count("calls_checked_after_redeclaration", 1);
            continue;
        }
        let after_sql = match guard(|| render3(&stmt)) {
            Ok(s) => s,
            Err(p) => {
                rep.violation("R.panic", "-", vcore::run::panic_sig(&p), json!({"history": hist(), "step": step, "panic": p}), ctx.shard, n);
                return;
            }
        };
        // every entry point renders the same statement: the statically dispatched `to_string` / `build` against
        // the `dyn` ones
        {
            let r = guard(|| {
                let mut out: Vec<(&'static str, String, String)> = vec![];
                let any = |d: Dialect| {
                    let (p, v) = stmt.build_any(qb(d));
                    format!("{p} {v:?}")
                };
                let (p, v) = stmt.build(sea_query::MysqlQueryBuilder);
                out.push(("mysql build", format!("{p} {v:?}"), any(Dialect::Mysql)));
                let (p, v) = stmt.build(sea_query::PostgresQueryBuilder);
                out.push(("postgres build", format!("{p} {v:?}"), any(Dialect::Postgres)));
                let (p, v) = stmt.build(sea_query::SqliteQueryBuilder);
                out.push(("sqlite build", format!("{p} {v:?}"), any(Dialect::Sqlite)));
                out.push(("mysql to_string", stmt.to_string(sea_query::MysqlQueryBuilder), after_sql[Dialect::ALL.iter().position(|x| *x == Dialect::Mysql).unwrap()].clone()));
                out.push(("postgres to_string", stmt.to_string(sea_query::PostgresQueryBuilder), after_sql[Dialect::ALL.iter().position(|x| *x == Dialect::Postgres).unwrap()].clone()));
                out.push(("sqlite to_string", stmt.to_string(sea_query::SqliteQueryBuilder), after_sql[Dialect::ALL.iter().position(|x| *x == Dialect::Sqlite).unwrap()].clone()));
                out
            });
            match r {
                Ok(pairs) => {
                    rep.count("entry_point_pairs_compared", pairs.len() as u64);
                    if let Some((which, a, b)) = pairs.into_iter().find(|(_, a, b)| a != b) {
                        rep.violation("R.entry", "-", format!("{which} differs from the dyn entry point after {call:?}"), json!({"history": hist(), "step": step, "static": a, "dyn": b}), ctx.shard, n);
                        return;
                    }
                }
                Err(p) => {
                    rep.violation("R.panic", "-", vcore::run::panic_sig(&p), json!({"history": hist(), "step": step, "panic": p}), ctx.shard, n);
                    return;
                }
            }
        }
        if failed && (stmt != before || after_sql != before_sql) {
            rep.violation(
                "R.unchanged-after-error",
                "-",
                format!("{call:?}"),
                json!({"history": hist(), "step": step, "before": before_sql, "after": after_sql}),
                ctx.shard,
                n,
            );
            return;
        }
        // --- rendering vs model on all three backends
        for (di, d) in Dialect::ALL.iter().enumerate() {
            let want = expected(&m, *d);
            let seen = parse(*d, &after_sql[di]);
            rep.count("renderings_compared", 1);
            let ok = matches!(&seen, Ok(s) if *s == want);
            if !ok {
                rep.violation(
                    "R.render-matches-model",
                    d.name(),
                    format!("after {call:?}: rendered list differs from model"),
                    json!({"history": hist(), "step": step, "sql": after_sql[di], "model": format!("{want:?}"), "seen": format!("{seen:?}")}),
                    ctx.shard,
                    n,
                );
                return;
            }
            let rect = match &want {
                Seen::Values(c, rows) => rows.iter().all(|r| r.len() == c.len()),
                Seen::Select(c, items) => c.len() == items.len(),
                _ => true,
            };
            if !rect {
                let sig = if m.redeclared {
                    "columns() re-declared with a different arity after a source was accepted: rows keep the old width".to_string()
                } else {
                    format!("after {call:?}: non-rectangular without re-declaration")
                };
                rep.violation(
                    "R.rectangular",
                    "*",
                    sig,
                    json!({"history": hist(), "step": step, "sql": after_sql[di]}),
                    ctx.shard,
                    n,
                );
                if !m.redeclared {
                    return;
                }
                results_only = true;
                break;
            }
        }
    }
    if seq.len() >= 2 {
        rep.nontrivial(vcore::prng::hash_str(&hist()));
    }
    if n % 20011 == 3 {
        rep.sample(json!({"history": hist(), "final_sql": render3(&stmt)}));
    }
}

pub fn check(ctx: &Ctx, rep: &mut Report) {
    let ks = kinds();
    let k = ks.len() as u64;
    let max_len = ctx.size(4, 5);
    // enumerate all sequences of length 1..=max_len
    let mut total = 0u64;
    let mut offsets = vec![];
    for l in 1..=max_len {
        offsets.push(total);
        total += k.pow(l as u32);
    }
    let mut n = match ctx.replay {
        Some((_, c)) => c,
        None => ctx.shard,
    };
    while n < total {
        let l = (0..offsets.len()).rev().find(|i| offsets[*i] <= n).unwrap();
        let mut idx = n - offsets[l];
        let mut seq = vec![];
        for _ in 0..=l {
            seq.push(ks[(idx % k) as usize]);
            idx /= k;
        }
        run_seq(ctx, rep, n, &seq);
        if ctx.replay.is_some() {
            return;
        }
        n += ctx.nshards;
    }
    if ctx.shard == 0 && ctx.replay.is_none() {
        rep.exhaustive_parts.push(format!(
            "all call sequences of length <= {max_len} over {k} concrete call kinds ({total} histories), each checked after every call on 3 backends"
        ));
    }
    // random longer sequences
    let nrand = ctx.size(100_000, 4_000_000) / ctx.nshards;
    for r in 0..nrand {
        let n = total + r;
        if !ctx.wants(n) {
            continue;
        }
        crate::apply::set_route_seed(ctx.seed ^ n.wrapping_mul(0x9E3779B97F4A7C15));
        let mut rng = ctx.rng("rand", r);
        let len = 5 + rng.below(8);
        let seq: Vec<Call> = (0..len).map(|_| ks[rng.below(ks.len())]).collect();
        run_seq(ctx, rep, n, &seq);
    }
}
