//! Small helpers shared by the property drivers.

use sea_query::{MysqlQueryBuilder, PostgresQueryBuilder, QueryBuilder, SchemaBuilder, SqliteQueryBuilder};
pub use vcore::lex::Dialect;

pub fn qb(d: Dialect) -> &'static dyn QueryBuilder {
    match d {
        Dialect::Mysql => &MysqlQueryBuilder,
        Dialect::Postgres => &PostgresQueryBuilder,
        Dialect::Sqlite => &SqliteQueryBuilder,
    }
}

pub fn sb(d: Dialect) -> &'static dyn SchemaBuilder {
    match d {
        Dialect::Mysql => &MysqlQueryBuilder,
        Dialect::Postgres => &PostgresQueryBuilder,
        Dialect::Sqlite => &SqliteQueryBuilder,
    }
}

/// Number of strings over an alphabet of `k` symbols with length <= `max_len`.
pub fn count_strings(k: usize, max_len: usize) -> u64 {
    let mut total = 0u64;
    let mut p = 1u64;
    for _ in 0..=max_len {
        total += p;
        p *= k as u64;
    }
    total
}

/// The `idx`-th string (shortlex order) over `alpha`.
pub fn nth_string(alpha: &[char], mut idx: u64) -> String {
    let k = alpha.len() as u64;
    let mut len = 0usize;
    let mut p = 1u64;
    while idx >= p {
        idx -= p;
        p *= k;
        len += 1;
    }
    let mut digits = vec![0usize; len];
    for d in digits.iter_mut().rev() {
        *d = (idx % k) as usize;
        idx /= k;
    }
    digits.iter().map(|d| alpha[*d]).collect()
}

/// Printable rendering of a string for signatures / samples (escapes control chars).
pub fn show(s: &str) -> String {
    let mut o = String::new();
    for c in s.chars() {
        if (c as u32) < 0x20 || c == '\x7f' {
            o.push_str(&format!("\\u{{{:02x}}}", c as u32));
        } else {
            o.push(c);
        }
    }
    o
}

/// Class of a char for normalised signatures: escape-relevant chars stay, others collapse.
pub fn char_class(c: char) -> String {
    match c {
        '\'' | '"' | '`' | '\\' | '%' | '_' | '?' | '$' | '[' | ']' | ';' | '-' | '.' | ' ' => c.to_string(),
        '\0' => "NUL".into(),
        '\x08' => "BS".into(),
        '\t' => "TAB".into(),
        '\n' => "LF".into(),
        '\r' => "CR".into(),
        '\x1a' => "SUB".into(),
        c if (c as u32) < 0x20 => "CTRL".into(),
        c if c.is_ascii_alphanumeric() => "a".into(),
        c if (c as u32) < 0x80 => "p".into(),
        c if (c as u32) < 0x100 => "L1".into(),
        c if (c as u32) < 0x10000 => "BMP".into(),
        _ => "ASTRAL".into(),
    }
}

/// Intern a name as &'static str (bounded: names come from a small set).
pub fn intern(s: &str) -> &'static str {
    use std::collections::HashSet;
    use std::sync::Mutex;
    static TABLE: Mutex<Option<HashSet<&'static str>>> = Mutex::new(None);
    let mut g = TABLE.lock().unwrap();
    let t = g.get_or_insert_with(HashSet::new);
    if let Some(x) = t.get(s) {
        return x;
    }
    let l: &'static str = Box::leak(s.to_string().into_boxed_str());
    t.insert(l);
    l
}
