//! C01 — placeholders and bound values correspond one-to-one, in order.

use crate::apply;
use crate::gen::{clause_kinds, Cfg, Gen};
use crate::refsql::{self, Ref};
use crate::render::trace;
use crate::spec::*;
use crate::util::*;
use sea_query::Value;
use serde_json::json;
use vcore::lex::{lex, Tok, Token};
use vcore::prng::hash_str;
use vcore::report::Report;
use vcore::run::{guard, panic_sig, Ctx};

fn vshow(v: &[Value]) -> String {
    format!("{v:?}")
}

fn veq(a: &[Value], b: &[Value]) -> bool {
    // Debug form: exact for every variant incl. floats
    a.len() == b.len() && a.iter().zip(b).all(|(x, y)| format!("{x:?}") == format!("{y:?}"))
}

/// For each placeholder: the nearest preceding token that is not a parenthesis (its short form).
fn left_contexts(toks: &[Token]) -> Vec<String> {
    let mut out = vec![];
    for (i, t) in toks.iter().enumerate() {
        if let Tok::Param(_) = t.tok {
            let mut j = i;
            let mut ctx = "<start>".to_string();
            while j > 0 {
                j -= 1;
                match &toks[j].tok {
                    Tok::LParen | Tok::RParen => continue,
                    other => {
                        ctx = other.short();
                        break;
                    }
                }
            }
            out.push(ctx);
        }
    }
    out
}

fn nesting_depth(s: &Stmt) -> usize {
    // depth of subquery nesting, estimated from the reference text
    let mut r = Ref::new(Dialect::Sqlite, false);
    let t = refsql::stmt(&mut r, s);
    let toks = match lex(Dialect::Sqlite, &t) {
        Ok(t) => t,
        Err(_) => return 0,
    };
    let mut depth = 0usize;
    let mut stack: Vec<bool> = vec![];
    let mut max = 0;
    for (i, t) in toks.iter().enumerate() {
        match &t.tok {
            Tok::LParen => {
                let is_sub = toks.get(i + 1).map(|n| n.tok.is_word("SELECT") || n.tok.is_word("WITH")).unwrap_or(false);
                stack.push(is_sub);
                if is_sub {
                    depth += 1;
                    max = max.max(depth);
                }
            }
            Tok::RParen => {
                if stack.pop() == Some(true) {
                    depth -= 1;
                }
            }
            _ => {}
        }
    }
    max
}

pub fn check_spec(ctx: &Ctx, rep: &mut Report, n: u64, d: Dialect, spec: &Stmt) {
    rep.eval();
    apply::set_route_seed(ctx.seed ^ n.wrapping_mul(0x9E3779B97F4A7C15));
    let r = guard(|| {
        let b = apply::stmt(spec);
        let (sql, vals) = b.build(qb(d));
        let tr = trace(&b, d);
        (sql, vals.0, tr)
    });
    let kinds = clause_kinds(spec);
    let sigk = || format!("{} [{}]", spec.kind(), kinds.join(","));
    let (sql, vals, tr) = match r {
        Ok(x) => x,
        Err(p) => {
            rep.violation("R.panic", d.name(), format!("{} {}", spec.kind(), panic_sig(&p)), json!({"panic": p, "spec": format!("{spec:?}")}), ctx.shard, n);
            return;
        }
    };
    let fail = |rep: &mut Report, rule: &str, what: &str, extra: serde_json::Value| {
        rep.violation(rule, d.name(), format!("{what}: {}", sigk()), json!({"sql": sql, "values": vshow(&vals), "detail": extra}), ctx.shard, n);
    };
    // R.count / R.number
    let toks = match lex(d, &sql) {
        Ok(t) => t,
        Err(e) => {
            fail(rep, "R.count", "parameterised SQL does not lex", json!({"lex_error": e.msg}));
            return;
        }
    };
    let phs: Vec<&Tok> = toks.iter().map(|t| &t.tok).filter(|t| matches!(t, Tok::Param(_))).collect();
    if phs.len() != vals.len() {
        fail(rep, "R.count", "placeholder count differs from value count", json!({"placeholders": phs.len(), "values": vals.len()}));
        return;
    }
    for (i, p) in phs.iter().enumerate() {
        let ok = match (d, p) {
            (Dialect::Postgres, Tok::Param(Some(k))) => *k as usize == i + 1,
            (Dialect::Postgres, _) => false,
            (_, Tok::Param(None)) => true,
            _ => false,
        };
        if !ok {
            fail(rep, "R.number", "placeholder spelling / numbering", json!({"index": i, "token": p.short()}));
            return;
        }
    }
    rep.count("placeholders_matched", phs.len() as u64);
    rep.max("max_values_per_statement", vals.len() as u64);
    if d == Dialect::Postgres && vals.len() >= 10 {
        rep.count("postgres_statements_with_10_or_more_values", 1);
    }
    // R.trace
    let (tsql, tvals) = tr.reconstruct(d);
    if tsql != sql || !veq(&tvals, &vals) {
        fail(rep, "R.trace", "event stream of a custom SqlWriter disagrees with build()", json!({"trace_sql": tsql, "trace_values": vshow(&tvals)}));
        return;
    }
    // R.values (conservation, order) against the reference renderer in parameter mode
    let mut rr = Ref::new(d, true);
    let ref_sql = refsql::stmt(&mut rr, spec);
    if !veq(&rr.vals, &vals) {
        fail(rep, "R.values", "returned values differ from the values supplied, in reading order", json!({"expected_values": vshow(&rr.vals), "reference": ref_sql}));
        return;
    }
    // R.site: the token in front of each placeholder
    if let Ok(rt) = lex(d, &ref_sql) {
        let a = left_contexts(&toks);
        let b = left_contexts(&rt);
        if a != b {
            let i = a.iter().zip(b.iter()).position(|(x, y)| x != y).unwrap_or(0);
            fail(rep, "R.site", "placeholder sits after a different token than in the reference", json!({"index": i, "actual_context": a.get(i), "reference_context": b.get(i), "reference": ref_sql}));
            return;
        }
    } else {
        rep.inconclusive("reference does not lex");
    }
    let depth = nesting_depth(spec);
    rep.count(&format!("depth.{}", depth.min(5)), 1);
    for k in &kinds {
        rep.count(&format!("clause.{k}"), 1);
    }
    if d == Dialect::Mysql && kinds.contains(&"update-from") {
        rep.count("mysql_rerouted_updates", 1);
    }
    if vals.len() >= 2 && (depth >= 1 || (d == Dialect::Mysql && kinds.contains(&"update-from"))) {
        rep.nontrivial(hash_str(&sql) ^ (d as u64) << 62);
    }
    if n % 1201 == 3 {
        rep.sample(json!({"backend": d.name(), "sql": sql, "values": vshow(&vals)}));
    }
}

/// Directed case outside the random workload: a MySQL UPDATE with two FROM tables. Dropping the second
/// table is a listed C08 finding (pinned there); for C01 the values of the re-routed condition must still
/// be bound exactly once, in reading order.
fn directed(ctx: &Ctx, rep: &mut Report) {
    use crate::xspec::{b, X};
    let n = 1u64 << 50;
    if (ctx.replay.is_none() && ctx.shard != 0) || !ctx.wants(n) {
        return;
    }
    let spec = Stmt::Upd(Upd {
        with: None,
                alias: None,
        table: "t1".into(),
        sets: vec![("a".into(), X::Int(1011))],
        from: vec![From_::Table("t2".into(), None), From_::Table("t3".into(), None)],
        wheres: vec![
            X::Bin(b(X::QCol("t1".into(), "id".into())), sea_query::BinOper::Equal, b(X::QCol("t2".into(), "t1_id".into()))),
            X::Bin(b(X::QCol("t2".into(), "x".into())), sea_query::BinOper::GreaterThan, b(X::Int(1099))),
            X::In(b(X::QCol("t3".into(), "k".into())), false, vec![X::Int(1007), X::Int(1008)]),
        ],
        orders: vec![],
        limit: None,
        returning: None,
    });
    check_spec(ctx, rep, n, Dialect::Mysql, &spec);
}

pub fn check(ctx: &Ctx, rep: &mut Report) {
    directed(ctx, rep);
    let total = ctx.size(40_000, 6_000_000) / ctx.nshards;
    for k in 0..total {
        if !ctx.wants(k) {
            continue;
        }
        for d in Dialect::ALL {
            let mut rng = ctx.rng("stmt", k * 3 + d as u64);
            let spec = {
                let mut g = Gen::new(&mut rng, Cfg::text(d));
                g.statement()
            };
            if ctx.verbose {
                println!("{d:?} spec: {spec:#?}");
            }
            check_spec(ctx, rep, k, d, &spec);
        }
        // portable statements rendered on all three
        let mut rng = ctx.rng("portable", k);
        let mut cfg = Cfg::portable_exec();
        cfg.tags = true;
        let spec = {
            let mut g = Gen::new(&mut rng, cfg);
            g.statement()
        };
        for d in Dialect::ALL {
            check_spec(ctx, rep, k, d, &spec);
        }
    }
}
