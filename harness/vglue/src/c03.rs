//! C03 — inlined text / char / binary literals decode to exactly the supplied value.
//!
//! Oracle: the dialect lexer (written from the engine manuals) must see the same
//! token sequence as for a benign marker value, with exactly one literal token in
//! the slot, and that token must decode to the supplied value. On SQLite the real
//! engine decodes as well.

use crate::util::*;
use sea_query::extension::postgres::Type;
use sea_query::*;
use serde_json::json;
use std::collections::HashMap;
use vcore::lex::{lex, shorts, Tok, Token};
use vcore::prng::hash_str;
use vcore::report::Report;
use vcore::run::{guard, panic_sig, Ctx};
use vcore::sqlite::{Db, SqlVal};

const MARK: &str = "MARKERxq";
const MARK_BYTES: &[u8] = b"\x4d\x41\x52\x4b";

pub const ALPHA: [char; 21] = [
    '\'', '"', '\\', '\0', '\x08', '\t', '\n', '\r', '\x1a', '%', '_', 'a', 'z', 'Z', '0', 'x', 'é', '€', '𝄞', '?', '$',
];

#[derive(Clone, Copy, Debug, PartialEq, Eq, Hash)]
pub enum Pos {
    Val,
    Constant,
    ConstantInBuild,
    FieldOrder,
    LikePattern,
    LikePatternEscaped,
    Json,
    PgArray,
    Default,
    MysqlColComment,
    MysqlTableComment,
    MysqlEnumLabel,
    PgCreateEnum,
    PgAlterAddValue,
    PgAlterAddBefore,
    PgAlterRenameValue,
    Inject,
    InsertValue,
    UpdateValue,
    PgArrayDefault,
    AlterAddDefault,
    AlterModifyDefault,
    MysqlAlterColComment,
    IndexFilterLiteral,
    CheckLiteral,
    /// a JSON document that is nothing but a string
    JsonTop,
    /// inject_parameters with the same numbered placeholder used twice (Postgres)
    InjectTwice,
}

const TEXT_POSITIONS: [Pos; 27] = [
    Pos::Val,
    Pos::Constant,
    Pos::ConstantInBuild,
    Pos::FieldOrder,
    Pos::LikePattern,
    Pos::LikePatternEscaped,
    Pos::Json,
    Pos::PgArray,
    Pos::Default,
    Pos::MysqlColComment,
    Pos::MysqlTableComment,
    Pos::MysqlEnumLabel,
    Pos::PgCreateEnum,
    Pos::PgAlterAddValue,
    Pos::PgAlterAddBefore,
    Pos::PgAlterRenameValue,
    Pos::Inject,
    Pos::InsertValue,
    Pos::UpdateValue,
    Pos::PgArrayDefault,
    Pos::AlterAddDefault,
    Pos::AlterModifyDefault,
    Pos::MysqlAlterColComment,
    Pos::IndexFilterLiteral,
    Pos::CheckLiteral,
    Pos::JsonTop,
    Pos::InjectTwice,
];

fn a(s: &str) -> Alias {
    Alias::new(s)
}

/// The inline rendering of a select through one of its equivalent entry points.
trait InlineRouted {
    fn inline_routed(&self, d: Dialect) -> String;
}
macro_rules! inline_routed {
    ($t:ty) => {
        impl InlineRouted for $t {
            fn inline_routed(&self, d: Dialect) -> String {
                let mut out = String::new();
                match (crate::apply::route(3), d) {
                    (0, _) => self.build_collect_any(qb(d), &mut out),
                    (1, Dialect::Mysql) => self.to_string(MysqlQueryBuilder),
                    (1, Dialect::Postgres) => self.to_string(PostgresQueryBuilder),
                    (1, Dialect::Sqlite) => self.to_string(SqliteQueryBuilder),
                    (_, Dialect::Mysql) => self.build_collect(MysqlQueryBuilder, &mut out),
                    (_, Dialect::Postgres) => self.build_collect(PostgresQueryBuilder, &mut out),
                    (_, Dialect::Sqlite) => self.build_collect(SqliteQueryBuilder, &mut out),
                }
            }
        }
    };
}
inline_routed!(SelectStatement);
inline_routed!(InsertStatement);
inline_routed!(UpdateStatement);

/// A schema statement through one of its equivalent entry points.
trait SchemaRouted {
    fn schema_routed(&self, d: Dialect) -> String;
}
impl<T: SchemaStatementBuilder> SchemaRouted for T {
    fn schema_routed(&self, d: Dialect) -> String {
        crate::ddl::render_schema(self, d)
    }
}

/// Render value `v` at position `p` for backend `d`. None = position does not exist for the backend.
fn render_text(p: Pos, d: Dialect, v: &str) -> Option<String> {
    let q = qb(d);
    Some(match p {
        Pos::Val => {
            Query::select().expr(Expr::val(v)).inline_routed(d)
        }
        Pos::Constant => {
            Query::select()
                .expr(SimpleExpr::Constant(v.into()))
                .inline_routed(d)
        }
        Pos::ConstantInBuild => Query::select().expr(SimpleExpr::Constant(v.into())).build_any(q).0,
        Pos::FieldOrder => {
            Query::select()
                .column(a("c"))
                .from(a("t"))
                .order_by(a("c"), Order::Field(Values(vec![v.into(), "second".into()])))
                .limit(7)
                .inline_routed(d)
        }
        Pos::LikePattern => {
            Query::select()
                .column(a("c"))
                .from(a("t"))
                .and_where(Expr::col(a("c")).like(v))
                .inline_routed(d)
        }
        Pos::LikePatternEscaped => {
            Query::select()
                .column(a("c"))
                .from(a("t"))
                .and_where(Expr::col(a("c")).like(LikeExpr::new(v).escape('!')))
                .inline_routed(d)
        }
        Pos::Json => {
            Query::select()
                .expr(Expr::val(serde_json::json!({ "k": v })))
                .inline_routed(d)
        }
        Pos::PgArray => {
            if d != Dialect::Postgres {
                return None;
            }
            Query::select()
                .expr(Expr::val(Value::Array(
                    ArrayType::String,
                    Some(Box::new(vec![v.into(), "second".into()])),
                )))
                .inline_routed(d)
        }
        Pos::Default => Table::create()
            .table(a("t"))
            .col(ColumnDef::new(a("c")).text().default(v))
            .schema_routed(d),
        Pos::PgArrayDefault => {
            if d != Dialect::Postgres {
                return None;
            }
            Table::create()
                .table(a("t"))
                .col(ColumnDef::new(a("c")).array(ColumnType::Text).default(Value::Array(ArrayType::String, Some(Box::new(vec![v.into(), "second".into()])))))
                .schema_routed(d)
        }
        Pos::AlterAddDefault => Table::alter().table(a("t")).add_column(ColumnDef::new(a("c")).text().default(v)).schema_routed(d),
        Pos::AlterModifyDefault => {
            if d == Dialect::Sqlite {
                return None;
            }
            Table::alter().table(a("t")).modify_column(ColumnDef::new(a("c")).text().default(v)).schema_routed(d)
        }
        Pos::MysqlAlterColComment => {
            if d != Dialect::Mysql {
                return None;
            }
            Table::alter().table(a("t")).add_column(ColumnDef::new(a("c")).text().comment(v)).schema_routed(d)
        }
        Pos::IndexFilterLiteral => {
            if d == Dialect::Mysql {
                return None;
            }
            Index::create().name("ix").table(a("t")).col(a("c")).and_where(Expr::col(a("c")).ne(v)).schema_routed(d)
        }
        Pos::CheckLiteral => Table::create().table(a("t")).col(ColumnDef::new(a("c")).text()).check(Expr::col(a("c")).ne(v)).schema_routed(d),
        Pos::MysqlColComment => {
            if d != Dialect::Mysql {
                return None;
            }
            Table::create()
                .table(a("t"))
                .col(ColumnDef::new(a("c")).text().comment(v))
                .schema_routed(d)
        }
        Pos::MysqlTableComment => {
            if d != Dialect::Mysql {
                return None;
            }
            Table::create()
                .table(a("t"))
                .comment(v)
                .col(ColumnDef::new(a("c")).text())
                .schema_routed(d)
        }
        Pos::MysqlEnumLabel => {
            if d != Dialect::Mysql {
                return None;
            }
            Table::create()
                .table(a("t"))
                .col(ColumnDef::new(a("c")).enumeration(a("e"), [a(v), a("second")]))
                .schema_routed(d)
        }
        Pos::PgCreateEnum => {
            if d != Dialect::Postgres {
                return None;
            }
            Type::create()
                .as_enum(a("e"))
                .values([a(v), a("second")])
                .to_string(PostgresQueryBuilder)
        }
        Pos::PgAlterAddValue => {
            if d != Dialect::Postgres {
                return None;
            }
            Type::alter().name(a("e")).add_value(a(v)).to_string(PostgresQueryBuilder)
        }
        Pos::PgAlterAddBefore => {
            if d != Dialect::Postgres {
                return None;
            }
            Type::alter()
                .name(a("e"))
                .add_value(a("newv"))
                .before(a(v))
                .to_string(PostgresQueryBuilder)
        }
        Pos::PgAlterRenameValue => {
            if d != Dialect::Postgres {
                return None;
            }
            Type::alter()
                .name(a("e"))
                .rename_value(a(v), a("second"))
                .to_string(PostgresQueryBuilder)
        }
        Pos::Inject => {
            let tpl = match d {
                Dialect::Postgres => "SELECT $1, 'lit'",
                _ => "SELECT ?, 'lit'",
            };
            inject_parameters(tpl, vec![Value::from(v)], q)
        }
        Pos::JsonTop => Query::select().expr(Expr::val(serde_json::Value::String(v.to_string()))).inline_routed(d),
        Pos::InjectTwice => {
            if d != Dialect::Postgres {
                return None;
            }
            inject_parameters("SELECT $1, 'lit', $2, $1", vec![Value::from(v), Value::from(7)], q)
        }
        Pos::InsertValue => {
            Query::insert()
                .into_table(a("t"))
                .columns([a("c"), a("d")])
                .values_panic([v.into(), 1.into()])
                .inline_routed(d)
        }
        Pos::UpdateValue => {
            Query::update()
                .table(a("t"))
                .value(a("c"), v)
                .and_where(Expr::col(a("d")).eq(v))
                .inline_routed(d)
        }
    })
}

fn special_classes(v: &str) -> String {
    let mut set = std::collections::BTreeSet::new();
    for c in v.chars() {
        let k = char_class(c);
        if k != "a" && k != "L1" && k != "BMP" && k != "ASTRAL" && k != "p" {
            set.insert(k);
        }
    }
    set.into_iter().collect::<Vec<_>>().join(" ")
}

fn first_diff_sig(want: &str, got: &str) -> String {
    let ac: Vec<char> = want.chars().collect();
    let bc: Vec<char> = got.chars().collect();
    let mut i = 0;
    while i < ac.len() && i < bc.len() && ac[i] == bc[i] {
        i += 1;
    }
    let l = ac.get(i).map(|c| char_class(*c)).unwrap_or("END".into());
    let r = bc.get(i).map(|c| char_class(*c)).unwrap_or("END".into());
    format!("{l} -> {r}")
}

/// What the slot token decodes to, as text.
fn slot_text(p: Pos, t: &Tok) -> Option<String> {
    match (p, t) {
        (Pos::JsonTop, Tok::Str(s)) => {
            let j: serde_json::Value = serde_json::from_str(s).ok()?;
            j.as_str().map(|x| x.to_string())
        }
        (Pos::Json, Tok::Str(s)) => {
            let j: serde_json::Value = serde_json::from_str(s).ok()?;
            j.get("k")?.as_str().map(|x| x.to_string())
        }
        // Postgres also accepts an array as one constant in array-literal syntax: '{"a","b"}'
        (Pos::PgArray | Pos::PgArrayDefault, Tok::Str(s)) if s.starts_with('{') && s.ends_with('}') => pg_array_first_element(s),
        (_, Tok::Str(s)) => Some(s.clone()),
        _ => None,
    }
}

/// First element of a one-dimensional Postgres array literal (`{elem,elem}`; an element is bare, or
/// double-quoted with backslash escaping the next character).
fn pg_array_first_element(s: &str) -> Option<String> {
    let cs: Vec<char> = s.chars().collect();
    let mut i = 1;
    let mut out = String::new();
    if cs.get(i) == Some(&'"') {
        i += 1;
        loop {
            match cs.get(i)? {
                '\\' => {
                    out.push(*cs.get(i + 1)?);
                    i += 2;
                }
                '"' => return Some(out),
                c => {
                    out.push(*c);
                    i += 1;
                }
            }
        }
    }
    while let Some(c) = cs.get(i) {
        if *c == ',' || *c == '}' {
            break;
        }
        out.push(*c);
        i += 1;
    }
    Some(out)
}

type Template = Result<(Vec<Token>, Vec<usize>), String>;

struct Templates {
    map: HashMap<(Pos, Dialect), Option<Template>>,
}

impl Templates {
    /// The token sequence of the position rendered with a plain marker value, and where the marker sits.
    /// `Err`: even the plain value does not come out as one literal token (reported by the caller).
    fn get(&mut self, p: Pos, d: Dialect) -> &Option<Template> {
        self.map.entry((p, d)).or_insert_with(|| {
            let sql = match guard(|| render_text(p, d, MARK)) {
                Ok(s) => s?,
                Err(e) => return Some(Err(format!("rendering with the plain value {MARK} panicked: {e}"))),
            };
            let toks = match lex(d, &sql) {
                Ok(t) => t,
                Err(e) => return Some(Err(format!("rendering with the plain value {MARK} does not lex: {sql}: {}", e.msg))),
            };
            let slots: Vec<usize> = toks
                .iter()
                .enumerate()
                .filter(|(_, t)| slot_text(p, &t.tok).as_deref() == Some(MARK))
                .map(|(i, _)| i)
                .collect();
            if slots.is_empty() {
                return Some(Err(format!("the plain value {MARK} is not written as a literal: {sql}")));
            }
            // positions that take the value twice must show it twice
            if matches!(p, Pos::InjectTwice | Pos::UpdateValue) && slots.len() != 2 {
                return Some(Err(format!("the plain value {MARK} is given twice but written {} time(s): {sql}", slots.len())));
            }
            Some(Ok((toks, slots)))
        })
    }
}

fn tok_eq_ignoring_pos(a: &Tok, b: &Tok) -> bool {
    a == b
}

#[allow(clippy::too_many_arguments)]
fn check_text(
    ctx: &Ctx,
    rep: &mut Report,
    tpl: &mut Templates,
    db: &Db,
    n: u64,
    p: Pos,
    d: Dialect,
    v: &str,
    sample: bool,
) {
    if v.contains('\0') && d != Dialect::Mysql {
        return; // no representation for NUL in Postgres / SQLite text (property's own exclusion)
    }
    let (tt, slots) = match tpl.get(p, d) {
        Some(Ok(x)) => x.clone(),
        Some(Err(e)) => {
            rep.eval();
            rep.violation("R.literal.lex", d.name(), format!("{p:?}: plain value"), json!({"position": format!("{p:?}"), "error": e}), ctx.shard, n);
            return;
        }
        None => return,
    };
    rep.eval();
    rep.count(&format!("pos.{p:?}"), 1);
    let sql = match guard(|| render_text(p, d, v)) {
        Ok(Some(s)) => s,
        Ok(None) => return,
        Err(pm) => {
            rep.violation(
                "R.panic",
                d.name(),
                format!("{p:?}: {}", panic_sig(&pm)),
                json!({"position": format!("{p:?}"), "value": show(v), "panic": pm}),
                ctx.shard,
                n,
            );
            return;
        }
    };
    let sigbase = format!("{p:?} [{}]", special_classes(v));
    let toks = match lex(d, &sql) {
        Ok(t) => t,
        Err(e) => {
            rep.violation(
                "R.literal.lex",
                d.name(),
                sigbase,
                json!({"position": format!("{p:?}"), "value": show(v), "sql": show(&sql), "lex_error": e.msg, "at": e.at}),
                ctx.shard,
                n,
            );
            return;
        }
    };
    if toks.len() != tt.len() {
        rep.violation(
            "R.literal.tokens",
            d.name(),
            sigbase,
            json!({"position": format!("{p:?}"), "value": show(v), "sql": show(&sql),
                   "expected_tokens": shorts(&tt), "got_tokens": shorts(&toks)}),
            ctx.shard,
            n,
        );
        return;
    }
    for (i, (x, y)) in tt.iter().zip(toks.iter()).enumerate() {
        if slots.contains(&i) {
            match slot_text(p, &y.tok) {
                Some(got) if got == v => {}
                Some(got) => {
                    rep.violation(
                        "R.literal.decode",
                        d.name(),
                        format!("{p:?}: {}", first_diff_sig(v, &got)),
                        json!({"position": format!("{p:?}"), "value": show(v), "sql": show(&sql), "decoded": show(&got)}),
                        ctx.shard,
                        n,
                    );
                    return;
                }
                None => {
                    rep.violation(
                        "R.literal.tokens",
                        d.name(),
                        sigbase,
                        json!({"position": format!("{p:?}"), "value": show(v), "sql": show(&sql), "slot_token": y.tok.short()}),
                        ctx.shard,
                        n,
                    );
                    return;
                }
            }
        } else if !tok_eq_ignoring_pos(&x.tok, &y.tok) {
            rep.violation(
                "R.literal.tokens",
                d.name(),
                sigbase,
                json!({"position": format!("{p:?}"), "value": show(v), "sql": show(&sql),
                       "expected_tokens": shorts(&tt), "got_tokens": shorts(&toks)}),
            ctx.shard,
                n,
            );
            return;
        }
    }
    rep.count("literals_decoded", slots.len() as u64);
    if v.chars().any(|c| !c.is_ascii_alphanumeric()) {
        rep.nontrivial(hash_str(v) ^ ((p as u64) << 8) ^ (d as u64));
    }
    // engine
    if d == Dialect::Sqlite {
        match p {
            Pos::Val | Pos::Constant | Pos::Inject => {
                rep.count("engine_selects", 1);
                match db.query(&sql, &[]) {
                    Ok(r) => {
                        let got = r.rows.first().and_then(|r| r.first()).cloned();
                        if got != Some(SqlVal::text(v)) {
                            rep.violation(
                                "R.literal.engine",
                                d.name(),
                                format!("{p:?}: engine value differs [{}]", special_classes(v)),
                                json!({"sql": show(&sql), "value": show(v), "engine": got.map(|g| g.show())}),
                                ctx.shard,
                                n,
                            );
                        }
                    }
                    Err(e) => rep.violation(
                        "R.literal.engine",
                        d.name(),
                        format!("{p:?}: engine rejects [{}]", special_classes(v)),
                        json!({"sql": show(&sql), "value": show(v), "error": e.msg}),
                        ctx.shard,
                        n,
                    ),
                }
            }
            Pos::Default => {
                rep.count("engine_defaults", 1);
                let r = (|| -> Result<Option<SqlVal>, vcore::sqlite::SqlErr> {
                    db.exec("SAVEPOINT c03")?;
                    let r = (|| {
                        db.exec(&sql)?;
                        db.exec("INSERT INTO \"t\" DEFAULT VALUES")?;
                        let rows = db.rows("SELECT \"c\" FROM \"t\"")?;
                        Ok(rows.first().and_then(|r| r.first()).cloned())
                    })();
                    db.exec("ROLLBACK TO c03")?;
                    db.exec("RELEASE c03")?;
                    r
                })();
                match r {
                    Ok(got) => {
                        if got != Some(SqlVal::text(v)) {
                            rep.violation(
                                "R.literal.engine",
                                d.name(),
                                format!("{p:?}: engine default differs [{}]", special_classes(v)),
                                json!({"sql": show(&sql), "value": show(v), "engine": got.map(|g| g.show())}),
                                ctx.shard,
                                n,
                            );
                        }
                    }
                    Err(e) => rep.violation(
                        "R.literal.engine",
                        d.name(),
                        format!("{p:?}: engine rejects [{}]", special_classes(v)),
                        json!({"sql": show(&sql), "value": show(v), "error": e.msg}),
                        ctx.shard,
                        n,
                    ),
                }
            }
            _ => {}
        }
    }
    if sample {
        rep.sample(json!({"position": format!("{p:?}"), "backend": d.name(), "value": show(v), "sql": show(&sql)}));
    }
}

// ---- chars -----------------------------------------------------------------

fn render_char(d: Dialect, c: char, as_escape: bool) -> String {
    if as_escape {
        // (a bound value follows the inlined escape character)
        Query::select()
            .column(a("c"))
            .from(a("t"))
            .and_where(Expr::col(a("c")).like(LikeExpr::new("pat").escape(c)))
            .and_where(Expr::col(a("c")).ne("it's"))
            .inline_routed(d)
    } else {
        Query::select().expr(Expr::val(c)).inline_routed(d)
    }
}

fn check_char(ctx: &Ctx, rep: &mut Report, db: &Db, n: u64, d: Dialect, c: char, as_escape: bool) {
    if c == '\0' && d != Dialect::Mysql {
        return;
    }
    rep.eval();
    rep.count(if as_escape { "pos.LikeEscapeChar" } else { "pos.Char" }, 1);
    let posname = if as_escape { "LikeEscapeChar" } else { "Char" };
    let sql = match guard(|| render_char(d, c, as_escape)) {
        Ok(s) => s,
        Err(pm) => {
            rep.violation(
                "R.panic",
                d.name(),
                format!("{posname} {}: {}", char_class(c), panic_sig(&pm)),
                json!({"position": posname, "char": format!("U+{:04X}", c as u32), "panic": pm}),
                ctx.shard,
                n,
            );
            return;
        }
    };
    let want_prefix = if as_escape { 9 } else { 1 };
    let ok = match lex(d, &sql) {
        Ok(toks) => {
            // (the escape character is followed by `AND c <> 'it''s'`, whose value must stay what it is)
            let tail_ok = if as_escape {
                toks.len() == want_prefix + 5 && matches!(&toks[want_prefix + 4].tok, Tok::Str(s) if s == "it's") && toks[want_prefix + 1].tok.is_word("AND")
            } else {
                toks.len() == want_prefix + 1
            };
            tail_ok && matches!(&toks[want_prefix].tok, Tok::Str(s) if s.chars().eq(std::iter::once(c)))
        }
        Err(_) => false,
    };
    if !ok {
        rep.violation(
            "R.literal.decode",
            d.name(),
            format!("{posname} {}", char_class(c)),
            json!({"position": posname, "char": format!("U+{:04X}", c as u32), "sql": show(&sql),
                   "tokens": lex(d, &sql).map(|t| shorts(&t)).unwrap_or_else(|e| format!("lex error: {}", e.msg))}),
            ctx.shard,
            n,
        );
        return;
    }
    rep.nontrivial((c as u64) << 3 | (d as u64) << 1 | as_escape as u64);
    if d == Dialect::Sqlite && !as_escape {
        rep.count("engine_selects", 1);
        let got = db.query(&sql, &[]).ok().and_then(|r| r.rows.first().and_then(|r| r.first()).cloned());
        if got != Some(SqlVal::text(&c.to_string())) {
            rep.violation(
                "R.literal.engine",
                d.name(),
                format!("Char {}", char_class(c)),
                json!({"sql": show(&sql), "engine": got.map(|g| g.show())}),
                ctx.shard,
                n,
            );
        }
    }
}

// ---- bytes -----------------------------------------------------------------

fn render_bytes(d: Dialect, b: &[u8], which: u8) -> String {
    let q = qb(d);
    match which {
        0 => Query::select().expr(Expr::val(b.to_vec())).inline_routed(d),
        1 => Query::select()
            .expr(SimpleExpr::Constant(Value::Bytes(Some(Box::new(b.to_vec())))))
            .build_any(q)
            .0,
        _ => inject_parameters(
            if d == Dialect::Postgres { "SELECT $1" } else { "SELECT ?" },
            vec![Value::from(b.to_vec())],
            q,
        ),
    }
}

fn decode_bytes_token(d: Dialect, t: &Tok) -> Option<Vec<u8>> {
    match (d, t) {
        (Dialect::Postgres, Tok::Str(s)) => {
            // bytea hex input format: \x followed by hex pairs
            let h = s.strip_prefix("\\x")?;
            if h.len() % 2 != 0 || !h.bytes().all(|c| c.is_ascii_hexdigit()) {
                return None;
            }
            Some(
                (0..h.len() / 2)
                    .map(|k| u8::from_str_radix(&h[2 * k..2 * k + 2], 16).unwrap())
                    .collect(),
            )
        }
        (Dialect::Mysql | Dialect::Sqlite, Tok::Bytes(b)) => Some(b.clone()),
        _ => None,
    }
}

fn check_bytes(ctx: &Ctx, rep: &mut Report, db: &Db, n: u64, d: Dialect, b: &[u8], which: u8) {
    rep.eval();
    rep.count("pos.Bytes", 1);
    let sql = match guard(|| render_bytes(d, b, which)) {
        Ok(s) => s,
        Err(pm) => {
            rep.violation("R.panic", d.name(), format!("Bytes: {}", panic_sig(&pm)), json!({"bytes": format!("{b:02X?}"), "panic": pm}), ctx.shard, n);
            return;
        }
    };
    let got = lex(d, &sql).ok().and_then(|toks| {
        if toks.len() == 2 && toks[0].tok.is_word("SELECT") {
            decode_bytes_token(d, &toks[1].tok)
        } else {
            None
        }
    });
    if got.as_deref() != Some(b) {
        rep.violation(
            "R.literal.decode",
            d.name(),
            format!("Bytes len{} route{}", b.len().min(3), which),
            json!({"bytes": format!("{b:02X?}"), "sql": show(&sql), "decoded": format!("{got:02X?}")}),
            ctx.shard,
            n,
        );
        return;
    }
    rep.nontrivial(vcore::prng::hash_bytes(b) ^ ((d as u64) << 4) ^ which as u64);
    if d == Dialect::Sqlite {
        rep.count("engine_selects", 1);
        let got = db.query(&sql, &[]).ok().and_then(|r| r.rows.first().and_then(|r| r.first()).cloned());
        if got != Some(SqlVal::Blob(b.to_vec())) {
            rep.violation(
                "R.literal.engine",
                d.name(),
                format!("Bytes len{}", b.len().min(3)),
                json!({"sql": show(&sql), "engine": got.map(|g| g.show())}),
                ctx.shard,
                n,
            );
        }
    }
}

pub fn check(ctx: &Ctx, rep: &mut Report) {
    let db = Db::memory();
    let mut tpl = Templates { map: HashMap::new() };
    let _ = MARK_BYTES;
    // 1. bounded-exhaustive strings over the escape-relevant alphabet, every position, every backend
    let max_len = ctx.size(3, 4) as usize;
    let total = count_strings(ALPHA.len(), max_len);
    let mut n = match ctx.replay {
        Some((_, c)) => c,
        None => ctx.shard,
    };
    while n < total {
        let v = nth_string(&ALPHA, n);
        for (pi, p) in TEXT_POSITIONS.iter().enumerate() {
            for d in Dialect::ALL {
                let sample = n % 1009 == 3 && pi as u64 == (n / 1009) % 19 && d as u64 == n % 3;
                check_text(ctx, rep, &mut tpl, &db, n, *p, d, &v, sample);
            }
        }
        if ctx.replay.is_some() {
            return;
        }
        n += ctx.nshards;
    }
    if ctx.shard == 0 && ctx.replay.is_none() {
        rep.exhaustive_parts.push(format!(
            "all strings over the 21-symbol escape alphabet up to length {max_len} ({total}) x 19 literal positions x 3 backends"
        ));
    }
    let mut base = total;
    // 2. random unicode strings
    let nrand = ctx.size(50_000, 10_000_000) / ctx.nshards;
    for k in 0..nrand {
        let n = base + k;
        if !ctx.wants(n) {
            continue;
        }
        crate::apply::set_route_seed(ctx.seed ^ n.wrapping_mul(0x9E3779B97F4A7C15));
        let mut rng = ctx.rng("rand", k);
        let mut v = rng.string_from(&ALPHA, 64, true);
        if rng.chance(1, 150) {
            // long values around the sizes engines document as limits (comments, labels, names): a plain
            // filler with the random value in front, in the middle or at the very end
            let len = *rng.pick(&[255usize, 256, 1023, 1024, 2047, 2048, 4096, 65_535, 70_000]);
            let filler: String = std::iter::repeat(*rng.pick(&['x', 'é', ' '])).take(len.saturating_sub(v.chars().count())).collect();
            v = match rng.below(3) {
                0 => format!("{v}{filler}"),
                1 => format!("{}{v}{}", &filler[..filler.len() / 2 - filler.len() / 2 % 2], &filler[filler.len() / 2 - filler.len() / 2 % 2..]),
                _ => format!("{filler}{v}"),
            };
            rep.count("long_values", 1);
        }
        let p = *rng.pick(&TEXT_POSITIONS);
        for d in Dialect::ALL {
            check_text(ctx, rep, &mut tpl, &db, n, p, d, &v, k % 5000 == 1);
        }
    }
    base += 1 << 32;
    // 3. chars: every BMP scalar + sampled astral, as Value::Char and as LIKE ESCAPE char
    let astral = ctx.size(4096, 65_536);
    let nchars = 0x10000u64 + astral;
    let mut k = ctx.shard;
    if let Some((_, c)) = ctx.replay {
        k = c.wrapping_sub(base);
    }
    while k < nchars {
        let cp = if k < 0x10000 {
            k as u32
        } else {
            0x10000 + (ctx.rng_global("astral", k).below(0x100000) as u32)
        };
        if let Some(c) = char::from_u32(cp) {
            for d in Dialect::ALL {
                check_char(ctx, rep, &db, base + k, d, c, false);
                if k < 0x3000 || k % 16 == 0 {
                    check_char(ctx, rep, &db, base + k, d, c, true);
                }
            }
        }
        if ctx.replay.is_some() {
            return;
        }
        k += ctx.nshards;
    }
    if ctx.shard == 0 && ctx.replay.is_none() {
        rep.exhaustive_parts.push("every char U+0000..U+FFFF as Value::Char x 3 backends".into());
    }
    base += 1 << 32;
    // 4. bytes: all single bytes, all byte pairs, random longer
    let nb = 1 + 256 + 65536u64;
    let mut k = ctx.shard;
    if let Some((_, c)) = ctx.replay {
        k = c.wrapping_sub(base);
    }
    while k < nb {
        let b: Vec<u8> = if k == 0 {
            vec![]
        } else if k <= 256 {
            vec![(k - 1) as u8]
        } else {
            let x = k - 257;
            vec![(x >> 8) as u8, (x & 0xff) as u8]
        };
        for d in Dialect::ALL {
            check_bytes(ctx, rep, &db, base + k, d, &b, (k % 3) as u8);
        }
        if ctx.replay.is_some() {
            return;
        }
        k += ctx.nshards;
    }
    if ctx.shard == 0 && ctx.replay.is_none() {
        rep.exhaustive_parts.push("empty, all 256 single bytes and all 65536 byte pairs as Value::Bytes x 3 backends".into());
    }
    base += 1 << 32;
    let nrb = ctx.size(20_000, 2_500_000) / ctx.nshards;
    for k in 0..nrb {
        let n = base + k;
        if !ctx.wants(n) {
            continue;
        }
        crate::apply::set_route_seed(ctx.seed ^ n.wrapping_mul(0x9E3779B97F4A7C15));
        let mut rng = ctx.rng("bytes", k);
        let len = rng.below(40);
        let b: Vec<u8> = (0..len).map(|_| rng.below(256) as u8).collect();
        for d in Dialect::ALL {
            check_bytes(ctx, rep, &db, n, d, &b, (k % 3) as u8);
        }
    }
}
