//! C16 — the SQL tokenizer is lossless and always terminates.

use crate::util::*;
use sea_query::{Token, Tokenizer};
use serde_json::json;
use std::sync::atomic::{AtomicU64, Ordering};
use std::sync::Mutex;
use vcore::prng::hash_str;
use vcore::report::Report;
use vcore::run::{guard, panic_sig, Ctx};

const ALPHA: [char; 15] = [' ', '\t', 'a', '1', '_', '$', '?', ',', '\'', '"', '`', '[', ']', '\\', 'é'];

// --- non-termination watchdog -------------------------------------------------
// A hang *inside* one `next()` call cannot be seen by counting steps, so each
// shard publishes the input it is working on; a monitor thread reports an input
// that stays in progress for 30 s (normal cost: microseconds) and ends the run.
static SLOTS: Mutex<Vec<(u64, u64, String)>> = Mutex::new(Vec::new()); // (shard, case, input)
static TICK: [AtomicU64; 64] = [const { AtomicU64::new(0) }; 64];
static WATCH: std::sync::Once = std::sync::Once::new();

fn publish(ctx: &Ctx, n: u64, s: &str) {
    let idx = (ctx.shard as usize) % 64;
    {
        let mut g = SLOTS.lock().unwrap();
        while g.len() <= idx {
            g.push((0, 0, String::new()));
        }
        g[idx] = (ctx.shard, n, s.to_string());
    }
    TICK[idx].fetch_add(1, Ordering::SeqCst);
}

fn start_watch(prop: String, seed: u64, nshards: u64, variant: String, tier_quick: bool) {
    WATCH.call_once(|| {
        std::thread::spawn(move || {
            let mut last: Vec<(u64, u32)> = vec![(0, 0); 64];
            loop {
                std::thread::sleep(std::time::Duration::from_secs(1));
                for i in 0..64 {
                    let t = TICK[i].load(Ordering::SeqCst);
                    if t != 0 && t % 2 == 1 {
                        // odd = in progress
                        if last[i].0 == t {
                            last[i].1 += 1;
                        } else {
                            last[i] = (t, 0);
                        }
                        if last[i].1 >= 30 {
                            let (shard, case, input) = SLOTS.lock().unwrap()[i].clone();
                            let _ = std::fs::create_dir_all("/verif/replays");
                            let path = format!("/verif/replays/{prop}-{variant}-{seed}-{shard}-{case}-hang.json");
                            let body = json!({"property": prop, "variant": variant, "seed": seed, "nshards": nshards,
                                "tier": if tier_quick {"quick"} else {"thorough"},
                                "shard": shard, "case": case,
                                "violation": {"rule": "R.terminates", "signature": "no progress for 30 s inside one tokenizer call",
                                    "detail": {"input": show(&input)}}});
                            let _ = std::fs::write(&path, serde_json::to_string_pretty(&body).unwrap());
                            println!("VIOLATION property={prop} replay={path}");
                            println!("  rule=R.terminates input={:?}", show(&input));
                            std::process::exit(1);
                        }
                    } else {
                        last[i] = (t, 0);
                    }
                }
            }
        });
    });
}

/// Drive the tokenizer step by step with a step bound.
fn tokenize_bounded(s: &str) -> Result<Vec<Token>, String> {
    let bound = s.chars().count() + 1;
    let mut it = Tokenizer::new(s).iter();
    let mut out = vec![];
    loop {
        match it.next() {
            Some(t) => {
                out.push(t);
                if out.len() > bound {
                    return Err(format!("more than {bound} steps"));
                }
            }
            None => return Ok(out),
        }
    }
}

fn shape(s: &str) -> String {
    s.chars().map(char_class).collect::<Vec<_>>().join("")
}

fn basic(ctx: &Ctx, rep: &mut Report, n: u64, s: &str) -> Option<Vec<Token>> {
    rep.eval();
    publish(ctx, n, s);
    let r = guard(|| tokenize_bounded(s));
    TICK[(ctx.shard as usize) % 64].fetch_add(1, Ordering::SeqCst);
    match r {
        Err(p) => {
            rep.violation("R.panic", "-", panic_sig(&p), json!({"input": show(s), "panic": p}), ctx.shard, n);
            None
        }
        Ok(Err(e)) => {
            rep.violation("R.terminates", "-", shape(s), json!({"input": show(s), "error": e}), ctx.shard, n);
            None
        }
        Ok(Ok(toks)) => {
            let cat: String = toks.iter().map(|t| t.as_str()).collect();
            if cat != s {
                rep.violation(
                    "R.lossless",
                    "-",
                    shape(s),
                    json!({"input": show(s), "concat": show(&cat), "tokens": format!("{toks:?}")}),
                    ctx.shard,
                    n,
                );
            }
            if toks.iter().any(|t| t.as_str().is_empty()) {
                rep.violation(
                    "R.nonempty",
                    "-",
                    shape(s),
                    json!({"input": show(s), "tokens": format!("{toks:?}")}),
                    ctx.shard,
                    n,
                );
            }
            rep.count("tokens", toks.len() as u64);
            if toks.len() >= 2 {
                rep.nontrivial(hash_str(s));
            }
            Some(toks)
        }
    }
}

/// Build `prefix · q body q' · suffix` from pieces, so that the end of the quoted run is
/// known by construction (the reference scanner is the construction itself).
fn quoted_case(rng: &mut vcore::prng::Rng) -> (String, String, String, char, String) {
    let q = *rng.pick(&['\'', '"', '`', '[']);
    let close = if q == '[' { ']' } else { q };
    let mut body = String::new();
    let mut content = String::new(); // what unquote should give when no backslash is used
    let pieces = rng.below(7);
    let mut used_backslash = false;
    for _ in 0..pieces {
        match rng.below(9) {
            0 => {
                body.push('?');
                content.push('?');
            }
            1 => {
                body.push('$');
                content.push('$');
            }
            2 if q != '[' => {
                body.push(q);
                body.push(q);
                content.push(q);
            }
            // (a backslash keeps the closing delimiter inside the run, whatever the delimiter)
            3 => {
                body.push('\\');
                body.push(close);
                used_backslash = true;
            }
            4 => {
                body.push_str("\\\\");
                used_backslash = true;
            }
            5 => {
                body.push(' ');
                content.push(' ');
            }
            6 => {
                // a different delimiter inside
                let other = *rng.pick(&['\'', '"', '`']);
                if other != q && !(q == '[') {
                    body.push(other);
                    content.push(other);
                } else {
                    body.push('x');
                    content.push('x');
                }
            }
            7 => {
                let c = rng.any_char();
                if c != q && c != close && c != '\\' && c != '[' && c != ']' && c != '\'' && c != '"' && c != '`' {
                    body.push(c);
                    content.push(c);
                }
            }
            _ => {
                body.push_str("ab1");
                content.push_str("ab1");
            }
        }
    }
    let prefix = match rng.below(6) {
        0 => String::new(),
        1 => "a = ".to_string(),
        2 => "x".to_string(),
        3 => "? , ".to_string(),
        4 => "f(".to_string(),
        _ => " \t".to_string(),
    };
    let suffix = match rng.below(if q == '[' { 8 } else { 6 }) {
        // a bracket run ends at its first `]` (brackets have no doubled-delimiter escape): a second `]` and
        // whatever follows it are outside
        6 => "] = ?".to_string(),
        7 => "]".to_string(),
        0 => String::new(),
        1 => " AND b = ?".to_string(),
        2 => "?".to_string(),
        3 => ")".to_string(),
        4 => "$1".to_string(),
        _ => "z".to_string(),
    };
    let run = format!("{q}{body}{close}");
    let expect_unquote = if used_backslash { String::new() } else { content };
    (prefix, run, suffix, q, if used_backslash { "\u{1}".into() } else { expect_unquote })
}

pub fn check(ctx: &Ctx, rep: &mut Report) {
    start_watch(ctx.prop.clone(), ctx.seed, ctx.nshards, ctx.variant.clone(), ctx.quick());
    let max_len = ctx.size(5, 7) as usize;
    let total = count_strings(ALPHA.len(), max_len);
    let mut n = match ctx.replay {
        Some((_, c)) => c,
        None => ctx.shard,
    };
    while n < total {
        let s = nth_string(&ALPHA, n);
        basic(ctx, rep, n, &s);
        if n % 100_003 == 5 {
            rep.sample(json!({"input": show(&s), "kind": "exhaustive"}));
        }
        if ctx.replay.is_some() {
            return;
        }
        n += ctx.nshards;
    }
    if ctx.shard == 0 && ctx.replay.is_none() {
        rep.exhaustive_parts.push(format!(
            "all strings over the 15-symbol token alphabet up to length {max_len} ({total} strings)"
        ));
    }
    // random unicode, incl. unterminated quotes
    let nrand = ctx.size(200_000, 2_000_000) / ctx.nshards;
    for k in 0..nrand {
        let n = total + k;
        if !ctx.wants(n) {
            continue;
        }
        let mut rng = ctx.rng("rand", k);
        let s = rng.string_from(&ALPHA, 300, true);
        basic(ctx, rep, n, &s);
        rep.count("random_strings", 1);
    }
    // characters that the standard library classifies (white space, numeric, format) but an ASCII-minded
    // helper may not: short strings, so that each of them is met in first position too
    const EXOTIC: [char; 18] = [
        '\u{feff}', '\u{a0}', '\u{c}', '\u{b}', '\u{85}', '\u{2003}', '\u{2028}', '\u{3000}', '\u{200b}', '\u{301}', '²', '½', '\u{663}', '\u{2167}', '\0',
        '\r', '\n', '\u{1f}',
    ];
    let nex = ctx.size(200_000, 2_000_000) / ctx.nshards;
    for k in 0..nex {
        let n = total + (1 << 38) + k;
        if !ctx.wants(n) {
            continue;
        }
        let mut rng = ctx.rng("exotic", k);
        let len = 1 + rng.below(8);
        let s: String = (0..len).map(|_| if rng.coin() { *rng.pick(&EXOTIC) } else { *rng.pick(&ALPHA) }).collect();
        basic(ctx, rep, n, &s);
        rep.count("exotic_strings", 1);
    }
    // quoted-run cases
    let nq = ctx.size(400_000, 4_000_000) / ctx.nshards;
    for k in 0..nq {
        let n = total + (1 << 40) + k;
        if !ctx.wants(n) {
            continue;
        }
        let mut rng = ctx.rng("quoted", k);
        let (prefix, run, suffix, q, expect) = quoted_case(&mut rng);
        if q != '[' && rng.chance(1, 8) {
            // the input ends inside the run, right after a doubled delimiter: nothing closes the run, so it
            // extends to the end of the input as one quoted token
            let open_run = format!("{run}{q}");
            let s = format!("{prefix}{open_run}");
            if let Some(toks) = basic(ctx, rep, n, &s) {
                rep.count("unterminated_runs_ending_in_a_doubled_delimiter", 1);
                let ok = matches!(toks.last(), Some(Token::Quoted(x)) if *x == open_run);
                if !ok {
                    rep.violation(
                        "R.quoted-run",
                        "-",
                        format!("{q} unterminated, ends in a doubled delimiter: {}", shape(&open_run)),
                        json!({"input": show(&s), "expected_last_token": show(&open_run), "got": format!("{:?}", toks.last())}),
                        ctx.shard,
                        n,
                    );
                }
            }
            continue;
        }
        let s = format!("{prefix}{run}{suffix}");
        let toks = match basic(ctx, rep, n, &s) {
            Some(t) => t,
            None => continue,
        };
        rep.count("quoted_cases", 1);
        // locate the token covering offset prefix.len()
        let mut off = 0usize;
        let mut found = false;
        for t in &toks {
            let len = t.as_str().len();
            if off == prefix.len() {
                found = true;
                let ok = matches!(t, Token::Quoted(x) if x == &run);
                if !ok {
                    rep.violation(
                        "R.quoted-run",
                        "-",
                        format!("{q} {}", shape(&run)),
                        json!({"input": show(&s), "expected_quoted": show(&run), "got": format!("{t:?}")}),
                        ctx.shard,
                        n,
                    );
                } else if expect != "\u{1}" {
                    let u = t.unquote();
                    if u.as_deref() != Some(expect.as_str()) {
                        rep.violation(
                            "R.unquote",
                            "-",
                            format!("{q} {}", shape(&run)),
                            json!({"quoted": show(&run), "expected": show(&expect), "got": format!("{u:?}")}),
                            ctx.shard,
                            n,
                        );
                    }
                    rep.count("unquote_checked", 1);
                }
                break;
            }
            if off > prefix.len() {
                break;
            }
            off += len;
        }
        if !found {
            rep.violation(
                "R.quoted-run",
                "-",
                format!("{q} {} (no token starts at the quote)", shape(&run)),
                json!({"input": show(&s), "tokens": format!("{toks:?}")}),
                ctx.shard,
                n,
            );
        }
        if k % 9973 == 0 {
            rep.sample(json!({"input": show(&s), "kind": "quoted", "tokens": toks.len()}));
        }
    }
    // word-run cases: a word (identifier / number) is one unquoted token. Words start with a letter — of any
    // script, as all three engines allow in identifiers — or a digit and continue with letters, digits, `_`, `$`.
    let nw = ctx.size(60_000, 2_000_000) / ctx.nshards;
    for k in 0..nw {
        let n = total + (1 << 41) + k;
        if !ctx.wants(n) {
            continue;
        }
        let mut rng = ctx.rng("word", k);
        const START: [char; 10] = ['a', 'Z', 'q', '\u{e9}', '\u{df}', '\u{44f}', '\u{4e2d}', '7', '0', 'x'];
        const CONT: [char; 12] = ['a', 'Z', '\u{e9}', '\u{44f}', '\u{4e2d}', '1', '9', '_', '_', '$', '$', 'b'];
        let mut word = String::new();
        word.push(*rng.pick(&START));
        for _ in 0..rng.below(7) {
            word.push(*rng.pick(&CONT));
        }
        let prefix = *rng.pick(&["", " ", "x = ", "f(", "a,", "?", "'s'", "\t"]);
        let suffix = *rng.pick(&["", " ", " = ?", ")", ",b", "'s'", "?", "\"q\"", "\n"]);
        let s = format!("{prefix}{word}{suffix}");
        let toks = match basic(ctx, rep, n, &s) {
            Some(t) => t,
            None => continue,
        };
        rep.count("word_cases", 1);
        let mut off = 0usize;
        let mut ok = false;
        let mut got = String::new();
        for t in &toks {
            if off == prefix.len() {
                got = format!("{t:?}");
                ok = matches!(t, Token::Unquoted(x) if x == &word);
                break;
            }
            off += t.as_str().len();
        }
        if !ok {
            rep.violation("R.word-run", "-", shape(&word), json!({"input": show(&s), "expected_unquoted": show(&word), "got": got, "tokens": format!("{toks:?}")}), ctx.shard, n);
        }
    }
}
