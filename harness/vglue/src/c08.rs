//! C08 — MySQL/Postgres statements carry every clause given, in grammar order.
//! The rendered statement and the independent reference rendering of the same
//! spec are both parsed with the strict dialect grammar (vcore::stmt); the two
//! clause trees must be equal (redundant parentheses never matter).

use crate::apply;
use crate::gen::{clause_kinds, Cfg, Gen};
use crate::refsql::{self, Ref};
use crate::spec::*;
use crate::util::*;
use crate::xspec::X;
use serde_json::json;
use vcore::lex::lex;
use vcore::prng::hash_str;
use vcore::report::Report;
use vcore::run::{guard, panic_sig, Ctx};
use vcore::stmt::{parse_statement, Tree};

fn parse(d: Dialect, sql: &str) -> Result<Tree, String> {
    let toks = lex(d, sql).map_err(|e| format!("lex error at {}: {}", e.at, e.msg))?;
    parse_statement(d, &toks).map_err(|e| {
        let near: Vec<String> = toks.iter().skip(e.at.saturating_sub(3)).take(6).map(|t| t.tok.short()).collect();
        format!("{} (near: {})", e.msg, near.join(" "))
    })
}

/// first differing clause path between two trees
fn first_diff(a: &Tree, b: &Tree, path: &str) -> String {
    match (a, b) {
        (Tree::N(la, ka), Tree::N(lb, kb)) => {
            if la != lb {
                return format!("{path}: clause {la} vs {lb}");
            }
            for (i, (x, y)) in ka.iter().zip(kb.iter()).enumerate() {
                if x != y {
                    return first_diff(x, y, &format!("{path}/{la}[{i}]"));
                }
            }
            if ka.len() != kb.len() {
                let extra = if ka.len() > kb.len() { &ka[kb.len()] } else { &kb[ka.len()] };
                let label = match extra {
                    Tree::N(l, _) => l.clone(),
                    Tree::A(s) => s.clone(),
                    Tree::E(_) => "expression".into(),
                };
                return format!("{path}/{la}: {} has extra element `{label}`", if ka.len() > kb.len() { "rendering" } else { "reference" });
            }
            format!("{path}/{la}")
        }
        (Tree::E(_), Tree::E(_)) => format!("{path}: expression differs"),
        (Tree::A(x), Tree::A(y)) => format!("{path}: `{x}` vs `{y}`"),
        _ => format!("{path}: node kinds differ"),
    }
}

fn norm_path(p: &str) -> String {
    // drop indices so that signatures are stable
    let mut out = String::new();
    let mut skip = false;
    for c in p.chars() {
        match c {
            '[' => skip = true,
            ']' => skip = false,
            c if !skip => out.push(c),
            _ => {}
        }
    }
    out
}

pub fn check_spec(ctx: &Ctx, rep: &mut Report, n: u64, d: Dialect, spec: &Stmt, label: &str) {
    rep.eval();
    apply::set_route_seed(ctx.seed ^ n.wrapping_mul(0x9E3779B97F4A7C15));
    let r = guard(|| {
        let b = apply::stmt(spec);
        (b.inline(qb(d)), b.build(qb(d)).0)
    });
    let kinds = clause_kinds(spec);
    let (inline, param) = match r {
        Ok(x) => x,
        Err(p) => {
            rep.violation("R.panic", d.name(), format!("{} {}", spec.kind(), panic_sig(&p)), json!({"panic": p, "spec": format!("{spec:?}")}), ctx.shard, n);
            return;
        }
    };
    for (mode, sql, is_param) in [("inline", &inline, false), ("parameterised", &param, true)] {
        let mut rr = Ref::new(d, is_param);
        let reference = refsql::stmt(&mut rr, spec);
        let want = match parse(d, &reference) {
            Ok(t) => t,
            Err(e) => {
                // the reference must always be derivable: otherwise the generator/reference is at fault
                rep.inconclusive("reference rendering not derivable by the grammar model");
                rep.note("reference_parse_failures", format!("{} :: {}", e, reference.chars().take(300).collect::<String>()));
                return;
            }
        };
        let sig_prefix = if label.starts_with("pinned:") { label.to_string() } else { format!("{} [{}]", spec.kind(), kinds.join(",")) };
        match parse(d, sql) {
            Err(e) => {
                let short = e.split(" (near").next().unwrap_or("").to_string();
                rep.violation(
                    "R.grammar",
                    d.name(),
                    if label.starts_with("pinned:") { format!("{label} -> not derivable") } else { format!("not derivable: {short}: {sig_prefix}") },
                    json!({"mode": mode, "sql": sql, "error": e, "reference": reference}),
                    ctx.shard,
                    n,
                );
                return;
            }
            Ok(got) => {
                if got != want {
                    let diff = first_diff(&got, &want, "");
                    rep.violation(
                        "R.structure",
                        d.name(),
                        if label.starts_with("pinned:") { format!("{label} -> {}", norm_path(&diff)) } else { format!("{}: {sig_prefix}", norm_path(&diff)) },
                        json!({"mode": mode, "sql": sql, "reference": reference, "difference": diff,
                               "rendering_tree": got.show(), "reference_tree": want.show()}),
                        ctx.shard,
                        n,
                    );
                    return;
                }
                if !is_param {
                    let mut labels = vec![];
                    got.labels(&mut labels);
                    for l in labels {
                        rep.note("clauses_parsed", format!("{}:{l}", d.name()));
                    }
                }
            }
        }
    }
    rep.count("statements_parsed_and_matched", 2);
    for k in &kinds {
        rep.count(&format!("clause.{k}"), 1);
    }
    // expression-level features seen in the rendering (coverage only)
    for (needle, name) in [
        (" ANY(", "any-subquery"), (" SOME(", "some-subquery"), (" ALL(", "all-subquery"), ("CURRENT_", "current-keyword"), ("MD5(", "md5"),
        ("RAND", "random"), ("AVG(", "avg"), ("BIT_", "bit-aggregate"), (" LATERAL ", "lateral-join"), (" ILIKE ", "ilike"), (" ESCAPE ", "like-escape"),
        ("CASE ", "case"), ("CAST(", "cast"), (" OVER ", "window-function"), (" BETWEEN ", "between"), ("EXISTS(", "exists"), ("VALUES ", "values"),
    ] {
        if inline.contains(needle) {
            rep.count(&format!("feature.{name}"), 1);
        }
    }
    if kinds.len() >= 3 {
        rep.nontrivial(hash_str(&inline) ^ (d as u64) << 62);
    }
    if n % 1103 == 9 {
        rep.sample(json!({"backend": d.name(), "sql": inline, "parameterised": param}));
    }
}

fn pinned(ctx: &Ctx, rep: &mut Report) {
    let base = 1u64 << 50;
    let probes: Vec<(&str, Dialect, Stmt)> = vec![
        (
            "pinned: MySQL on_conflict do_nothing() without keys",
            Dialect::Mysql,
            Stmt::Ins(Ins {
                with: None,
                replace: false,
                table: "t3".into(),
                cols: vec!["k".into()],
                source: InsSource::Values(vec![vec![X::Int(1)]]),
                conflict: Some(Conflict { target_cols: vec!["k".into()], target_exprs: vec![], target_where: vec![], action: Some(ConflictAction::Nothing), action_where: vec![] }),
                returning: None,
            }),
        ),
        (
            "pinned: MySQL UPDATE with two FROM tables",
            Dialect::Mysql,
            Stmt::Upd(Upd {
                with: None,
                alias: None,
                table: "t1".into(),
                sets: vec![("a".into(), X::Int(1))],
                from: vec![From_::Table("t2".into(), None), From_::Table("t3".into(), None)],
                wheres: vec![X::Bin(Box::new(X::QCol("t1".into(), "id".into())), sea_query::BinOper::Equal, Box::new(X::QCol("t2".into(), "t1_id".into())))],
                orders: vec![],
                limit: None,
                returning: None,
            }),
        ),
        (
            "pinned: Postgres cross_join renders an ON clause",
            Dialect::Postgres,
            Stmt::Sel(Sel {
                items: vec![Item { expr: X::QCol("t1".into(), "id".into()), alias: None, window: None }],
                from: vec![From_::Table("t1".into(), None)],
                joins: vec![Join { kind: JoinKind::Cross, from: From_::Table("t2".into(), None), on: vec![], lateral: false }],
                ..Default::default()
            }),
        ),
    ];
    for (i, (label, d, spec)) in probes.iter().enumerate() {
        let n = base + i as u64;
        if (ctx.replay.is_none() && ctx.shard != 0) || !ctx.wants(n) {
            continue;
        }
        if i == 0 {
            // there is no key-less MySQL form to compare with: the rendering itself must be derivable
            rep.eval();
            let sql = apply::stmt(spec).inline(qb(*d));
            if let Err(e) = parse(*d, &sql) {
                rep.violation("R.grammar", d.name(), format!("{label} -> not derivable"), json!({"sql": sql, "error": e}), ctx.shard, n);
            }
            continue;
        }
        if i == 1 {
            // the second table must appear in the rendering (the reference keeps from[0] only, like the code)
            rep.eval();
            let sql = apply::stmt(spec).inline(qb(*d));
            let has_t3 = lex(*d, &sql).map(|t| t.iter().any(|x| matches!(&x.tok, vcore::lex::Tok::Ident(s) if s == "t3"))).unwrap_or(false);
            if !has_t3 {
                rep.violation("R.structure", d.name(), format!("{label} -> second table dropped"), json!({"sql": sql}), ctx.shard, n);
            }
            continue;
        }
        check_spec(ctx, rep, n, *d, spec, label);
    }
}

/// Grammar calibration on the maintainers' own expected SQL (used as data): the set of corpus
/// statements the model rejects must be exactly the reviewed list in corpus/expected_rejections.json.
fn calibrate(rep: &mut Report) {
    let expected: serde_json::Value = std::fs::read_to_string("/verif/corpus/expected_rejections.json")
        .ok()
        .and_then(|t| serde_json::from_str(&t).ok())
        .unwrap_or(json!({}));
    let dump = std::env::var("VERIF_CORPUS_DUMP").is_ok();
    for d in Dialect::ALL {
        let text = match std::fs::read_to_string(format!("/verif/corpus/{}.txt", d.name())) {
            Ok(t) => t,
            Err(_) => panic!("calibration corpus missing for {}", d.name()),
        };
        let mut rejected: Vec<String> = vec![];
        let mut ok = 0;
        for line in text.lines().filter(|l| !l.trim().is_empty()) {
            match parse(d, line) {
                Ok(_) => ok += 1,
                Err(e) => {
                    if dump {
                        println!("CORPUS-REJECT {} :: {e} :: {line}", d.name());
                    }
                    rejected.push(line.to_string());
                }
            }
        }
        rep.count(&format!("calibration.{}.accepted", d.name()), ok);
        rep.count(&format!("calibration.{}.rejected_as_reviewed", d.name()), rejected.len() as u64);
        let want: Vec<String> = expected
            .get(d.name())
            .and_then(|v| v.as_array())
            .map(|a| a.iter().filter_map(|x| x.get("sql").and_then(|s| s.as_str()).map(|s| s.to_string())).collect())
            .unwrap_or_default();
        let mut a = rejected.clone();
        let mut b = want.clone();
        a.sort();
        b.sort();
        if a != b && !dump {
            let unexpected: Vec<&String> = a.iter().filter(|x| !b.contains(x)).collect();
            let missing: Vec<&String> = b.iter().filter(|x| !a.contains(x)).collect();
            panic!(
                "grammar calibration failed for {}: unexpectedly rejected {:?}; expected to be rejected but accepted {:?}",
                d.name(),
                unexpected,
                missing
            );
        }
    }
}

pub fn check(ctx: &Ctx, rep: &mut Report) {
    if ctx.shard == 0 && ctx.replay.is_none() {
        calibrate(rep);
    }
    pinned(ctx, rep);
    let total = ctx.size(60_000, 8_000_000) / ctx.nshards;
    for k in 0..total {
        if !ctx.wants(k) {
            continue;
        }
        for d in [Dialect::Mysql, Dialect::Postgres] {
            let mut rng = ctx.rng("stmt", k * 3 + d as u64);
            let spec = {
                let mut g = Gen::new(&mut rng, Cfg::text(d));
                g.statement()
            };
            if ctx.verbose {
                println!("{d:?}: {spec:#?}");
            }
            check_spec(ctx, rep, k, d, &spec, "random");
        }
    }
}
