//! Expression specs: one harness-side tree consumed three ways — built through
//! sea-query's expression API, turned into the expected parse tree, and rendered
//! as a fully parenthesised SQLite reference.

use crate::util::Dialect;
use sea_query::extension::postgres::{PgBinOper, PgFunc};
use sea_query::extension::sqlite::SqliteBinOper;
use crate::spec::Sel;
use sea_query::*;
use vcore::px::PX;

#[derive(Clone, Debug, PartialEq)]
pub enum X {
    Col(&'static str),
    Int(i64),
    Text(String),
    Null,
    Bool(bool),
    Not(Box<X>),
    Bin(Box<X>, BinOper, Box<X>),
    /// (expr, negated, lo, hi)
    Between(Box<X>, bool, Box<X>, Box<X>),
    /// (expr, negated, pattern, escape char)
    Like(Box<X>, bool, Box<X>, Option<char>),
    /// Postgres only: (expr, negated, pattern, escape char) through PgExpr::ilike / not_ilike
    ILike(Box<X>, bool, Box<X>, Option<char>),
    In(Box<X>, bool, Vec<X>),
    IsNull(Box<X>, bool),
    /// function by upper-case SQL name common to all three dialects
    Func(&'static str, Vec<X>),
    Cast(Box<X>, &'static str),
    Case(Vec<(X, X)>, Option<Box<X>>),
    Tuple(Vec<X>),
    /// table-qualified column
    QCol(String, String),
    /// arbitrary bound value
    Val(Value),
    /// `*` (inside COUNT)
    Star,
    /// `table.*` (select item)
    QStar(String),
    /// [NOT] EXISTS (subquery)
    Exists(bool, Box<Sel>),
    /// expr [NOT] IN (subquery)
    InSub(Box<X>, bool, Box<Sel>),
    /// MySQL / Postgres: `expr op ANY|SOME|ALL (subquery)` — (expr, comparison, 0 any / 1 some / 2 all, subquery)
    SubOp(Box<X>, BinOper, u8, Box<Sel>),
    /// `(e1, e2, ..) IN ((v, v, ..), ..)` through `Expr::tuple(..).in_tuples(rows)`
    InTuples(Vec<X>, Vec<Vec<Value>>),
    /// a keyword atom: CURRENT_TIMESTAMP / CURRENT_DATE / CURRENT_TIME, or a custom keyword
    Kw(&'static str),
    /// scalar subquery
    Scalar(Box<Sel>),
    /// opaque custom fragment (a plain word)
    Cust(String),
    /// Postgres enum cast: (type name, expr)
    AsEnum(String, Box<X>),
    /// custom template with values: pieces are literal text or argument indices; the template string
    /// is assembled for the target dialect's placeholder style (`?` or `$n`)
    CustWith(Vec<TplPiece>, Vec<X>, bool),
}

#[derive(Clone, Debug, PartialEq)]
pub enum TplPiece {
    Text(String),
    Arg(usize),
}

pub fn b(x: X) -> Box<X> {
    Box::new(x)
}

pub fn op_name(d: Dialect, op: &BinOper) -> String {
    match op {
        BinOper::And => "AND",
        BinOper::Or => "OR",
        BinOper::Like => "LIKE",
        BinOper::NotLike => "NOT LIKE",
        BinOper::Is => "IS",
        BinOper::IsNot => "IS NOT",
        BinOper::In => "IN",
        BinOper::NotIn => "NOT IN",
        BinOper::Between => "BETWEEN",
        BinOper::NotBetween => "NOT BETWEEN",
        BinOper::Equal => "=",
        BinOper::NotEqual => "<>",
        BinOper::SmallerThan => "<",
        BinOper::GreaterThan => ">",
        BinOper::SmallerThanOrEqual => "<=",
        BinOper::GreaterThanOrEqual => ">=",
        BinOper::Add => "+",
        BinOper::Sub => "-",
        BinOper::Mul => "*",
        BinOper::Div => "/",
        BinOper::Mod => "%",
        BinOper::BitAnd => "&",
        BinOper::BitOr => "|",
        BinOper::LShift => "<<",
        BinOper::RShift => ">>",
        BinOper::As => "AS",
        BinOper::Escape => "ESCAPE",
        BinOper::Custom(s) => s,
        BinOper::PgOperator(o) => match o {
            PgBinOper::ILike => "ILIKE",
            PgBinOper::NotILike => "NOT ILIKE",
            PgBinOper::Matches => "@@",
            PgBinOper::Contains => "@>",
            PgBinOper::Contained => "<@",
            PgBinOper::Concatenate => "||",
            PgBinOper::Overlap => "&&",
            PgBinOper::Similarity => "%",
            PgBinOper::WordSimilarity => "<%",
            PgBinOper::StrictWordSimilarity => "<<%",
            PgBinOper::SimilarityDistance => "<->",
            PgBinOper::WordSimilarityDistance => "<<->",
            PgBinOper::StrictWordSimilarityDistance => "<<<->",
            PgBinOper::GetJsonField => "->",
            PgBinOper::CastJsonField => "->>",
            PgBinOper::Regex => "~",
            PgBinOper::RegexCaseInsensitive => "~*",
            PgBinOper::EuclideanDistance => "<->",
            PgBinOper::NegativeInnerProduct => "<#>",
            PgBinOper::CosineDistance => "<=>",
        },
        BinOper::SqliteOperator(o) => match o {
            SqliteBinOper::Glob => "GLOB",
            SqliteBinOper::Match => "MATCH",
            SqliteBinOper::GetJsonField => "->",
            SqliteBinOper::CastJsonField => "->>",
        },
    }
    .to_string()
    .replace("__dialect__", d.name())
}

/// Operators that the dialect parsers return as `PX::Like` nodes.
fn is_like_kind(name: &str) -> bool {
    matches!(
        name.strip_prefix("NOT ").unwrap_or(name),
        "LIKE" | "ILIKE" | "GLOB" | "MATCH" | "REGEXP" | "RLIKE" | "SIMILAR TO"
    )
}

/// `l op r` through one of the equivalent spellings: `binary(op, ..)`, the named method of `ExprTrait`,
/// the named method of `Expr`, the named inherent method of `SimpleExpr`, or the dialect extension trait.
fn bin_routes(l: SimpleExpr, op: BinOper, rx: &X) -> SimpleExpr {
    use sea_query::extension::postgres::PgExpr;
    use sea_query::extension::sqlite::SqliteExpr;
    let r = rx.build();
    let which = crate::apply::route(5);
    if which == 0 {
        return if crate::apply::route(2) == 0 { Expr::expr(l).binary(op, r) } else { l.binary(op, r) };
    }
    // comparisons against a column have their own spelling
    if which == 4 {
        let col: Option<ColumnRef> = match rx {
            X::Col(c) => Some(Alias::new(*c).into_column_ref()),
            X::QCol(t, c) => Some((Alias::new(t.as_str()), Alias::new(c.as_str())).into_column_ref()),
            _ => None,
        };
        match (op, col) {
            (BinOper::Equal, Some(c)) => {
                return if crate::apply::route(2) == 0 { Expr::expr(l).equals(c) } else { ExprTrait::equals(l, c) };
            }
            (BinOper::NotEqual, Some(c)) => {
                return if crate::apply::route(2) == 0 { Expr::expr(l).not_equals(c) } else { ExprTrait::not_equals(l, c) };
            }
            _ => {}
        }
    }
    macro_rules! named {
        ($m:ident) => {
            match which {
                1 => ExprTrait::$m(l, r),
                _ => Expr::expr(l).$m(r),
            }
        };
    }
    macro_rules! named3 {
        ($m:ident) => {
            match which {
                1 => ExprTrait::$m(l, r),
                2 => Expr::expr(l).$m(r),
                _ => l.$m(r), // inherent method of SimpleExpr
            }
        };
    }
    match op {
        BinOper::Equal => named3!(eq),
        BinOper::NotEqual => named3!(ne),
        BinOper::Add => named3!(add),
        BinOper::Sub => named3!(sub),
        BinOper::Mul => named3!(mul),
        BinOper::Div => named3!(div),
        BinOper::GreaterThan => named!(gt),
        BinOper::GreaterThanOrEqual => named!(gte),
        BinOper::SmallerThan => named!(lt),
        BinOper::SmallerThanOrEqual => named!(lte),
        BinOper::Mod => named!(modulo),
        BinOper::LShift => named!(left_shift),
        BinOper::RShift => named!(right_shift),
        BinOper::Is => named!(is),
        BinOper::IsNot => named!(is_not),
        BinOper::And => match which {
            1 => ExprTrait::and(l, r),
            _ => l.and(r),
        },
        BinOper::Or => match which {
            1 => ExprTrait::or(l, r),
            _ => l.or(r),
        },
        BinOper::BitAnd => ExprTrait::bit_and(l, r),
        BinOper::BitOr => ExprTrait::bit_or(l, r),
        BinOper::PgOperator(PgBinOper::Concatenate) => {
            if which % 2 == 0 {
                PgExpr::concatenate(l, r)
            } else {
                PgExpr::concat(l, r)
            }
        }
        BinOper::PgOperator(PgBinOper::Matches) => PgExpr::matches(l, r),
        BinOper::PgOperator(PgBinOper::Contains) => PgExpr::contains(l, r),
        BinOper::PgOperator(PgBinOper::Contained) => PgExpr::contained(l, r),
        BinOper::PgOperator(PgBinOper::GetJsonField) => PgExpr::get_json_field(l, r),
        BinOper::PgOperator(PgBinOper::CastJsonField) => PgExpr::cast_json_field(l, r),
        BinOper::SqliteOperator(SqliteBinOper::Glob) => SqliteExpr::glob(l, r),
        BinOper::SqliteOperator(SqliteBinOper::Match) => SqliteExpr::matches(l, r),
        BinOper::SqliteOperator(SqliteBinOper::GetJsonField) => SqliteExpr::get_json_field(l, r),
        BinOper::SqliteOperator(SqliteBinOper::CastJsonField) => SqliteExpr::cast_json_field(l, r),
        _ => l.binary(op, r),
    }
}

impl X {
    /// Build through sea-query's public expression API.
    pub fn build(&self) -> SimpleExpr {
        match self {
            // the equivalent spellings of a column / value operand
            X::Col(c) => match crate::apply::route(4) {
                0 => Expr::column(Alias::new(*c)),
                1 => SimpleExpr::Column(Alias::new(*c).into_column_ref()),
                2 => Expr::expr(Expr::col(Alias::new(*c))).into(),
                _ => Expr::col(Alias::new(*c)).into(),
            },
            X::Int(i) => match crate::apply::route(4) {
                0 => Expr::value(*i),
                1 => SimpleExpr::from(*i),
                2 => SimpleExpr::Value(Value::from(*i)),
                _ => Expr::val(*i).into(),
            },
            X::Text(s) => match crate::apply::route(3) {
                0 => Expr::value(s.as_str()),
                1 => SimpleExpr::from(s.as_str()),
                _ => Expr::val(s.as_str()).into(),
            },
            X::Null => SimpleExpr::Keyword(Keyword::Null),
            X::Bool(v) => SimpleExpr::Constant((*v).into()),
            X::Not(e) => match crate::apply::route(3) {
                0 => ExprTrait::not(e.build()),
                1 => Expr::expr(e.build()).not(),
                _ => e.build().not(),
            },
            X::Bin(l, op, r) => bin_routes(l.build(), *op, r),
            X::Between(e, not, lo, hi) => match (*not, crate::apply::route(2)) {
                (true, 0) => Expr::expr(e.build()).not_between(lo.build(), hi.build()),
                (true, _) => ExprTrait::not_between(e.build(), lo.build(), hi.build()),
                (false, 0) => Expr::expr(e.build()).between(lo.build(), hi.build()),
                (false, _) => ExprTrait::between(e.build(), lo.build(), hi.build()),
            },
            X::Like(e, not, pat, esc) => {
                let op = if *not { BinOper::NotLike } else { BinOper::Like };
                match (&**pat, esc) {
                    (X::Text(p), Some(c)) => {
                        let le = LikeExpr::new(p.as_str()).escape(*c);
                        // the three homes of like / not_like: SimpleExpr, Expr, ExprTrait
                        match (*not, crate::apply::route(3)) {
                            (true, 0) => Expr::expr(e.build()).not_like(le),
                            (true, 1) => ExprTrait::not_like(e.build(), le),
                            (true, _) => e.build().not_like(le),
                            (false, 0) => Expr::expr(e.build()).like(le),
                            (false, 1) => ExprTrait::like(e.build(), le),
                            (false, _) => e.build().like(le),
                        }
                    }
                    (X::Text(p), None) => match (*not, crate::apply::route(3)) {
                        (true, 0) => Expr::expr(e.build()).not_like(p.as_str()),
                        (true, 1) => ExprTrait::not_like(e.build(), p.as_str()),
                        (true, _) => e.build().not_like(p.as_str()),
                        (false, 0) => Expr::expr(e.build()).like(p.as_str()),
                        (false, 1) => ExprTrait::like(e.build(), p.as_str()),
                        (false, _) => e.build().like(p.as_str()),
                    },
                    (p, Some(c)) => e.build().binary(
                        op,
                        SimpleExpr::Binary(
                            Box::new(p.build()),
                            BinOper::Escape,
                            Box::new(SimpleExpr::Constant((*c).into())),
                        ),
                    ),
                    (p, None) => e.build().binary(op, p.build()),
                }
            }
            X::ILike(e, not, pat, esc) => {
                use sea_query::extension::postgres::PgExpr;
                let op = BinOper::PgOperator(if *not { PgBinOper::NotILike } else { PgBinOper::ILike });
                match (&**pat, esc) {
                    (X::Text(p), esc) => {
                        let mut le = LikeExpr::new(p.as_str());
                        if let Some(c) = esc {
                            le = le.escape(*c);
                        }
                        if *not {
                            PgExpr::not_ilike(e.build(), le)
                        } else {
                            PgExpr::ilike(e.build(), le)
                        }
                    }
                    (p, Some(c)) => e.build().binary(
                        op,
                        SimpleExpr::Binary(Box::new(p.build()), BinOper::Escape, Box::new(SimpleExpr::Constant((*c).into()))),
                    ),
                    (p, None) => e.build().binary(op, p.build()),
                }
            }
            X::In(e, not, list) => {
                let l: Vec<SimpleExpr> = list.iter().map(|x| x.build()).collect();
                match (*not, crate::apply::route(2)) {
                    (true, 0) => Expr::expr(e.build()).is_not_in(l),
                    (true, _) => ExprTrait::is_not_in(e.build(), l),
                    (false, 0) => Expr::expr(e.build()).is_in(l),
                    (false, _) => ExprTrait::is_in(e.build(), l),
                }
            }
            X::IsNull(e, not) => match (*not, crate::apply::route(2)) {
                (true, 0) => Expr::expr(e.build()).is_not_null(),
                (true, _) => ExprTrait::is_not_null(e.build()),
                (false, 0) => Expr::expr(e.build()).is_null(),
                (false, _) => ExprTrait::is_null(e.build()),
            },
            X::Func(name, args) => {
                let a: Vec<SimpleExpr> = args.iter().map(|x| x.build()).collect();
                // the aggregate shorthands of `Expr`
                if crate::apply::route(3) == 0 {
                    match (*name, a.len()) {
                        ("MAX", 1) => return Expr::expr(a[0].clone()).max(),
                        ("MIN", 1) => return Expr::expr(a[0].clone()).min(),
                        ("SUM", 1) => return Expr::expr(a[0].clone()).sum(),
                        ("COUNT", 1) => return Expr::expr(a[0].clone()).count(),
                        ("COUNT_DISTINCT", 1) => return Expr::expr(a[0].clone()).count_distinct(),
                        ("IFNULL", 2) => return Expr::expr(a[0].clone()).if_null(a[1].clone()),
                        _ => {}
                    }
                }
                match (*name, a.len()) {
                    ("ABS", 1) => Func::abs(a[0].clone()).into(),
                    ("LOWER", 1) => Func::lower(a[0].clone()).into(),
                    ("UPPER", 1) => Func::upper(a[0].clone()).into(),
                    ("COALESCE", _) => Func::coalesce(a).into(),
                    ("MAX", 1) => Func::max(a[0].clone()).into(),
                    ("MIN", 1) => Func::min(a[0].clone()).into(),
                    ("SUM", 1) => Func::sum(a[0].clone()).into(),
                    ("COUNT", 1) => Func::count(a[0].clone()).into(),
                    ("ROUND", 1) => Func::round(a[0].clone()).into(),
                    ("IFNULL", 2) => Func::if_null(a[0].clone(), a[1].clone()).into(),
                    ("GREATEST", _) => Func::greatest(a).into(),
                    ("LEAST", _) => Func::least(a).into(),
                    ("CHAR_LENGTH", 1) => Func::char_length(a[0].clone()).into(),
                    ("COUNT_DISTINCT", 1) => Func::count_distinct(a[0].clone()).into(),
                    ("AVG", 1) => Func::avg(a[0].clone()).into(),
                    ("BIT_AND", 1) => Func::bit_and(a[0].clone()).into(),
                    ("BIT_OR", 1) => Func::bit_or(a[0].clone()).into(),
                    ("MD5", 1) => Func::md5(a[0].clone()).into(),
                    ("RANDOM", 0) => Func::random().into(),
                    // Postgres-only functions (PgFunc): generated for Postgres text-level workloads only
                    // two arguments = (regconfig OID as an unsigned value, text)
                    ("TO_TSQUERY" | "TO_TSVECTOR" | "PHRASETO_TSQUERY" | "PLAINTO_TSQUERY" | "WEBSEARCH_TO_TSQUERY", 2) => {
                        let cfg = match &args[0] {
                            X::Val(Value::Unsigned(Some(n))) => Some(*n),
                            other => panic!("harness: regconfig must be an unsigned value, got {other:?}"),
                        };
                        match *name {
                            "TO_TSQUERY" => PgFunc::to_tsquery(a[1].clone(), cfg).into(),
                            "TO_TSVECTOR" => PgFunc::to_tsvector(a[1].clone(), cfg).into(),
                            "PHRASETO_TSQUERY" => PgFunc::phraseto_tsquery(a[1].clone(), cfg).into(),
                            "PLAINTO_TSQUERY" => PgFunc::plainto_tsquery(a[1].clone(), cfg).into(),
                            _ => PgFunc::websearch_to_tsquery(a[1].clone(), cfg).into(),
                        }
                    }
                    ("TO_TSQUERY", 1) => PgFunc::to_tsquery(a[0].clone(), None).into(),
                    ("TO_TSVECTOR", 1) => PgFunc::to_tsvector(a[0].clone(), None).into(),
                    ("PHRASETO_TSQUERY", 1) => PgFunc::phraseto_tsquery(a[0].clone(), None).into(),
                    ("PLAINTO_TSQUERY", 1) => PgFunc::plainto_tsquery(a[0].clone(), None).into(),
                    ("WEBSEARCH_TO_TSQUERY", 1) => PgFunc::websearch_to_tsquery(a[0].clone(), None).into(),
                    ("TS_RANK", 2) => PgFunc::ts_rank(a[0].clone(), a[1].clone()).into(),
                    ("TS_RANK_CD", 2) => PgFunc::ts_rank_cd(a[0].clone(), a[1].clone()).into(),
                    ("STARTS_WITH", 2) => PgFunc::starts_with(a[0].clone(), a[1].clone()).into(),
                    ("GEN_RANDOM_UUID", 0) => PgFunc::gen_random_uuid().into(),
                    ("JSON_BUILD_OBJECT", 2) => PgFunc::json_build_object(vec![(a[0].clone(), a[1].clone())]).into(),
                    ("JSON_BUILD_OBJECT", 4) => PgFunc::json_build_object(vec![(a[0].clone(), a[1].clone()), (a[2].clone(), a[3].clone())]).into(),
                    ("JSON_AGG", 1) => PgFunc::json_agg(a[0].clone()).into(),
                    ("ARRAY_AGG", 1) => PgFunc::array_agg(a[0].clone()).into(),
                    ("ROUND", 2) => Func::round_with_precision(a[0].clone(), a[1].clone()).into(),
                    ("ANY", 1) => PgFunc::any(a[0].clone()).into(),
                    ("SOME", 1) => PgFunc::some(a[0].clone()).into(),
                    ("ALL", 1) => PgFunc::all(a[0].clone()).into(),
                    ("ARRAY_AGG_DISTINCT", 1) => PgFunc::array_agg_distinct(a[0].clone()).into(),
                    ("DATE_TRUNC", 2) => {
                        use sea_query::PgDateTruncUnit as U;
                        let unit = match &args[0] {
                            X::Text(u) => match u.as_str() {
                                "microseconds" => U::Microseconds,
                                "milliseconds" => U::Milliseconds,
                                "second" => U::Second,
                                "minute" => U::Minute,
                                "hour" => U::Hour,
                                "day" => U::Day,
                                "week" => U::Week,
                                "month" => U::Month,
                                "quarter" => U::Quarter,
                                "year" => U::Year,
                                "decade" => U::Decade,
                                "century" => U::Century,
                                "millennium" => U::Millennium,
                                other => panic!("harness: unknown date_trunc unit {other}"),
                            },
                            other => panic!("harness: date_trunc unit must be text, got {other:?}"),
                        };
                        PgFunc::date_trunc(unit, a[1].clone()).into()
                    }
                    (n, _) => Func::cust(Alias::new(n)).args(a).into(),
                }
            }
            X::Cast(e, ty) => match crate::apply::route(3) {
                0 => Expr::expr(e.build()).cast_as(Alias::new(*ty)),
                1 => ExprTrait::cast_as(e.build(), Alias::new(*ty)),
                _ => e.build().cast_as(Alias::new(*ty)),
            },
            X::Case(whens, els) => {
                let via_expr = !whens.is_empty() && crate::apply::route(2) == 0;
                let mut c = if via_expr { Expr::case(whens[0].0.build(), whens[0].1.build()) } else { CaseStatement::new() };
                for (w, t) in whens.iter().skip(via_expr as usize) {
                    c = c.case(w.build(), t.build());
                }
                if let Some(e) = els {
                    c = c.finally(e.build());
                }
                c.into()
            }
            X::Tuple(v) => SimpleExpr::Tuple(v.iter().map(|x| x.build()).collect()),
            X::QCol(t, c) => Expr::col((Alias::new(t.as_str()), Alias::new(c.as_str()))).into(),
            X::Val(v) => SimpleExpr::Value(v.clone()),
            #[allow(deprecated)]
            X::Star => match crate::apply::route(3) {
                0 => Expr::asterisk().into(),
                1 => SimpleExpr::Column(Asterisk.into_column_ref()),
                _ => Expr::col(Asterisk).into(),
            },
            #[allow(deprecated)]
            X::QStar(t) => match crate::apply::route(2) {
                0 => Expr::table_asterisk(Alias::new(t.as_str())).into(),
                _ => Expr::col((Alias::new(t.as_str()), Asterisk)).into(),
            },
            X::Exists(not, s) => {
                let e = Expr::exists(crate::apply::sel(s));
                if *not {
                    e.not()
                } else {
                    e
                }
            }
            X::InSub(e, not, s) => {
                match (*not, crate::apply::route(2)) {
                    (true, 0) => Expr::expr(e.build()).not_in_subquery(crate::apply::sel(s)),
                    (true, _) => ExprTrait::not_in_subquery(e.build(), crate::apply::sel(s)),
                    (false, 0) => Expr::expr(e.build()).in_subquery(crate::apply::sel(s)),
                    (false, _) => ExprTrait::in_subquery(e.build(), crate::apply::sel(s)),
                }
            }
            X::Scalar(s) => match (&s.with, crate::apply::route(2)) {
                // the sub-query's WITH clause attached from outside: a `WithQuery` as the sub-query statement
                (Some(w), 0) => {
                    let mut body = (**s).clone();
                    body.with = None;
                    let wq = crate::apply::with_clause(w).query(crate::apply::sel(&body));
                    SimpleExpr::SubQuery(None, Box::new(wq.into_sub_query_statement()))
                }
                _ => SimpleExpr::SubQuery(None, Box::new(crate::apply::sel(s).into_sub_query_statement())),
            },
            X::SubOp(e, op, kind, s) => {
                let q = crate::apply::sel(s);
                let sub = match kind {
                    0 => Expr::any(q),
                    1 => Expr::some(q),
                    _ => Expr::all(q),
                };
                e.build().binary(*op, sub)
            }
            X::InTuples(cols, rows) => {
                let lhs = Expr::tuple(cols.iter().map(|c| c.build()));
                lhs.in_tuples(rows.iter().map(|r| crate::apply::value_tuple(r)))
            }
            X::Kw(k) => match *k {
                "CURRENT_TIMESTAMP" => Expr::current_timestamp().into(),
                "CURRENT_DATE" => Expr::current_date().into(),
                "CURRENT_TIME" => Expr::current_time().into(),
                other => Expr::custom_keyword(Alias::new(other)).into(),
            },
            X::Cust(w) => Expr::cust(w.as_str()),
            X::AsEnum(t, e) => e.build().as_enum(Alias::new(t.as_str())),
            X::CustWith(pieces, args, numbered) => {
                let mut tpl = String::new();
                for p in pieces {
                    match p {
                        TplPiece::Text(t) => tpl.push_str(t),
                        TplPiece::Arg(i) => {
                            if *numbered {
                                tpl.push_str(&format!("${}", i + 1));
                            } else {
                                tpl.push('?');
                            }
                        }
                    }
                }
                Expr::cust_with_exprs(tpl, args.iter().map(|a| a.build()).collect::<Vec<_>>())
            }
        }
    }

    /// The parse tree the rendering must have under dialect `d`.
    pub fn expected(&self, d: Dialect) -> PX {
        match self {
            X::Col(c) => PX::Col(vec![c.to_string()]),
            X::Int(i) => PX::Num(i.to_string()),
            X::Text(s) => PX::Str(s.clone()),
            X::Null => PX::Kw("NULL".into()),
            X::Bool(v) => PX::Kw(if *v { "TRUE" } else { "FALSE" }.into()),
            X::Not(e) => PX::Unary("NOT".into(), Box::new(e.expected(d))),
            X::Bin(l, op, r) => {
                let name = op_name(d, op);
                if is_like_kind(&name) {
                    PX::Like { op: name, e: Box::new(l.expected(d)), pat: Box::new(r.expected(d)), esc: None }
                } else {
                    PX::Bin(Box::new(l.expected(d)), name, Box::new(r.expected(d)))
                }
            }
            X::Between(e, not, lo, hi) => PX::Between {
                not: *not,
                e: Box::new(e.expected(d)),
                lo: Box::new(lo.expected(d)),
                hi: Box::new(hi.expected(d)),
            },
            X::Like(e, not, pat, esc) => PX::Like {
                op: if *not { "NOT LIKE".into() } else { "LIKE".into() },
                e: Box::new(e.expected(d)),
                pat: Box::new(pat.expected(d)),
                esc: esc.map(|c| Box::new(PX::Str(c.to_string()))),
            },
            X::ILike(e, not, pat, esc) => PX::Like {
                op: if *not { "NOT ILIKE".into() } else { "ILIKE".into() },
                e: Box::new(e.expected(d)),
                pat: Box::new(pat.expected(d)),
                esc: esc.map(|c| Box::new(PX::Str(c.to_string()))),
            },
            X::In(e, not, list) => {
                if list.is_empty() {
                    // documented encoding of the empty list
                    let one = || Box::new(PX::Num("1".into()));
                    if *not {
                        PX::Bin(one(), "=".into(), one())
                    } else {
                        PX::Bin(one(), "=".into(), Box::new(PX::Num("2".into())))
                    }
                } else {
                    PX::In { not: *not, e: Box::new(e.expected(d)), list: list.iter().map(|x| x.expected(d)).collect() }
                }
            }
            X::IsNull(e, not) => PX::Bin(
                Box::new(e.expected(d)),
                if *not { "IS NOT".into() } else { "IS".into() },
                Box::new(PX::Kw("NULL".into())),
            ),
            X::Func(name, args) => PX::Func {
                name: name.to_string(),
                args: args.iter().map(|x| (false, x.expected(d))).collect(),
                star: false,
            },
            X::Cast(e, ty) => PX::Cast(Box::new(e.expected(d)), ty.to_ascii_uppercase()),
            X::Case(whens, els) => PX::Case {
                whens: whens.iter().map(|(w, t)| (w.expected(d), t.expected(d))).collect(),
                els: els.as_ref().map(|e| Box::new(e.expected(d))),
            },
            X::Tuple(v) => {
                if v.len() == 1 {
                    v[0].expected(d)
                } else {
                    PX::Tuple(v.iter().map(|x| x.expected(d)).collect())
                }
            }
            X::QCol(t, c) => PX::Col(vec![t.clone(), c.clone()]),
            X::Star => PX::Col(vec!["*".into()]),
            X::QStar(t) => PX::Col(vec![t.clone(), "*".into()]),
            // a custom fragment stays together as an operand: its own text parsed on its own
            X::Cust(w) => match vcore::lex::lex(d, w).ok().and_then(|t| vcore::px::parse_expr(d, &t).ok()) {
                Some(PX::Col(c)) if c.len() == 1 && !w.contains(['"', '`']) => PX::Kw(w.clone()),
                Some(p) => p,
                None => PX::Kw(w.clone()),
            },
            X::AsEnum(t, e) => {
                if d == Dialect::Postgres {
                    PX::Cast(Box::new(e.expected(d)), format!("ID<{t}>"))
                } else {
                    e.expected(d)
                }
            }
            X::Kw(k) => PX::Kw(k.to_string()),
            X::Val(_) | X::Exists(..) | X::InSub(..) | X::Scalar(_) | X::CustWith(..) | X::SubOp(..) | X::InTuples(..) => {
                unimplemented!("statement-level nodes are compared through the reference renderer, not expected()")
            }
        }
    }

    /// Fully parenthesised SQLite rendering, written from the SQLite grammar (inline literals).
    pub fn reference_sqlite(&self) -> String {
        let mut r = crate::refsql::Ref::new(Dialect::Sqlite, false);
        crate::refsql::x(&mut r, self)
    }

    pub fn depth(&self) -> usize {
        1 + self.children().iter().map(|c| c.depth()).max().unwrap_or(0)
    }

    pub fn children(&self) -> Vec<&X> {
        match self {
            X::Col(_) | X::Int(_) | X::Text(_) | X::Null | X::Bool(_) => vec![],
            X::QCol(..) | X::Val(_) | X::Star | X::QStar(_) | X::Exists(..) | X::Scalar(_) | X::Cust(_) | X::Kw(_) => vec![],
            X::InSub(e, _, _) | X::AsEnum(_, e) | X::SubOp(e, _, _, _) => vec![e],
            X::InTuples(c, _) => c.iter().collect(),
            X::CustWith(_, args, _) => args.iter().collect(),
            X::Not(e) | X::IsNull(e, _) | X::Cast(e, _) => vec![e],
            X::Bin(l, _, r) => vec![l, r],
            X::Between(e, _, lo, hi) => vec![e, lo, hi],
            X::Like(e, _, p, _) | X::ILike(e, _, p, _) => vec![e, p],
            X::In(e, _, l) => std::iter::once(&**e).chain(l.iter()).collect(),
            X::Func(_, a) | X::Tuple(a) => a.iter().collect(),
            X::Case(w, e) => w
                .iter()
                .flat_map(|(a, b)| [a, b])
                .chain(e.iter().map(|x| &**x))
                .collect(),
        }
    }

    /// short class label of the top node, for coverage matrices and signatures
    pub fn class(&self, d: Dialect) -> String {
        match self {
            X::Col(_) => "col".into(),
            X::Int(_) | X::Text(_) | X::Null | X::Bool(_) => "lit".into(),
            X::Not(_) => "NOT".into(),
            X::Bin(_, op, _) => op_name(d, op),
            X::Between(_, n, _, _) => if *n { "NOT BETWEEN" } else { "BETWEEN" }.into(),
            X::Like(_, n, _, e) => format!("{}LIKE{}", if *n { "NOT " } else { "" }, if e.is_some() { "+ESC" } else { "" }),
            X::ILike(_, n, _, e) => format!("{}ILIKE{}", if *n { "NOT " } else { "" }, if e.is_some() { "+ESC" } else { "" }),
            X::In(_, n, l) => format!("{}IN{}", if *n { "NOT " } else { "" }, if l.is_empty() { "()" } else { "" }),
            X::IsNull(_, n) => if *n { "IS NOT NULL" } else { "IS NULL" }.into(),
            X::Func(n, _) => format!("{n}()"),
            X::Cast(_, _) => "CAST".into(),
            X::Case(_, _) => "CASE".into(),
            X::Tuple(_) => "tuple".into(),
            X::QCol(..) => "col".into(),
            X::Val(_) | X::Star | X::QStar(_) | X::Cust(_) => "lit".into(),
            X::Exists(..) => "EXISTS".into(),
            X::InSub(_, n, _) => if *n { "NOT IN(sub)" } else { "IN(sub)" }.into(),
            X::Scalar(_) => "(sub)".into(),
            X::SubOp(_, _, k, _) => ["ANY(sub)", "SOME(sub)", "ALL(sub)"][*k as usize % 3].into(),
            X::Kw(k) => k.to_string(),
            X::InTuples(..) => "IN(tuples)".into(),
            X::AsEnum(..) => "AS ENUM".into(),
            X::CustWith(..) => "custom".into(),
        }
    }
}
