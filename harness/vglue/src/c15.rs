//! C15 — take, clone and clear behave as value operations on builders.
//! Oracle: a history is a list of pre-built calls; at every prefix position the
//! statement is branched (take / clone / clear) and compared with the statement
//! built from the same history (for clear: with that clause's calls filtered out).

use crate::gen::{base_tables, Cfg, Gen, K};
use crate::util::*;
use sea_query::extension::mysql::{IndexHintScope, MySqlSelectStatementExt};
use sea_query::extension::postgres::{PostgresSelectStatementExt, SampleMethod};
use sea_query::*;
use serde_json::json;
use std::rc::Rc;
use vcore::prng::{hash_str, Rng};
use vcore::report::Report;
use vcore::run::{guard, Ctx};

pub type CallFn<S> = Rc<dyn Fn(&mut S)>;

pub struct Call<S> {
    /// clause label, used by the "history without that clause" model of clear operations
    pub clause: &'static str,
    pub name: String,
    pub f: CallFn<S>,
}

impl<S> Clone for Call<S> {
    fn clone(&self) -> Self {
        Call { clause: self.clause, name: self.name.clone(), f: self.f.clone() }
    }
}

pub trait Subject: Clone + 'static {
    const NAME: &'static str;
    /// `take()` leaves a statement equal to a newly constructed one (query statements)
    const FRESH_AFTER_TAKE: bool;
    fn fresh() -> Self;
    fn take_(&mut self) -> Option<Self>;
    /// renderings on all backends (a panic inside rendering is part of the observable result)
    fn render(&self) -> Vec<String>;
    fn dbg(&self) -> String;
    /// `==` where the type has PartialEq, else Debug equality
    fn same(&self, o: &Self) -> bool;
    /// clear operations: (name, clause label removed, operation)
    fn clears() -> Vec<(&'static str, &'static str, fn(&mut Self))> {
        vec![]
    }
}

fn render_query(s: &dyn QueryStatementBuilder) -> Vec<String> {
    let mut v = vec![];
    for d in Dialect::ALL {
        v.push(
            guard(|| {
                let mut o = String::new();
                let i = s.build_collect_any(qb(d), &mut o);
                let (p, vals) = s.build_any(qb(d));
                format!("{i} || {p} || {vals:?}")
            })
            .unwrap_or_else(|p| format!("PANIC {}", vcore::run::panic_sig(&p))),
        );
    }
    v
}

macro_rules! render_schema {
    ($s:expr) => {{
        let mut v = vec![];
        for d in Dialect::ALL {
            v.push(guard(|| $s.build_any(sb(d))).unwrap_or_else(|p| format!("PANIC {}", vcore::run::panic_sig(&p))));
        }
        v
    }};
}

impl Subject for SelectStatement {
    const NAME: &'static str = "SelectStatement";
    const FRESH_AFTER_TAKE: bool = true;
    fn fresh() -> Self {
        SelectStatement::new()
    }
    fn take_(&mut self) -> Option<Self> {
        Some(self.take())
    }
    fn render(&self) -> Vec<String> {
        render_query(self)
    }
    fn dbg(&self) -> String {
        format!("{self:?}")
    }
    fn same(&self, o: &Self) -> bool {
        self == o
    }
    fn clears() -> Vec<(&'static str, &'static str, fn(&mut Self))> {
        vec![
            ("clear_selects", "selects", |s| {
                s.clear_selects();
            }),
            ("from_clear", "from", |s| {
                s.from_clear();
            }),
            ("reset_limit", "limit", |s| {
                s.reset_limit();
            }),
            ("reset_offset", "offset", |s| {
                s.reset_offset();
            }),
            ("clear_order_by", "order", |s| {
                s.clear_order_by();
            }),
        ]
    }
}

impl Subject for WindowStatement {
    const NAME: &'static str = "WindowStatement";
    const FRESH_AFTER_TAKE: bool = true;
    fn fresh() -> Self {
        WindowStatement::new()
    }
    fn take_(&mut self) -> Option<Self> {
        Some(self.take())
    }
    fn render(&self) -> Vec<String> {
        let q = Query::select().expr_window(Expr::col(Alias::new("a")), self.clone()).from(Alias::new("t1")).to_owned();
        render_query(&q)
    }
    fn dbg(&self) -> String {
        format!("{self:?}")
    }
    fn same(&self, o: &Self) -> bool {
        self == o
    }
    fn clears() -> Vec<(&'static str, &'static str, fn(&mut Self))> {
        vec![("clear_order_by", "order", |s| {
            s.clear_order_by();
        })]
    }
}

macro_rules! query_clone_only {
    ($t:ty, $name:expr, $clears:expr) => {
        impl Subject for $t {
            const NAME: &'static str = $name;
            const FRESH_AFTER_TAKE: bool = false;
            fn fresh() -> Self {
                <$t>::new()
            }
            fn take_(&mut self) -> Option<Self> {
                None
            }
            fn render(&self) -> Vec<String> {
                render_query(self)
            }
            fn dbg(&self) -> String {
                format!("{self:?}")
            }
            fn same(&self, o: &Self) -> bool {
                self == o
            }
            fn clears() -> Vec<(&'static str, &'static str, fn(&mut Self))> {
                $clears
            }
        }
    };
}

query_clone_only!(InsertStatement, "InsertStatement", vec![]);
query_clone_only!(
    UpdateStatement,
    "UpdateStatement",
    vec![("clear_order_by", "order", |s: &mut UpdateStatement| {
        s.clear_order_by();
    })]
);
query_clone_only!(
    DeleteStatement,
    "DeleteStatement",
    vec![("clear_order_by", "order", |s: &mut DeleteStatement| {
        s.clear_order_by();
    })]
);

macro_rules! schema_subject {
    ($t:ty, $name:expr, $fresh:expr) => {
        impl Subject for $t {
            const NAME: &'static str = $name;
            const FRESH_AFTER_TAKE: bool = false;
            fn fresh() -> Self {
                $fresh
            }
            fn take_(&mut self) -> Option<Self> {
                Some(self.take())
            }
            fn render(&self) -> Vec<String> {
                render_schema!(self)
            }
            fn dbg(&self) -> String {
                format!("{self:?}")
            }
            fn same(&self, o: &Self) -> bool {
                format!("{self:?}") == format!("{o:?}")
            }
        }
    };
}

schema_subject!(TableCreateStatement, "TableCreateStatement", Table::create());
schema_subject!(TableAlterStatement, "TableAlterStatement", Table::alter());
schema_subject!(TableDropStatement, "TableDropStatement", Table::drop());
schema_subject!(TableRenameStatement, "TableRenameStatement", Table::rename());
schema_subject!(TableTruncateStatement, "TableTruncateStatement", Table::truncate());
schema_subject!(IndexCreateStatement, "IndexCreateStatement", Index::create());
schema_subject!(ForeignKeyCreateStatement, "ForeignKeyCreateStatement", ForeignKey::create());

impl Subject for ColumnDef {
    const NAME: &'static str = "ColumnDef";
    const FRESH_AFTER_TAKE: bool = false;
    fn fresh() -> Self {
        ColumnDef::new(Alias::new("col"))
    }
    fn take_(&mut self) -> Option<Self> {
        Some(self.take())
    }
    fn render(&self) -> Vec<String> {
        let t = Table::create().table(Alias::new("t")).col(self.clone()).to_owned();
        render_schema!(t)
    }
    fn dbg(&self) -> String {
        format!("{self:?}")
    }
    fn same(&self, o: &Self) -> bool {
        format!("{self:?}") == format!("{o:?}")
    }
}

fn call<S>(clause: &'static str, name: impl Into<String>, f: impl Fn(&mut S) + 'static) -> Call<S> {
    Call { clause, name: name.into(), f: Rc::new(f) }
}

fn a(s: &str) -> Alias {
    Alias::new(s)
}

// ---- call pools ---------------------------------------------------------------

fn scope_t1() -> Vec<crate::gen::Rel> {
    let mut r = base_tables().remove(0);
    r.name = "t1".into();
    vec![r]
}

fn select_call(rng: &mut Rng) -> Call<SelectStatement> {
    let scope = scope_t1();
    let mut g = Gen::new(rng, Cfg::text(Dialect::Postgres));
    match g.rng.below(25) {
        // condition groups without members: they render nothing (or a constant) but are state all the same
        22 => {
            let neg = g.rng.coin();
            call("where", if neg { "cond_where(!all[])" } else { "cond_where(all[])" }, move |s: &mut SelectStatement| {
                s.cond_where(if neg { Cond::all().not() } else { Cond::all() });
            })
        }
        23 => {
            let any = g.rng.coin();
            call("having", if any { "cond_having(any[])" } else { "cond_having(all[])" }, move |s: &mut SelectStatement| {
                s.cond_having(if any { Cond::any() } else { Cond::all() });
            })
        }
        24 => {
            let c = g.boolean(&scope, 1).build();
            call("having", "cond_having(!all[c])", move |s: &mut SelectStatement| {
                s.cond_having(Cond::all().add(c.clone()).not());
            })
        }
        0 | 1 => {
            let e = g.scalar(&scope, K::I, 2).build();
            call("selects", "expr", move |s: &mut SelectStatement| {
                s.expr(e.clone());
            })
        }
        2 => {
            let c = *g.rng.pick(&["id", "a", "b", "c"]);
            call("selects", format!("column({c})"), move |s: &mut SelectStatement| {
                s.column(a(c));
            })
        }
        3 => {
            let e = g.scalar(&scope, K::T, 1).build();
            call("selects", "expr_as", move |s: &mut SelectStatement| {
                s.expr_as(e.clone(), a("al"));
            })
        }
        4 => call("distinct", "distinct", |s: &mut SelectStatement| {
            s.distinct();
        }),
        5 | 6 => {
            let t = *g.rng.pick(&["t1", "t2", "t3"]);
            call("from", format!("from({t})"), move |s: &mut SelectStatement| {
                s.from(a(t));
            })
        }
        7 => {
            let sub = crate::apply::sel(&g.simple_select(1, None));
            call("from", "from_subquery", move |s: &mut SelectStatement| {
                s.from_subquery(sub.clone(), a("sq"));
            })
        }
        8 => {
            let c = g.boolean(&scope, 1).build();
            call("join", "left_join", move |s: &mut SelectStatement| {
                s.left_join(a("t2"), c.clone());
            })
        }
        9 | 10 => {
            let c = g.boolean(&scope, 2).build();
            call("where", "and_where", move |s: &mut SelectStatement| {
                s.and_where(c.clone());
            })
        }
        11 => {
            let c = Cond::any().add(g.boolean(&scope, 1).build()).add(g.boolean(&scope, 1).build());
            call("where", "cond_where(any)", move |s: &mut SelectStatement| {
                s.cond_where(c.clone());
            })
        }
        12 => {
            let e = g.scalar(&scope, K::I, 1).build();
            call("group", "add_group_by", move |s: &mut SelectStatement| {
                s.add_group_by([e.clone()]);
            })
        }
        13 => {
            let c = g.boolean(&scope, 1).build();
            call("having", "and_having", move |s: &mut SelectStatement| {
                s.and_having(c.clone());
            })
        }
        14 | 15 => {
            let e = g.scalar(&scope, K::I, 1).build();
            let desc = g.rng.coin();
            let nulls = g.rng.chance(1, 3);
            call("order", "order_by_expr", move |s: &mut SelectStatement| {
                let o = if desc { Order::Desc } else { Order::Asc };
                if nulls {
                    s.order_by_expr_with_nulls(e.clone(), o, NullOrdering::Last);
                } else {
                    s.order_by_expr(e.clone(), o);
                }
            })
        }
        16 => {
            let n = g.rng.below(50) as u64;
            call("limit", format!("limit({n})"), move |s: &mut SelectStatement| {
                s.limit(n);
            })
        }
        17 => {
            let n = g.rng.below(50) as u64;
            call("offset", format!("offset({n})"), move |s: &mut SelectStatement| {
                s.offset(n);
            })
        }
        18 => {
            let mut u = crate::apply::sel(&g.simple_select(1, None));
            if g.rng.coin() {
                // an operand with its own ordering and limit
                u.order_by_expr(Expr::val(1).into(), Order::Desc).limit(3);
            }
            let ty = *g.rng.pick(&[UnionType::All, UnionType::Distinct, UnionType::Except, UnionType::Intersect]);
            call("union", "union", move |s: &mut SelectStatement| {
                s.union(ty, u.clone());
            })
        }
        19 => match g.rng.below(4) {
            0 => call("lock", "lock", |s: &mut SelectStatement| {
                s.lock(LockType::Update);
            }),
            1 => call("index_hint", "use_index", |s: &mut SelectStatement| {
                s.use_index(a("ix"), IndexHintScope::All);
            }),
            2 => call("table_sample", "table_sample", |s: &mut SelectStatement| {
                s.table_sample(SampleMethod::SYSTEM, 10.0, None);
            }),
            _ => call("distinct", "distinct_on", |s: &mut SelectStatement| {
                s.distinct_on([a("a")]);
            }),
        },
        20 => {
            let w = WindowStatement::partition_by(a("a"));
            if g.rng.coin() {
                let w2 = w.clone();
                call("selects", "expr_window", move |s: &mut SelectStatement| {
                    s.expr_window(Expr::col(a("b")), w2.clone());
                })
            } else {
                call("window", "window", move |s: &mut SelectStatement| {
                    s.window(a("w"), w.clone());
                })
            }
        }
        _ => {
            let mut cte = CommonTableExpression::new();
            cte.table_name(a("c1")).query(crate::apply::sel(&g.simple_select(1, None)));
            let wc = WithClause::new().cte(cte).to_owned();
            call("with", "with_cte", move |s: &mut SelectStatement| {
                s.with_cte(wc.clone());
            })
        }
    }
}

fn window_call(rng: &mut Rng) -> Call<WindowStatement> {
    match rng.below(4) {
        0 => {
            let c = *rng.pick(&["a", "b", "c"]);
            call("partition", format!("partition_by({c})"), move |s: &mut WindowStatement| {
                s.add_partition_by(Expr::col(a(c)).into());
            })
        }
        1 | 2 => {
            let c = *rng.pick(&["a", "b", "id"]);
            let desc = rng.coin();
            call("order", format!("order_by({c})"), move |s: &mut WindowStatement| {
                s.order_by(a(c), if desc { Order::Desc } else { Order::Asc });
            })
        }
        _ => {
            let n = rng.below(5) as u32;
            call("frame", "frame", move |s: &mut WindowStatement| {
                s.frame_between(if n % 2 == 0 { FrameType::Rows } else { FrameType::Range }, Frame::Preceding(n), Frame::CurrentRow);
            })
        }
    }
}

fn insert_call(rng: &mut Rng) -> Call<InsertStatement> {
    match rng.below(5) {
        0 => call("table", "into_table", |s: &mut InsertStatement| {
            s.into_table(a("t3"));
        }),
        1 => call("columns", "columns", |s: &mut InsertStatement| {
            s.columns([a("k"), a("v")]);
        }),
        2 => {
            let k = rng.below(1000) as i32;
            call("values", "values", move |s: &mut InsertStatement| {
                let _ = s.values([k.into(), "x".into()]);
            })
        }
        3 => call("returning", "returning_all", |s: &mut InsertStatement| {
            s.returning_all();
        }),
        _ => call("conflict", "on_conflict", |s: &mut InsertStatement| {
            s.on_conflict(OnConflict::column(a("k")).update_column(a("v")).to_owned());
        }),
    }
}

fn update_call(rng: &mut Rng) -> Call<UpdateStatement> {
    match rng.below(6) {
        0 => call("table", "table", |s: &mut UpdateStatement| {
            s.table(a("t1"));
        }),
        1 => {
            let k = rng.below(1000) as i32;
            call("set", "value", move |s: &mut UpdateStatement| {
                s.value(a("a"), k);
            })
        }
        2 => {
            let k = rng.below(10) as i32;
            call("where", "and_where", move |s: &mut UpdateStatement| {
                s.and_where(Expr::col(a("b")).gt(k));
            })
        }
        3 | 4 => {
            let c = *rng.pick(&["a", "b", "id"]);
            call("order", format!("order_by({c})"), move |s: &mut UpdateStatement| {
                s.order_by(a(c), Order::Asc);
            })
        }
        _ => {
            let n = rng.below(9) as u64;
            call("limit", "limit", move |s: &mut UpdateStatement| {
                s.limit(n);
            })
        }
    }
}

fn delete_call(rng: &mut Rng) -> Call<DeleteStatement> {
    match rng.below(5) {
        0 => call("table", "from_table", |s: &mut DeleteStatement| {
            s.from_table(a("t1"));
        }),
        1 => {
            let k = rng.below(10) as i32;
            call("where", "and_where", move |s: &mut DeleteStatement| {
                s.and_where(Expr::col(a("b")).gt(k));
            })
        }
        2 | 3 => {
            let c = *rng.pick(&["a", "b", "id"]);
            call("order", format!("order_by({c})"), move |s: &mut DeleteStatement| {
                s.order_by(a(c), Order::Desc);
            })
        }
        _ => {
            let n = rng.below(9) as u64;
            call("limit", "limit", move |s: &mut DeleteStatement| {
                s.limit(n);
            })
        }
    }
}

fn column_def(rng: &mut Rng, name: &str) -> ColumnDef {
    let mut c = ColumnDef::new(a(name));
    match rng.below(5) {
        0 => c.integer(),
        1 => c.string_len(10 + rng.below(20) as u32),
        2 => c.text(),
        3 => c.double(),
        _ => c.boolean(),
    };
    if rng.coin() {
        c.not_null();
    }
    if rng.chance(1, 3) {
        c.default(rng.below(9) as i32);
    }
    c
}

fn columndef_call(rng: &mut Rng) -> Call<ColumnDef> {
    match rng.below(9) {
        0 => call("type", "integer", |c: &mut ColumnDef| {
            c.integer();
        }),
        1 => call("type", "string_len", |c: &mut ColumnDef| {
            c.string_len(32);
        }),
        2 => call("spec", "not_null", |c: &mut ColumnDef| {
            c.not_null();
        }),
        3 => {
            let k = rng.below(100) as i32;
            call("spec", "default", move |c: &mut ColumnDef| {
                c.default(k);
            })
        }
        4 => call("spec", "unique_key", |c: &mut ColumnDef| {
            c.unique_key();
        }),
        5 => call("spec", "primary_key", |c: &mut ColumnDef| {
            c.primary_key();
        }),
        6 => call("spec", "auto_increment", |c: &mut ColumnDef| {
            c.auto_increment();
        }),
        7 => call("spec", "check", |c: &mut ColumnDef| {
            c.check(Expr::col(a("col")).gt(0));
        }),
        _ => call("spec", "comment", |c: &mut ColumnDef| {
            c.comment("note");
        }),
    }
}

fn table_create_call(rng: &mut Rng) -> Call<TableCreateStatement> {
    match rng.below(12) {
        0 => call("table", "table", |s: &mut TableCreateStatement| {
            s.table(a("t"));
        }),
        1 | 2 | 3 => {
            let name = format!("c{}", rng.below(6));
            let cd = column_def(rng, &name);
            call("col", format!("col({name})"), move |s: &mut TableCreateStatement| {
                s.col(cd.clone());
            })
        }
        4 => call("flag", "if_not_exists", |s: &mut TableCreateStatement| {
            s.if_not_exists();
        }),
        5 => {
            let ix = Index::create().name("ix").col(a("c1")).unique().to_owned();
            call("index", "index", move |s: &mut TableCreateStatement| {
                s.index(&mut ix.clone());
            })
        }
        6 => {
            let ix = Index::create().col(a("c0")).to_owned();
            call("index", "primary_key", move |s: &mut TableCreateStatement| {
                s.primary_key(&mut ix.clone());
            })
        }
        7 => {
            let fk = ForeignKey::create().name("fk").from(a("t"), a("c2")).to(a("u"), a("id")).on_delete(ForeignKeyAction::Cascade).to_owned();
            call("fk", "foreign_key", move |s: &mut TableCreateStatement| {
                s.foreign_key(&mut fk.clone());
            })
        }
        8 => call("check", "check", |s: &mut TableCreateStatement| {
            s.check(Expr::col(a("c1")).gt(0));
        }),
        9 => call("opt", "comment+engine", |s: &mut TableCreateStatement| {
            s.comment("cm").engine("InnoDB").collate("utf8mb4_unicode_ci").character_set("utf8mb4");
        }),
        10 => call("extra", "extra", |s: &mut TableCreateStatement| {
            s.extra("WITHOUT ROWID");
        }),
        _ => call("flag", "temporary", |s: &mut TableCreateStatement| {
            s.temporary();
        }),
    }
}

fn table_alter_call(rng: &mut Rng) -> Call<TableAlterStatement> {
    match rng.below(6) {
        0 => call("table", "table", |s: &mut TableAlterStatement| {
            s.table(a("t"));
        }),
        1 => {
            let cd = column_def(rng, "nc");
            call("opt", "add_column", move |s: &mut TableAlterStatement| {
                s.add_column(cd.clone());
            })
        }
        2 => {
            let cd = column_def(rng, "c1");
            call("opt", "modify_column", move |s: &mut TableAlterStatement| {
                s.modify_column(cd.clone());
            })
        }
        3 => call("opt", "rename_column", |s: &mut TableAlterStatement| {
            s.rename_column(a("c1"), a("c9"));
        }),
        4 => call("opt", "drop_column", |s: &mut TableAlterStatement| {
            s.drop_column(a("c2"));
        }),
        _ => {
            let fk = TableForeignKey::new().name("fk").from_tbl(a("t")).from_col(a("c1")).to_tbl(a("u")).to_col(a("id")).to_owned();
            call("opt", "add_foreign_key", move |s: &mut TableAlterStatement| {
                s.add_foreign_key(&fk);
            })
        }
    }
}

fn table_drop_call(rng: &mut Rng) -> Call<TableDropStatement> {
    match rng.below(4) {
        0 | 1 => {
            let t = *rng.pick(&["t", "u", "v"]);
            call("table", format!("table({t})"), move |s: &mut TableDropStatement| {
                s.table(a(t));
            })
        }
        2 => call("flag", "if_exists", |s: &mut TableDropStatement| {
            s.if_exists();
        }),
        _ => call("flag", "cascade", |s: &mut TableDropStatement| {
            s.cascade();
        }),
    }
}

fn table_rename_call(rng: &mut Rng) -> Call<TableRenameStatement> {
    let x = *rng.pick(&["t", "u", "v"]);
    let y = *rng.pick(&["n1", "n2"]);
    call("table", format!("table({x},{y})"), move |s: &mut TableRenameStatement| {
        s.table(a(x), a(y));
    })
}

fn table_truncate_call(rng: &mut Rng) -> Call<TableTruncateStatement> {
    let x = *rng.pick(&["t", "u", "v"]);
    call("table", format!("table({x})"), move |s: &mut TableTruncateStatement| {
        s.table(a(x));
    })
}

fn index_create_call(rng: &mut Rng) -> Call<IndexCreateStatement> {
    match rng.below(10) {
        7 | 8 => {
            let c = *rng.pick(&["c1", "c2"]);
            let k = rng.below(9) as i32;
            let via_cond = rng.coin();
            call("where", format!("and_where({c} > {k})"), move |s: &mut IndexCreateStatement| {
                if via_cond {
                    s.cond_where(Expr::col(a(c)).gt(k));
                } else {
                    s.and_where(Expr::col(a(c)).gt(k));
                }
            })
        }
        9 => call("flag", "nulls_not_distinct/include", |s: &mut IndexCreateStatement| {
            s.nulls_not_distinct().include(a("c3"));
        }),
        0 => call("name", "name", |s: &mut IndexCreateStatement| {
            s.name("ix");
        }),
        1 => call("table", "table", |s: &mut IndexCreateStatement| {
            s.table(a("t"));
        }),
        2 | 3 => {
            let c = *rng.pick(&["c1", "c2", "c3"]);
            let desc = rng.coin();
            call("col", format!("col({c})"), move |s: &mut IndexCreateStatement| {
                if desc {
                    s.col((a(c), IndexOrder::Desc));
                } else {
                    s.col(a(c));
                }
            })
        }
        4 => call("flag", "unique", |s: &mut IndexCreateStatement| {
            s.unique();
        }),
        5 => call("flag", "if_not_exists", |s: &mut IndexCreateStatement| {
            s.if_not_exists();
        }),
        _ => call("flag", "index_type", |s: &mut IndexCreateStatement| {
            s.index_type(IndexType::BTree);
        }),
    }
}

fn fk_create_call(rng: &mut Rng) -> Call<ForeignKeyCreateStatement> {
    match rng.below(6) {
        0 => call("name", "name", |s: &mut ForeignKeyCreateStatement| {
            s.name("fk");
        }),
        1 => call("from", "from", |s: &mut ForeignKeyCreateStatement| {
            s.from(a("t"), a("c1"));
        }),
        2 => call("to", "to", |s: &mut ForeignKeyCreateStatement| {
            s.to(a("u"), a("id"));
        }),
        3 => {
            let act = *rng.pick(&[ForeignKeyAction::Cascade, ForeignKeyAction::SetNull, ForeignKeyAction::Restrict]);
            call("action", "on_delete", move |s: &mut ForeignKeyCreateStatement| {
                s.on_delete(act);
            })
        }
        4 => {
            let act = *rng.pick(&[ForeignKeyAction::Cascade, ForeignKeyAction::NoAction, ForeignKeyAction::SetDefault]);
            call("action", "on_update", move |s: &mut ForeignKeyCreateStatement| {
                s.on_update(act);
            })
        }
        _ => call("from", "from_col", |s: &mut ForeignKeyCreateStatement| {
            s.from_col(a("c2"));
        }),
    }
}

// ---- the branching checker ------------------------------------------------------

fn build<S: Subject>(calls: &[Call<S>]) -> S {
    let mut s = S::fresh();
    for c in calls {
        (c.f)(&mut s);
    }
    s
}

fn hist<S>(calls: &[Call<S>]) -> String {
    calls.iter().map(|c| c.name.clone()).collect::<Vec<_>>().join(".")
}

pub fn check_history<S: Subject>(ctx: &Ctx, rep: &mut Report, n: u64, calls: &[Call<S>]) {
    let fail = |rep: &mut Report, rule: &str, what: String, pos: usize, extra: serde_json::Value| {
        rep.violation(rule, "-", format!("{} {what}", S::NAME), json!({"type": S::NAME, "history": hist(calls), "position": pos, "detail": extra}), ctx.shard, n);
    };
    let r = guard(|| {
        let full = build(calls);
        let full_render = full.render();
        let mut problems: Vec<(String, String, usize, serde_json::Value)> = vec![];
        let mut branches = 0u64;
        for i in 0..=calls.len() {
            let (prefix, rest) = calls.split_at(i);
            // (a) take
            let mut s = build(prefix);
            let before = s.clone();
            let before_render = before.render();
            if let Some(t) = s.take_() {
                branches += 1;
                if !t.same(&before) || t.dbg() != before.dbg() {
                    problems.push(("R.take".into(), "taken statement differs from the statement before take()".into(), i, json!({"before": before.dbg(), "taken": t.dbg()})));
                } else if t.render() != before_render {
                    problems.push(("R.take".into(), "taken statement renders differently".into(), i, json!({"before": before_render, "taken": t.render()})));
                }
                if S::FRESH_AFTER_TAKE && !s.same(&S::fresh()) {
                    problems.push(("R.take".into(), "take() leaves state behind".into(), i, json!({"left_behind": s.dbg()})));
                }
                let mut t2 = t;
                for c in rest {
                    (c.f)(&mut t2);
                }
                if !t2.same(&full) || t2.render() != full_render {
                    problems.push(("R.take".into(), "continuing on the taken statement diverges from the unbranched history".into(), i, json!({"taken_then_rest": t2.dbg(), "unbranched": full.dbg()})));
                }
            }
            // (b) clone independence, both directions
            let mut s = build(prefix);
            let c = s.clone();
            branches += 1;
            if !c.same(&s) || c.render() != s.render() {
                problems.push(("R.clone".into(), "clone differs from its source".into(), i, json!({"source": s.dbg(), "clone": c.dbg()})));
            }
            let snapshot = c.dbg();
            for x in rest {
                (x.f)(&mut s);
            }
            if c.dbg() != snapshot || c.render() != before_render {
                problems.push(("R.clone".into(), "clone changed when its source changed".into(), i, json!({"clone_before": snapshot, "clone_after": c.dbg()})));
            }
            let src = build(prefix);
            let mut c2 = src.clone();
            for x in rest {
                (x.f)(&mut c2);
            }
            if src.render() != before_render || !c2.same(&full) {
                problems.push(("R.clone".into(), "source changed when its clone changed".into(), i, json!({"source_after": src.dbg()})));
            }
            // (c) clear operations == history without that clause
            for (opname, clause, op) in S::clears() {
                branches += 1;
                let mut s = build(prefix);
                op(&mut s);
                let filtered: Vec<Call<S>> = prefix.iter().filter(|c| c.clause != clause).cloned().collect();
                let want = build(&filtered);
                if !s.same(&want) || s.render() != want.render() {
                    problems.push(("R.clear".into(), format!("{opname} does not equal the history without `{clause}` calls"), i, json!({"after_clear": s.dbg(), "history_without_clause": want.dbg()})));
                }
            }
        }
        (problems, branches)
    });
    match r {
        Ok((problems, branches)) => {
            rep.count("branch_checks", branches);
            rep.count(&format!("histories.{}", S::NAME), 1);
            for (rule, what, pos, extra) in problems.into_iter().take(1) {
                fail(rep, &rule, what, pos, extra);
            }
        }
        Err(p) => fail(rep, "R.panic", vcore::run::panic_sig(&p), 0, json!({"panic": p})),
    }
    if calls.len() >= 3 {
        rep.nontrivial(hash_str(&format!("{}{}", S::NAME, hist(calls))));
    }
    if n % 701 == 3 {
        rep.sample(json!({"type": S::NAME, "history": hist(calls)}));
    }
}

fn run_subject<S: Subject>(ctx: &Ctx, rep: &mut Report, base: u64, count: u64, maxlen: usize, gen: fn(&mut Rng) -> Call<S>) {
    for k in 0..count {
        let n = base + k;
        if !ctx.wants(n) {
            continue;
        }
        crate::apply::set_route_seed(ctx.seed ^ n.wrapping_mul(0x9E3779B97F4A7C15));
        rep.eval();
        let mut rng = ctx.rng(S::NAME, k);
        let len = 1 + rng.below(maxlen);
        let calls: Vec<Call<S>> = (0..len).map(|_| gen(&mut rng)).collect();
        check_history(ctx, rep, n, &calls);
    }
}

pub fn check(ctx: &Ctx, rep: &mut Report) {
    let per = |q: u64, t: u64| ctx.size(q, t) / ctx.nshards;
    let maxlen = ctx.size(12, 25) as usize;
    run_subject::<SelectStatement>(ctx, rep, 0, per(3_000, 800_000), maxlen, select_call);
    run_subject::<WindowStatement>(ctx, rep, 1 << 32, per(800, 100_000), 8, window_call);
    run_subject::<InsertStatement>(ctx, rep, 2 << 32, per(400, 50_000), 8, insert_call);
    run_subject::<UpdateStatement>(ctx, rep, 3 << 32, per(400, 50_000), 8, update_call);
    run_subject::<DeleteStatement>(ctx, rep, 4 << 32, per(400, 50_000), 8, delete_call);
    run_subject::<ColumnDef>(ctx, rep, 5 << 32, per(600, 100_000), 8, columndef_call);
    run_subject::<TableCreateStatement>(ctx, rep, 6 << 32, per(800, 200_000), 10, table_create_call);
    run_subject::<TableAlterStatement>(ctx, rep, 7 << 32, per(400, 50_000), 6, table_alter_call);
    run_subject::<TableDropStatement>(ctx, rep, 8 << 32, per(300, 30_000), 5, table_drop_call);
    run_subject::<TableRenameStatement>(ctx, rep, 9 << 32, per(200, 10_000), 3, table_rename_call);
    run_subject::<TableTruncateStatement>(ctx, rep, 10 << 32, per(200, 10_000), 3, table_truncate_call);
    run_subject::<IndexCreateStatement>(ctx, rep, 11 << 32, per(400, 50_000), 8, index_create_call);
    run_subject::<ForeignKeyCreateStatement>(ctx, rep, 12 << 32, per(400, 50_000), 8, fk_create_call);
}
