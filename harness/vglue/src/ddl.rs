//! Schema specs shared by C13 (SQLite execution + catalogue) and C14 (MySQL /
//! Postgres DDL grammars): the harness's own declaration of a table, applied to
//! sea-query's schema builders.

use crate::util::Dialect;
use sea_query::*;
use vcore::prng::Rng;

#[derive(Clone, Debug, PartialEq)]
pub enum Ty {
    Char(Option<u32>),
    Str(StringLen),
    Text,
    Blob,
    TinyInt,
    SmallInt,
    Int,
    BigInt,
    TinyU,
    SmallU,
    Unsigned,
    BigU,
    Float,
    Double,
    Decimal(Option<(u32, u32)>),
    DateTime,
    Timestamp,
    TimestampTz,
    Time,
    Date,
    Year,
    Binary(u32),
    VarBinary(StringLen),
    Bit(Option<u32>),
    VarBit(u32),
    Bool,
    Money(Option<(u32, u32)>),
    Json,
    JsonB,
    Uuid,
    Enum(String, Vec<String>),
    Array(Box<Ty>),
    Vector(Option<u32>),
    Cidr,
    Inet,
    MacAddr,
    LTree,
    /// (fields: index into PG_INTERVAL_FIELDS, precision)
    Interval(Option<u8>, Option<u32>),
    Custom(String),
}

#[derive(Clone, Copy, Debug, PartialEq, Eq, Hash)]
pub enum Aff {
    Integer,
    Real,
    Text,
    Blob,
    Numeric,
}

#[derive(Clone, Debug, PartialEq)]
pub enum DefVal {
    Int(i64),
    Text(String),
    Real(f64),
    Bool(bool),
    Null,
    CurrentTimestamp,
    /// a byte-string default (blob-affinity columns)
    Bytes(Vec<u8>),
    /// a JSON document `{"t": <text>}` as the default (JSON columns)
    Json(String),
}

/// the document of a `DefVal::Json`
pub fn json_default(t: &str) -> serde_json::Value {
    serde_json::json!({ "t": t })
}

#[derive(Clone, Debug, PartialEq)]
pub enum CS {
    NotNull,
    Null,
    Default(DefVal),
    Unique,
    PrimaryKey,
    AutoInc,
    /// CHECK (col > k)
    Check(i64),
    /// a further CHECK (col < k) on the same column, given by its own check() call
    CheckLt(i64),
    /// GENERATED ALWAYS AS (other + 1) STORED|VIRTUAL
    Generated(String, bool),
    Comment(String),
    Extra(String),
    /// Postgres `ALTER COLUMN .. TYPE .. USING (col + k)`; nothing anywhere else
    Using(i64),
}

#[derive(Clone, Debug, PartialEq)]
pub struct Col {
    pub name: String,
    pub ty: Ty,
    pub specs: Vec<CS>,
}

#[derive(Clone, Debug)]
pub struct Fk {
    pub name: Option<String>,
    pub cols: Vec<String>,
    pub ref_table: String,
    pub ref_cols: Vec<String>,
    pub on_delete: Option<ForeignKeyAction>,
    pub on_update: Option<ForeignKeyAction>,
}

#[derive(Clone, Debug, PartialEq)]
pub struct Ix {
    pub name: Option<String>,
    pub unique: bool,
    pub primary: bool,
    /// (column, Some(true)=DESC / Some(false)=ASC / None, MySQL prefix length)
    pub cols: Vec<(String, Option<bool>, Option<u32>)>,
    pub index_type: Option<u8>,
    pub include: Vec<String>,
    pub nulls_not_distinct: bool,
    pub if_not_exists: bool,
    /// partial index predicate: column > k
    pub filter: Option<(String, i64)>,
    /// further conjuncts `column <> k_i` on the same column, each added by its own and_where / cond_where call
    pub filter_more: Vec<i64>,
}

#[derive(Clone, Debug, Default)]
pub struct Tbl {
    pub name: String,
    pub schema: Option<String>,
    pub if_not_exists: bool,
    pub temporary: bool,
    pub cols: Vec<Col>,
    pub indexes: Vec<Ix>,
    pub fks: Vec<Fk>,
    pub checks: Vec<(String, i64)>,
    pub comment: Option<String>,
    pub engine: Option<String>,
    pub collate: Option<String>,
    pub charset: Option<String>,
}

fn a(s: &str) -> Alias {
    Alias::new(s)
}

/// separator between schema and table in a table name of the harness (`sch\u{0}tb` = table `tb` of schema `sch`)
pub const SCHEMA_SEP: char = '\u{0}';

/// a table name of the harness as a table reference: schema-qualified when it carries SCHEMA_SEP
pub fn tref(s: &str) -> TableRef {
    match s.split_once(SCHEMA_SEP) {
        Some((sc, t)) => match crate::apply::route(2) {
            0 => (a(sc), a(t)).into_table_ref(),
            _ => TableRef::SchemaTable(a(sc).into_iden(), a(t).into_iden()),
        },
        None => a(s).into_table_ref(),
    }
}

/// A schema statement rendered through one of its equivalent entry points: `build_any` (dynamic dispatch),
/// `build` or `to_string` with the backend by value.
pub fn render_schema<S: SchemaStatementBuilder>(st: &S, d: Dialect) -> String {
    match (crate::apply::route(3), d) {
        (0, _) => st.build_any(crate::util::sb(d)),
        (1, Dialect::Mysql) => st.build(MysqlQueryBuilder),
        (1, Dialect::Postgres) => st.build(PostgresQueryBuilder),
        (1, Dialect::Sqlite) => st.build(SqliteQueryBuilder),
        (_, Dialect::Mysql) => st.to_string(MysqlQueryBuilder),
        (_, Dialect::Postgres) => st.to_string(PostgresQueryBuilder),
        (_, Dialect::Sqlite) => st.to_string(SqliteQueryBuilder),
    }
}

/// A table statement rendered directly, or wrapped in the `TableStatement` enum and rendered through
/// that type's own entry points.
pub fn render_table(ts: TableStatement, d: Dialect) -> String {
    if crate::apply::route(2) == 0 {
        return match (crate::apply::route(3), d) {
            (0, _) => ts.build_any(crate::util::sb(d)),
            (1, Dialect::Mysql) => ts.build(MysqlQueryBuilder),
            (1, Dialect::Postgres) => ts.build(PostgresQueryBuilder),
            (1, Dialect::Sqlite) => ts.build(SqliteQueryBuilder),
            (_, Dialect::Mysql) => ts.to_string(MysqlQueryBuilder),
            (_, Dialect::Postgres) => ts.to_string(PostgresQueryBuilder),
            (_, Dialect::Sqlite) => ts.to_string(SqliteQueryBuilder),
        };
    }
    match &ts {
        TableStatement::Create(x) => render_schema(x, d),
        TableStatement::Alter(x) => render_schema(x, d),
        TableStatement::Drop(x) => render_schema(x, d),
        TableStatement::Rename(x) => render_schema(x, d),
        TableStatement::Truncate(x) => render_schema(x, d),
    }
}

impl Ty {
    pub fn column_type(&self) -> ColumnType {
        match self {
            Ty::Char(n) => ColumnType::Char(*n),
            Ty::Str(StringLen::None) if crate::apply::route(2) == 0 => ColumnType::string(None),
            Ty::Str(StringLen::N(n)) if crate::apply::route(2) == 0 => ColumnType::string(Some(*n)),
            Ty::Str(l) => ColumnType::String(*l),
            Ty::Text => ColumnType::Text,
            Ty::Blob => ColumnType::Blob,
            Ty::TinyInt => ColumnType::TinyInteger,
            Ty::SmallInt => ColumnType::SmallInteger,
            Ty::Int => ColumnType::Integer,
            Ty::BigInt => ColumnType::BigInteger,
            Ty::TinyU => ColumnType::TinyUnsigned,
            Ty::SmallU => ColumnType::SmallUnsigned,
            Ty::Unsigned => ColumnType::Unsigned,
            Ty::BigU => ColumnType::BigUnsigned,
            Ty::Float => ColumnType::Float,
            Ty::Double => ColumnType::Double,
            Ty::Decimal(p) => ColumnType::Decimal(*p),
            Ty::DateTime => ColumnType::DateTime,
            Ty::Timestamp => ColumnType::Timestamp,
            Ty::TimestampTz => ColumnType::TimestampWithTimeZone,
            Ty::Time => ColumnType::Time,
            Ty::Date => ColumnType::Date,
            Ty::Year => ColumnType::Year,
            Ty::Binary(n) => ColumnType::Binary(*n),
            Ty::VarBinary(StringLen::N(n)) if crate::apply::route(2) == 0 => ColumnType::var_binary(*n),
            Ty::VarBinary(l) => ColumnType::VarBinary(*l),
            Ty::Bit(n) => ColumnType::Bit(*n),
            Ty::VarBit(n) => ColumnType::VarBit(*n),
            Ty::Bool => ColumnType::Boolean,
            Ty::Money(p) => ColumnType::Money(*p),
            Ty::Json => ColumnType::Json,
            Ty::JsonB => ColumnType::JsonBinary,
            Ty::Uuid => ColumnType::Uuid,
            Ty::Enum(n, v) => ColumnType::Enum { name: a(n).into_iden(), variants: v.iter().map(|x| a(x).into_iden()).collect() },
            Ty::Array(t) => ColumnType::Array(RcOrArc::new(t.column_type())),
            Ty::Vector(n) => ColumnType::Vector(*n),
            Ty::Cidr => ColumnType::Cidr,
            Ty::Inet => ColumnType::Inet,
            Ty::MacAddr => ColumnType::MacAddr,
            Ty::LTree => ColumnType::LTree,
            Ty::Interval(f, p) => ColumnType::Interval(f.map(pg_interval), *p),
            Ty::Custom(w) if crate::apply::route(2) == 0 => ColumnType::custom(w.as_str()),
            Ty::Custom(w) => ColumnType::Custom(a(w).into_iden()),
        }
    }

    /// storage affinity intended for the abstract type on SQLite (CHANGELOG "Rework SQLite type mapping")
    pub fn sqlite_affinity(&self) -> Option<Aff> {
        Some(match self {
            Ty::Char(_) | Ty::Str(_) | Ty::Text => Aff::Text,
            Ty::TinyInt | Ty::SmallInt | Ty::Int | Ty::BigInt | Ty::TinyU | Ty::SmallU | Ty::Unsigned | Ty::BigU => Aff::Integer,
            Ty::Float | Ty::Double | Ty::Decimal(_) | Ty::Money(_) => Aff::Real,
            Ty::DateTime | Ty::Timestamp | Ty::TimestampTz | Ty::Time | Ty::Date => Aff::Text,
            Ty::Json | Ty::JsonB | Ty::Uuid | Ty::Enum(..) => Aff::Text,
            Ty::Binary(_) | Ty::VarBinary(_) | Ty::Blob => Aff::Blob,
            Ty::Bool => Aff::Numeric,
            _ => return None,
        })
    }

    pub fn is_int(&self) -> bool {
        matches!(self, Ty::TinyInt | Ty::SmallInt | Ty::Int | Ty::BigInt | Ty::TinyU | Ty::SmallU | Ty::Unsigned | Ty::BigU)
    }
}

pub fn sqlite_types() -> Vec<Ty> {
    vec![
        Ty::Char(None),
        Ty::Char(Some(8)),
        Ty::Str(StringLen::None),
        Ty::Str(StringLen::N(40)),
        Ty::Str(StringLen::Max),
        Ty::Text,
        Ty::Blob,
        Ty::TinyInt,
        Ty::SmallInt,
        Ty::Int,
        Ty::BigInt,
        Ty::TinyU,
        Ty::SmallU,
        Ty::Unsigned,
        Ty::BigU,
        Ty::Float,
        Ty::Double,
        Ty::Decimal(None),
        Ty::Decimal(Some((10, 2))),
        // boundary parameters: the largest precision SQLite's renderer accepts, the smallest lengths
        Ty::Decimal(Some((16, 4))),
        Ty::Decimal(Some((1, 0))),
        Ty::Char(Some(1)),
        Ty::Str(StringLen::N(1)),
        Ty::Binary(1),
        Ty::DateTime,
        Ty::Timestamp,
        Ty::TimestampTz,
        Ty::Time,
        Ty::Date,
        Ty::Binary(16),
        Ty::VarBinary(StringLen::None),
        Ty::VarBinary(StringLen::N(32)),
        Ty::VarBinary(StringLen::Max),
        Ty::Bool,
        Ty::Money(None),
        Ty::Money(Some((12, 4))),
        Ty::Money(Some((19, 4))),
        Ty::Json,
        Ty::JsonB,
        Ty::Uuid,
        Ty::Enum("mood".into(), vec!["sad".into(), "ok".into()]),
    ]
}

pub fn mysql_types() -> Vec<Ty> {
    let mut v = sqlite_types();
    v.extend([Ty::Year, Ty::Bit(None), Ty::Bit(Some(4)), Ty::VarBit(6), Ty::Custom("geometry".into())]);
    v
}

pub fn postgres_types() -> Vec<Ty> {
    let mut v = sqlite_types();
    v.extend([
        Ty::Bit(None),
        Ty::Bit(Some(4)),
        Ty::VarBit(6),
        Ty::Array(Box::new(Ty::Int)),
        Ty::Array(Box::new(Ty::Str(StringLen::N(10)))),
        Ty::Vector(None),
        Ty::Vector(Some(3)),
        Ty::Cidr,
        Ty::Inet,
        Ty::MacAddr,
        Ty::LTree,
        Ty::Interval(None, None),
        Ty::Interval(None, Some(3)),
        Ty::Interval(Some(0), None),
        Ty::Interval(Some(6), None),
        Ty::Interval(Some(8), None),
        Ty::Interval(Some(5), Some(2)),
        Ty::Interval(Some(9), Some(6)),
        Ty::Interval(Some(10), None),
        Ty::Interval(Some(11), Some(3)),
        Ty::Interval(Some(12), Some(0)),
        Ty::Interval(Some(1), None),
        Ty::Interval(Some(2), None),
        Ty::Interval(Some(3), None),
        Ty::Interval(Some(4), None),
        Ty::Interval(Some(7), None),
        Ty::Custom("citext".into()),
    ]);
    v
}

pub fn types_of(d: Dialect) -> Vec<Ty> {
    match d {
        Dialect::Sqlite => sqlite_types(),
        Dialect::Mysql => mysql_types(),
        Dialect::Postgres => postgres_types(),
    }
}

/// Sets the column's type through the dedicated `ColumnDef` method; false when there is none for `ty`.
fn typed_setter(c: &mut ColumnDef, ty: &Ty) -> bool {
    match ty {
        Ty::Char(None) => c.char(),
        Ty::Char(Some(n)) => c.char_len(*n),
        Ty::Str(StringLen::None) => c.string(),
        Ty::Str(StringLen::N(n)) => c.string_len(*n),
        Ty::Text => c.text(),
        Ty::Blob => c.blob(),
        Ty::TinyInt => c.tiny_integer(),
        Ty::SmallInt => c.small_integer(),
        Ty::Int => c.integer(),
        Ty::BigInt => c.big_integer(),
        Ty::TinyU => c.tiny_unsigned(),
        Ty::SmallU => c.small_unsigned(),
        Ty::Unsigned => c.unsigned(),
        Ty::BigU => c.big_unsigned(),
        Ty::Float => c.float(),
        Ty::Double => c.double(),
        Ty::Decimal(None) => c.decimal(),
        Ty::Decimal(Some((p, s))) => c.decimal_len(*p, *s),
        Ty::DateTime => c.date_time(),
        Ty::Timestamp => c.timestamp(),
        Ty::TimestampTz => c.timestamp_with_time_zone(),
        Ty::Time => c.time(),
        Ty::Date => c.date(),
        Ty::Year => c.year(),
        Ty::Binary(1) if crate::apply::route(2) == 0 => c.binary(),
        Ty::Binary(n) => c.binary_len(*n),
        Ty::VarBinary(StringLen::N(n)) => c.var_binary(*n),
        Ty::Bit(n) => c.bit(*n),
        Ty::VarBit(n) => c.varbit(*n),
        Ty::Bool => c.boolean(),
        Ty::Money(None) => c.money(),
        Ty::Money(Some((p, s))) => c.money_len(*p, *s),
        Ty::Json => c.json(),
        Ty::JsonB => c.json_binary(),
        Ty::Uuid => c.uuid(),
        Ty::Enum(n, v) => c.enumeration(a(n), v.iter().map(|x| a(x))),
        Ty::Array(t) => c.array(t.column_type()),
        Ty::Vector(n) => c.vector(*n),
        Ty::Cidr => c.cidr(),
        Ty::Inet => c.inet(),
        Ty::MacAddr => c.mac_address(),
        Ty::LTree => c.ltree(),
        Ty::Interval(f, p) => c.interval(f.map(pg_interval), *p),
        Ty::Custom(w) => c.custom(a(w)),
        Ty::Str(StringLen::Max) | Ty::VarBinary(_) => return false,
    };
    true
}

pub const PG_INTERVAL_FIELDS: [&str; 13] = [
    "YEAR", "MONTH", "DAY", "HOUR", "MINUTE", "SECOND", "YEAR TO MONTH", "DAY TO HOUR", "DAY TO MINUTE", "DAY TO SECOND", "HOUR TO MINUTE", "HOUR TO SECOND",
    "MINUTE TO SECOND",
];

/// the fields of a Postgres interval, by index into PG_INTERVAL_FIELDS: the variant itself, or parsed from
/// its documented spelling (in any case, with surrounding blanks)
pub fn pg_interval(k: u8) -> PgInterval {
    use std::convert::TryFrom;
    let by_variant = [
        PgInterval::Year,
        PgInterval::Month,
        PgInterval::Day,
        PgInterval::Hour,
        PgInterval::Minute,
        PgInterval::Second,
        PgInterval::YearToMonth,
        PgInterval::DayToHour,
        PgInterval::DayToMinute,
        PgInterval::DayToSecond,
        PgInterval::HourToMinute,
        PgInterval::HourToSecond,
        PgInterval::MinuteToSecond,
    ];
    let text = PG_INTERVAL_FIELDS[k as usize % 13];
    match crate::apply::route(4) {
        0 => PgInterval::try_from(text).expect("documented spelling"),
        1 => PgInterval::try_from(format!(" {} ", text.to_lowercase())).expect("documented spelling"),
        2 => PgInterval::try_from(&text.to_string()).expect("documented spelling"),
        _ => by_variant[k as usize % 13].clone(),
    }
}

impl Col {
    pub fn column_def(&self) -> ColumnDef {
        self.column_def_opt(true)
    }
    /// `with_type = false`: a ColumnDef carrying specifications only (Postgres modify_column)
    pub fn column_def_opt(&self, with_type: bool) -> ColumnDef {
        let mut c = if with_type {
            // the type through ColumnDef's own setter where it has one, else through the constructor
            let mut c = ColumnDef::new(a(&self.name));
            if crate::apply::route(2) == 0 && typed_setter(&mut c, &self.ty) {
                c
            } else {
                ColumnDef::new_with_type(a(&self.name), self.ty.column_type())
            }
        } else {
            ColumnDef::new(a(&self.name))
        };
        for s in &self.specs {
            match s {
                CS::NotNull => {
                    c.not_null();
                }
                CS::Null => {
                    c.null();
                }
                CS::Default(v) => {
                    match v {
                        DefVal::Int(i) => c.default(*i),
                        DefVal::Text(t) => c.default(t.as_str()),
                        DefVal::Real(f) => c.default(*f),
                        DefVal::Bool(b) => c.default(*b),
                        DefVal::Null => c.default(Keyword::Null),
                        DefVal::CurrentTimestamp => c.default(Keyword::CurrentTimestamp),
                        DefVal::Bytes(b) => c.default(Value::Bytes(Some(Box::new(b.clone())))),
                        DefVal::Json(t) => c.default(Value::Json(Some(Box::new(json_default(t))))),
                    };
                }
                CS::Unique => {
                    c.unique_key();
                }
                CS::PrimaryKey => {
                    c.primary_key();
                }
                CS::AutoInc => {
                    c.auto_increment();
                }
                CS::Check(k) => {
                    c.check(Expr::col(a(&self.name)).gt(*k));
                }
                CS::CheckLt(k) => {
                    c.check(Expr::col(a(&self.name)).lt(*k));
                }
                CS::Generated(other, stored) => {
                    c.generated(Expr::col(a(other)).add(1), *stored);
                }
                CS::Comment(t) => {
                    c.comment(t.as_str());
                }
                CS::Extra(w) => {
                    c.extra(w.as_str());
                }
                CS::Using(k) => {
                    c.using(Expr::col(a(&self.name)).add(*k));
                }
            }
        }
        c
    }
    pub fn has(&self, f: impl Fn(&CS) -> bool) -> bool {
        self.specs.iter().any(f)
    }
    pub fn default(&self) -> Option<&DefVal> {
        self.specs.iter().find_map(|s| if let CS::Default(v) = s { Some(v) } else { None })
    }
}

impl Ix {
    pub fn statement(&self, table: Option<&str>) -> IndexCreateStatement {
        let mut ix = Index::create();
        self.fill(&mut ix, table, true);
        if crate::apply::route(3) == 0 {
            return ix.take();
        }
        ix
    }

    /// nothing that `IndexCreateStatement::take()` leaves behind on the builder it empties (it moves
    /// the name, table, columns and index type out, and copies the flags, predicate and INCLUDE list)
    pub fn leaves_nothing_behind(&self) -> bool {
        !self.unique && !self.nulls_not_distinct && !self.if_not_exists && self.filter.is_none() && self.include.is_empty()
    }

    /// the calls that declare this index, on a builder that may have been used (and emptied) before
    pub fn fill(&self, ix: &mut IndexCreateStatement, table: Option<&str>, set_primary: bool) {
        if let Some(n) = &self.name {
            ix.name(n.as_str());
        }
        if let Some(t) = table {
            ix.table(tref(t));
        }
        for (c, desc, prefix) in &self.cols {
            match (desc, prefix) {
                (None, None) => ix.col(a(c)),
                (Some(d), None) => ix.col((a(c), if *d { IndexOrder::Desc } else { IndexOrder::Asc })),
                (None, Some(p)) => ix.col((a(c), *p)),
                (Some(d), Some(p)) => ix.col((a(c), *p, if *d { IndexOrder::Desc } else { IndexOrder::Asc })),
            };
        }
        if self.unique {
            ix.unique();
        }
        if self.primary && set_primary {
            ix.primary();
        }
        match self.index_type {
            Some(0) => {
                ix.index_type(IndexType::BTree);
            }
            Some(1) => {
                ix.index_type(IndexType::Hash);
            }
            Some(2) => {
                ix.full_text();
            }
            Some(_) => {
                ix.index_type(IndexType::Custom(a("gist").into_iden()));
            }
            None => {}
        }
        for c in &self.include {
            ix.include(a(c));
        }
        if self.nulls_not_distinct {
            ix.nulls_not_distinct();
        }
        if self.if_not_exists {
            ix.if_not_exists();
        }
        if let Some((c, k)) = &self.filter {
            ix.and_where(Expr::col(a(c)).gt(*k));
            for m in &self.filter_more {
                if crate::apply::route(2) == 0 {
                    ix.and_where(Expr::col(a(c)).ne(*m));
                } else {
                    ix.cond_where(Expr::col(a(c)).ne(*m));
                }
            }
        }
    }
}

impl Fk {
    pub fn statement(&self, table: &str) -> ForeignKeyCreateStatement {
        let mut fk = ForeignKey::create();
        self.fill(&mut fk, table);
        if crate::apply::route(3) == 0 {
            return fk.take();
        }
        fk
    }

    /// the calls that declare this key, on a builder that may have been used (and emptied) before
    pub fn fill(&self, fk: &mut ForeignKeyCreateStatement, table: &str) {
        if let Some(n) = &self.name {
            fk.name(n.as_str());
        }
        // the column lists accumulate over from()/to() (table + column) and from_col()/to_col() calls
        match crate::apply::route(4) {
            // the column lists given as tuples of two or three names
            3 if self.cols.len() == 2 && self.ref_cols.len() == 2 => {
                fk.from(tref(table), (a(&self.cols[0]), a(&self.cols[1])));
                fk.to(tref(&self.ref_table), (a(&self.ref_cols[0]), a(&self.ref_cols[1])));
            }
            3 if self.cols.len() == 3 && self.ref_cols.len() == 3 => {
                fk.from(tref(table), (a(&self.cols[0]), a(&self.cols[1]), a(&self.cols[2])));
                fk.to(tref(&self.ref_table), (a(&self.ref_cols[0]), a(&self.ref_cols[1]), a(&self.ref_cols[2])));
            }
            0 if self.cols.len() == self.ref_cols.len() => {
                // pair by pair
                for (c, r) in self.cols.iter().zip(&self.ref_cols) {
                    fk.from(tref(table), a(c));
                    fk.to(tref(&self.ref_table), a(r));
                }
            }
            1 if !self.cols.is_empty() && !self.ref_cols.is_empty() => {
                fk.from(tref(table), a(&self.cols[0]));
                for c in &self.cols[1..] {
                    fk.from_col(a(c));
                }
                fk.to_col(a(&self.ref_cols[0]));
                for c in &self.ref_cols[1..] {
                    fk.to(tref(&self.ref_table), a(c));
                }
                fk.to_tbl(tref(&self.ref_table));
            }
            _ => {
                fk.from_tbl(tref(table));
                for c in &self.cols {
                    fk.from_col(a(c));
                }
                fk.to_tbl(tref(&self.ref_table));
                for c in &self.ref_cols {
                    fk.to_col(a(c));
                }
            }
        }
        if let Some(x) = self.on_delete {
            fk.on_delete(x);
        }
        if let Some(x) = self.on_update {
            fk.on_update(x);
        }
    }
    pub fn table_fk(&self, table: &str) -> TableForeignKey {
        let mut fk = TableForeignKey::new();
        if let Some(n) = &self.name {
            fk.name(n.as_str());
        }
        fk.from_tbl(tref(table));
        for c in &self.cols {
            fk.from_col(a(c));
        }
        fk.to_tbl(tref(&self.ref_table));
        for c in &self.ref_cols {
            fk.to_col(a(c));
        }
        if let Some(x) = self.on_delete {
            fk.on_delete(x);
        }
        if let Some(x) = self.on_update {
            fk.on_update(x);
        }
        fk
    }
}

impl Tbl {
    pub fn statement(&self) -> TableCreateStatement {
        let mut t = Table::create();
        match &self.schema {
            Some(s) => t.table((a(s), a(&self.name))),
            None => t.table(a(&self.name)),
        };
        if self.if_not_exists {
            t.if_not_exists();
        }
        if self.temporary {
            t.temporary();
        }
        for c in &self.cols {
            // a column definition is handed over by value or taken out of a builder reference
            let mut cd = c.column_def();
            if crate::apply::route(2) == 0 {
                t.col(&mut cd);
            } else {
                t.col(cd);
            }
        }
        // primary_key() / index() take the declaration out of the builder they are given, so one builder can
        // declare several indexes in turn (as long as nothing of an earlier one stays behind on it)
        let n_ix = self.indexes.len();
        let reuse = n_ix >= 2 && self.indexes[..n_ix - 1].iter().all(|ix| ix.leaves_nothing_behind()) && crate::apply::route(2) == 0;
        let mut shared = Index::create();
        for ix in &self.indexes {
            if reuse {
                ix.fill(&mut shared, None, false);
                if ix.primary {
                    t.primary_key(&mut shared);
                } else {
                    t.index(&mut shared);
                }
            } else if ix.primary {
                t.primary_key(&mut ix.statement(None));
            } else {
                t.index(&mut ix.statement(None));
            }
        }
        // foreign_key() takes the declaration out of the builder it is given, leaving it empty: one builder
        // can declare several keys in turn
        let reuse_fk = self.fks.len() >= 2 && crate::apply::route(2) == 0;
        let mut shared_fk = ForeignKey::create();
        for fk in &self.fks {
            if reuse_fk {
                fk.fill(&mut shared_fk, &self.name);
                t.foreign_key(&mut shared_fk);
            } else {
                t.foreign_key(&mut fk.statement(&self.name));
            }
        }
        for (c, k) in &self.checks {
            if *k >= 100 {
                // compound check: two OR groups joined by AND (its text starts and ends with a parenthesis)
                let col = || Expr::col(a(c));
                t.check(col().gt(*k - 100).or(col().lt(0)).and(col().lt(1000).or(col().eq(*k))));
            } else {
                t.check(Expr::col(a(c)).gt(*k));
            }
        }
        if let Some(c) = &self.comment {
            t.comment(c.as_str());
        }
        if let Some(e) = &self.engine {
            t.engine(e.as_str());
        }
        if let Some(e) = &self.collate {
            t.collate(e.as_str());
        }
        if let Some(e) = &self.charset {
            t.character_set(e.as_str());
        }
        // the documented way of finishing a builder chain: take() instead of keeping the builder
        if crate::apply::route(3) == 0 {
            return t.take();
        }
        t
    }
}

pub const ACTIONS: [ForeignKeyAction; 5] = [
    ForeignKeyAction::Restrict,
    ForeignKeyAction::Cascade,
    ForeignKeyAction::SetNull,
    ForeignKeyAction::NoAction,
    ForeignKeyAction::SetDefault,
];

pub fn action_sql(a: ForeignKeyAction) -> &'static str {
    match a {
        ForeignKeyAction::Restrict => "RESTRICT",
        ForeignKeyAction::Cascade => "CASCADE",
        ForeignKeyAction::SetNull => "SET NULL",
        ForeignKeyAction::NoAction => "NO ACTION",
        ForeignKeyAction::SetDefault => "SET DEFAULT",
    }
}

pub fn random_default(rng: &mut Rng, ty: &Ty) -> DefVal {
    if matches!(ty, Ty::Json | Ty::JsonB) && rng.coin() {
        return DefVal::Json(rng.pick(&["it's", "plain", "a \"q\" b", ""]).to_string());
    }
    match ty.sqlite_affinity() {
        Some(Aff::Integer) => DefVal::Int(rng.range(-5, 90)),
        Some(Aff::Real) => DefVal::Real(*rng.pick(&[0.5, 1.25, -2.5])),
        Some(Aff::Numeric) => DefVal::Bool(rng.coin()),
        Some(Aff::Blob) => {
            if rng.coin() {
                DefVal::Null
            } else {
                // bytes on both sides of 0x10, a quote and a zero among them
                DefVal::Bytes(vec![rng.below(16) as u8, 0, 39, 0xAB, rng.below(256) as u8][..1 + rng.below(5)].to_vec())
            }
        }
        _ => match rng.below(5) {
            0 => DefVal::Null,
            1 => DefVal::CurrentTimestamp,
            _ => DefVal::Text(rng.pick(&["x", "it's", "a b", "", "é\"q"]).to_string()),
        },
    }
}
