//! C06 — WHERE/HAVING/ON mean the conjunction of the conditions that were added.
//! Oracle: a Kleene three-valued evaluator (model) vs the rows SQLite selects
//! over a table holding all 81 assignments of {1, 0, NULL} to four atoms.

use crate::util::*;
use sea_query::*;
use serde_json::json;
use vcore::lex::{lex, Tok};
use vcore::prng::Rng;
use vcore::report::Report;
use vcore::run::{guard, panic_sig, Ctx};
use vcore::sqlite::{Db, SqlVal};

#[derive(Clone, Copy, Debug, PartialEq, Eq)]
pub enum V3 {
    T,
    F,
    N,
}
use V3::*;

fn not3(v: V3) -> V3 {
    match v {
        T => F,
        F => T,
        N => N,
    }
}
fn and3(a: V3, b: V3) -> V3 {
    if a == F || b == F {
        F
    } else if a == N || b == N {
        N
    } else {
        T
    }
}
fn or3(a: V3, b: V3) -> V3 {
    not3(and3(not3(a), not3(b)))
}

const NFORMS: usize = 22;
const COLS: [&str; 4] = ["a", "b", "c", "d"];

#[derive(Clone, Debug)]
pub enum M {
    Leaf { atom: usize, form: usize },
    Group(G),
    /// add_option(None)
    Absent,
}

#[derive(Clone, Debug)]
pub struct G {
    pub any: bool,
    pub negate: bool,
    pub members: Vec<M>,
}

/// truth value of a column value: Some(true)=1, Some(false)=0, None=NULL
fn leaf_val(form: usize, x: Option<bool>) -> V3 {
    let t = match x {
        Some(true) => T,
        Some(false) => F,
        None => N,
    };
    match form {
        0 | 1 | 4 | 5 | 8 | 10 | 14 | 16 | 17 => t,
        2 | 18 | 19 => not3(t),
        // ordering comparisons that hold (20) or fail (21) for both non-NULL values
        20 => {
            if x.is_none() {
                N
            } else {
                T
            }
        }
        21 => {
            if x.is_none() {
                N
            } else {
                F
            }
        }
        3 => {
            if x.is_none() {
                T
            } else {
                F
            }
        }
        6 => {
            if x == Some(true) {
                T
            } else {
                F
            }
        }
        7 => T,
        9 => {
            if x.is_none() {
                N
            } else {
                T
            }
        }
        11 => F,
        // custom SQL fragments whose own text has a loose top-level operator: `c = 1 OR c = 0`, `NOT c`
        12 => {
            if x.is_none() {
                N
            } else {
                T
            }
        }
        13 => not3(t),
        // a NULL boolean literal
        15 => N,
        _ => unreachable!(),
    }
}

fn leaf_expr(atom: usize, form: usize) -> SimpleExpr {
    let c = || Expr::col(Alias::new(COLS[atom]));
    match form {
        0 => c().eq(1),
        1 => c().into(),
        2 => SimpleExpr::from(c()).not(),
        3 => c().is_null(),
        4 => Func::abs(c()).into(),
        5 => c().is_in([1]),
        6 => CaseStatement::new().case(c().eq(1), 1).finally(0).into(),
        7 => SimpleExpr::Constant(true.into()),
        8 => c().ne(0),
        9 => c().eq(1).or(c().eq(0)),
        10 => c().eq(1).and(c().eq(1)),
        11 => SimpleExpr::Constant(false.into()),
        15 => SimpleExpr::Value(Value::Bool(None)),
        // ordering comparisons, each with a row on the boundary (the column holds 0, 1 or NULL)
        16 => c().gte(1),
        17 => c().gt(0),
        18 => c().lte(0),
        19 => c().lt(1),
        20 => c().gte(0),
        21 => c().gt(1),
        // OR whose right operand is not itself a binary expression
        14 => c().eq(1).or(SimpleExpr::from(c())),
        12 => Expr::cust(format!("\"{0}\" = 1 OR \"{0}\" = 0", COLS[atom])),
        13 => {
            if crate::apply::route(2) == 0 {
                Expr::cust(format!("NOT \"{}\"", COLS[atom]))
            } else {
                Expr::cust_with_values(format!("NOT \"{}\" = ?", COLS[atom]), [1])
            }
        }
        _ => unreachable!(),
    }
}

fn eval_g(g: &G, row: &[Option<bool>; 4]) -> V3 {
    let mut acc = if g.any { F } else { T };
    for m in &g.members {
        let v = match m {
            M::Leaf { atom, form } => leaf_val(*form, row[*atom]),
            M::Group(x) => eval_g(x, row),
            M::Absent => continue,
        };
        acc = if g.any { or3(acc, v) } else { and3(acc, v) };
    }
    if g.negate {
        not3(acc)
    } else {
        acc
    }
}

/// Builds the group through one of the equivalent API routes (chosen by the per-case route PRNG):
/// the polarity is reached by one or three `not()` calls (zero or two for a plain group), applied
/// before or after the members are added; members go in through `add` or `add_option(Some(..))`.
fn build_g(g: &G) -> Condition {
    use crate::apply::route;
    // groups of up to three leaves: also through the `any!` / `all!` macros
    if !g.negate && g.members.len() <= 3 && g.members.iter().all(|m| matches!(m, M::Leaf { .. })) && route(5) == 0 {
        let l: Vec<SimpleExpr> = g.members.iter().map(|m| if let M::Leaf { atom, form } = m { leaf_expr(*atom, *form) } else { unreachable!() }).collect();
        return match (g.any, l.len()) {
            (true, 0) => sea_query::any![],
            (true, 1) => sea_query::any![l[0].clone()],
            (true, 2) => sea_query::any![l[0].clone(), l[1].clone()],
            (true, _) => sea_query::any![l[0].clone(), l[1].clone(), l[2].clone()],
            (false, 0) => sea_query::all![],
            (false, 1) => sea_query::all![l[0].clone()],
            (false, 2) => sea_query::all![l[0].clone(), l[1].clone()],
            (false, _) => sea_query::all![l[0].clone(), l[1].clone(), l[2].clone()],
        };
    }
    let mut c = match (g.any, route(2)) {
        (true, 0) => Cond::any(),
        (true, _) => Condition::any(),
        (false, 0) => Cond::all(),
        (false, _) => Condition::all(),
    };
    let flips = (if g.negate { 1 } else { 0 }) + if route(4) == 0 { 2 } else { 0 };
    let early = if route(3) == 0 { route(flips + 1) } else { 0 };
    for _ in 0..early {
        c = c.not();
    }
    for m in &g.members {
        c = match m {
            M::Leaf { atom, form } => {
                if route(5) == 0 {
                    c.add_option(Some(leaf_expr(*atom, *form)))
                } else {
                    c.add(leaf_expr(*atom, *form))
                }
            }
            M::Group(x) => {
                if route(5) == 0 {
                    c.add_option(Some(build_g(x)))
                } else {
                    c.add(build_g(x))
                }
            }
            M::Absent => c.add_option(None::<SimpleExpr>),
        };
    }
    for _ in early..flips {
        c = c.not();
    }
    c
}

/// The condition handed to a join / CASE WHEN: a lone group is passed as it is (its own polarity is then
/// the top-level one), anything else is folded into one `all` group.
fn direct_or_folded(calls: &[Call]) -> Condition {
    if let [Call::CondWhere(g)] = calls {
        if crate::apply::route(3) != 0 {
            return build_g(g);
        }
    }
    let mut cond = Condition::all();
    for c in calls {
        cond = match c {
            Call::CondWhere(g) => cond.add(build_g(g)),
            Call::AndWhere(a, f) => cond.add(leaf_expr(*a, *f)),
            Call::AndWhereOption(o) => cond.add_option(o.map(|(a, f)| leaf_expr(a, f))),
        };
    }
    cond
}

fn show_g(g: &G) -> String {
    let ms: Vec<String> = g
        .members
        .iter()
        .map(|m| match m {
            M::Leaf { atom, form } => format!("{}{}", COLS[*atom], form),
            M::Group(x) => show_g(x),
            M::Absent => "-".into(),
        })
        .collect();
    format!("{}{}[{}]", if g.negate { "!" } else { "" }, if g.any { "any" } else { "all" }, ms.join(" "))
}

fn depth_g(g: &G) -> usize {
    1 + g.members.iter().map(|m| if let M::Group(x) = m { depth_g(x) } else { 0 }).max().unwrap_or(0)
}

#[derive(Clone, Debug)]
pub enum Call {
    CondWhere(G),
    AndWhere(usize, usize),
    AndWhereOption(Option<(usize, usize)>),
}

#[derive(Clone, Copy, Debug, PartialEq)]
pub enum Ctxt {
    SelectWhere,
    DeleteWhere,
    UpdateWhere,
    JoinOn,
    Having,
    CaseWhen,
    AndChain,
    /// `INSERT .. ON CONFLICT (id) DO UPDATE SET m = 1 WHERE <conditions>`: the conflicting rows for which the
    /// action condition is true are the ones updated
    ConflictAction,
}

const CONTEXTS: [Ctxt; 8] = [
    Ctxt::SelectWhere,
    Ctxt::DeleteWhere,
    Ctxt::UpdateWhere,
    Ctxt::JoinOn,
    Ctxt::Having,
    Ctxt::CaseWhen,
    Ctxt::AndChain,
    Ctxt::ConflictAction,
];

pub struct Fix {
    db: Db,
    rows: Vec<[Option<bool>; 4]>,
}

impl Fix {
    pub fn new() -> Fix {
        let db = Db::memory();
        db.exec("CREATE TABLE tv(id INTEGER PRIMARY KEY, a, b, c, d, m INTEGER DEFAULT 0)").unwrap();
        db.exec("CREATE TABLE one(z INTEGER)").unwrap();
        db.exec("INSERT INTO one VALUES (1)").unwrap();
        let mut rows = vec![];
        for i in 0..81 {
            let mut r = [None; 4];
            let mut k = i;
            let mut lits = vec![];
            for slot in r.iter_mut() {
                *slot = match k % 3 {
                    0 => Some(true),
                    1 => Some(false),
                    _ => None,
                };
                lits.push(match k % 3 {
                    0 => "1",
                    1 => "0",
                    _ => "NULL",
                });
                k /= 3;
            }
            db.exec(&format!("INSERT INTO tv(id,a,b,c,d) VALUES ({i},{})", lits.join(","))).unwrap();
            rows.push(r);
        }
        Fix { db, rows }
    }
}

fn binds(values: &Values) -> Option<Vec<SqlVal>> {
    values
        .0
        .iter()
        .map(|v| match v {
            Value::Int(Some(i)) => Some(SqlVal::Int(*i as i64)),
            Value::BigInt(Some(i)) => Some(SqlVal::Int(*i)),
            Value::Bool(Some(b)) => Some(SqlVal::Int(*b as i64)),
            Value::Bool(None) | Value::Int(None) | Value::BigInt(None) => Some(SqlVal::Null),
            _ => None,
        })
        .collect()
}

fn ids(rows: Vec<Vec<SqlVal>>) -> Vec<i64> {
    let mut v: Vec<i64> = rows
        .into_iter()
        .filter_map(|r| if let SqlVal::Int(i) = r[0] { Some(i) } else { None })
        .collect();
    v.sort();
    v
}

fn tv() -> Alias {
    Alias::new("tv")
}
fn id() -> Alias {
    Alias::new("id")
}

/// Apply the history to statement type S through the ConditionalStatement API.
fn apply_calls<S: ConditionalStatement + QueryStatementBuilder>(s: &mut S, calls: &[Call]) {
    // one history in three is rendered between its calls (both modes): what the conditions mean must not
    // depend on whether the statement has been looked at on the way
    let render_between = crate::apply::route(3) == 0;
    for (i, c) in calls.iter().enumerate() {
        if render_between && i > 0 {
            let _ = vcore::run::guard(|| {
                let mut o = String::new();
                let _ = s.build_collect_any(crate::util::qb(crate::util::Dialect::Sqlite), &mut o);
                s.build_any(crate::util::qb(crate::util::Dialect::Sqlite))
            });
        }
        match c {
            Call::CondWhere(g) => {
                s.cond_where(build_g(g));
            }
            Call::AndWhere(a, f) => {
                s.and_where(leaf_expr(*a, *f));
            }
            Call::AndWhereOption(o) => {
                s.and_where_option(o.map(|(a, f)| leaf_expr(a, f)));
            }
        }
    }
}

/// In the legacy chain route every member carries its own connective (the first member's is not written);
/// the chain means what SQL makes of `m1 c2 m2 c3 m3 ..` with each member kept together: AND binds tighter
/// than OR. Which members are joined with OR is a fixed function of the member.
fn chain_joins_with_or(atom: usize, form: usize) -> bool {
    // OR-shaped members are joined with OR half of the time (a member built from the connective it is
    // chained with is the interesting case), the others one time in five
    (matches!(form, 9 | 14) && atom % 2 == 1) || (atom * 7 + form) % 5 == 0
}

fn model_chain(calls: &[Call], row: &[Option<bool>; 4]) -> V3 {
    let mut groups: Vec<V3> = vec![];
    let mut cur: Option<V3> = None;
    for c in calls {
        let (a, f) = match c {
            Call::AndWhere(a, f) | Call::AndWhereOption(Some((a, f))) => (*a, *f),
            _ => continue,
        };
        let v = leaf_val(f, row[a]);
        match cur {
            None => cur = Some(v),
            Some(acc) if chain_joins_with_or(a, f) => {
                groups.push(acc);
                cur = Some(v);
            }
            Some(acc) => cur = Some(and3(acc, v)),
        }
    }
    match cur {
        None => T,
        Some(last) => {
            groups.push(last);
            groups.into_iter().fold(F, or3)
        }
    }
}

fn model_calls(calls: &[Call], row: &[Option<bool>; 4]) -> V3 {
    let mut acc = T;
    for c in calls {
        let v = match c {
            Call::CondWhere(g) => eval_g(g, row),
            Call::AndWhere(a, f) => leaf_val(*f, row[*a]),
            Call::AndWhereOption(Some((a, f))) => leaf_val(*f, row[*a]),
            Call::AndWhereOption(None) => continue,
        };
        acc = and3(acc, v);
    }
    acc
}

fn has_any_condition(calls: &[Call]) -> bool {
    calls.iter().any(|c| !matches!(c, Call::AndWhereOption(None)))
}

/// Execute (sql, values) in both forms; returns the sorted id list selected (for DML: the affected ids).
fn run_ctx(fx: &Fix, cx: Ctxt, calls: &[Call], inline: bool) -> Result<(String, Vec<i64>), String> {
    let q = SqliteQueryBuilder;
    let exec = |sql: &str, vals: &Values| -> Result<Vec<Vec<SqlVal>>, String> {
        if inline {
            fx.db.query(sql, &[]).map(|r| r.rows).map_err(|e| e.msg)
        } else {
            let b = binds(vals).ok_or("unbindable value")?;
            fx.db.query(sql, &b).map(|r| r.rows).map_err(|e| e.msg)
        }
    };
    let render = |s: &dyn QueryStatementBuilder| -> (String, Values) {
        if inline {
            let mut out = String::new();
            (s.build_collect_any(&q, &mut out), Values(vec![]))
        } else {
            s.build_any(&q)
        }
    };
    match cx {
        Ctxt::SelectWhere => {
            let mut s = Query::select();
            s.column(id()).from(tv());
            apply_calls(&mut s, calls);
            let (sql, v) = render(&s);
            Ok((sql.clone(), ids(exec(&sql, &v)?)))
        }
        Ctxt::AndChain => {
            let mut s = Query::select();
            s.column(id()).from(tv());
            for c in calls {
                let e = match c {
                    Call::AndWhere(a, f) | Call::AndWhereOption(Some((a, f))) => leaf_expr(*a, *f),
                    _ => continue,
                };
                let (at, fm) = match c {
                    Call::AndWhere(a, f) | Call::AndWhereOption(Some((a, f))) => (*a, *f),
                    _ => unreachable!(),
                };
                if chain_joins_with_or(at, fm) {
                    s.and_or_where(LogicalChainOper::Or(e));
                } else {
                    s.and_or_where(LogicalChainOper::And(e));
                }
            }
            let (sql, v) = render(&s);
            Ok((sql.clone(), ids(exec(&sql, &v)?)))
        }
        Ctxt::Having => {
            let mut s = Query::select();
            s.column(id()).from(tv()).group_by_columns([id(), Alias::new("a"), Alias::new("b"), Alias::new("c"), Alias::new("d")]);
            for c in calls {
                match c {
                    Call::CondWhere(g) => {
                        s.cond_having(build_g(g));
                    }
                    Call::AndWhere(a, f) => {
                        s.and_having(leaf_expr(*a, *f));
                    }
                    Call::AndWhereOption(Some((a, f))) => {
                        s.and_having(leaf_expr(*a, *f));
                    }
                    Call::AndWhereOption(None) => {}
                }
            }
            let (sql, v) = render(&s);
            Ok((sql.clone(), ids(exec(&sql, &v)?)))
        }
        Ctxt::JoinOn => {
            let cond = direct_or_folded(calls);
            let mut s = Query::select();
            // SQLite gives CROSS JOIN .. ON the meaning of INNER JOIN .. ON
            match crate::apply::route(4) {
                0 => s.column((tv(), id())).from(Alias::new("one")).join(JoinType::CrossJoin, tv(), cond),
                1 => s.column((tv(), id())).from(Alias::new("one")).inner_join(tv(), cond),
                _ => s.column((tv(), id())).from(Alias::new("one")).join(JoinType::InnerJoin, tv(), cond),
            };
            let (sql, v) = render(&s);
            Ok((sql.clone(), ids(exec(&sql, &v)?)))
        }
        Ctxt::CaseWhen => {
            let cond = direct_or_folded(calls);
            let mut s = Query::select();
            // the condition decides between 1 and "not 1": ELSE 0, no ELSE (NULL), or a second,
            // always-true branch after it
            let case = match crate::apply::route(4) {
                0 => CaseStatement::new().case(cond, 1),
                1 => CaseStatement::new().case(cond, 1).case(Condition::all(), 2).finally(0),
                _ => CaseStatement::new().case(cond, 1).finally(0),
            };
            s.column(id()).expr(case).from(tv());
            let (sql, v) = render(&s);
            let rows = exec(&sql, &v)?;
            let mut out: Vec<i64> = rows
                .into_iter()
                .filter(|r| r[1] == SqlVal::Int(1))
                .filter_map(|r| if let SqlVal::Int(i) = r[0] { Some(i) } else { None })
                .collect();
            out.sort();
            Ok((sql, out))
        }
        Ctxt::ConflictAction => {
            fx.db.exec("SAVEPOINT c06").map_err(|e| e.msg)?;
            let r = (|| {
                let mut oc = OnConflict::column(id());
                oc.value(Alias::new("m"), 1);
                for c in calls {
                    match c {
                        Call::CondWhere(g) => {
                            oc.action_cond_where(build_g(g));
                        }
                        Call::AndWhere(a, f) => {
                            oc.action_and_where(leaf_expr(*a, *f));
                        }
                        Call::AndWhereOption(o) => {
                            oc.action_and_where_option(o.map(|(a, f)| leaf_expr(a, f)));
                        }
                    }
                }
                let mut s = Query::insert();
                s.into_table(tv())
                    .columns([id(), Alias::new("a"), Alias::new("b"), Alias::new("c"), Alias::new("d")])
                    .select_from(
                        Query::select()
                            .columns([id(), Alias::new("a"), Alias::new("b"), Alias::new("c"), Alias::new("d")])
                            .from(tv())
                            .and_where(Expr::cust("TRUE"))
                            .to_owned(),
                    )
                    .map_err(|e| format!("{e:?}"))?
                    .on_conflict(oc);
                let (sql, v) = render(&s);
                exec(&sql, &v)?;
                Ok((sql, ids(fx.db.rows("SELECT id FROM tv WHERE m = 1").map_err(|e| e.msg)?)))
            })();
            let _ = fx.db.exec("ROLLBACK TO c06");
            let _ = fx.db.exec("RELEASE c06");
            r
        }
        Ctxt::DeleteWhere | Ctxt::UpdateWhere => {
            fx.db.exec("SAVEPOINT c06").map_err(|e| e.msg)?;
            let r = (|| {
                if cx == Ctxt::DeleteWhere {
                    let mut s = Query::delete();
                    s.from_table(tv());
                    apply_calls(&mut s, calls);
                    let (sql, v) = render(&s);
                    exec(&sql, &v)?;
                    let left = ids(fx.db.rows("SELECT id FROM tv").map_err(|e| e.msg)?);
                    let gone: Vec<i64> = (0..81).filter(|i| !left.contains(i)).collect();
                    Ok((sql, gone))
                } else {
                    let mut s = Query::update();
                    s.table(tv()).value(Alias::new("m"), 1);
                    apply_calls(&mut s, calls);
                    let (sql, v) = render(&s);
                    exec(&sql, &v)?;
                    Ok((sql, ids(fx.db.rows("SELECT id FROM tv WHERE m = 1").map_err(|e| e.msg)?)))
                }
            })();
            let _ = fx.db.exec("ROLLBACK TO c06");
            let _ = fx.db.exec("RELEASE c06");
            r
        }
    }
}

fn keyword_at_depth0(sql: &str, kw: &str) -> bool {
    let toks = match lex(Dialect::Sqlite, sql) {
        Ok(t) => t,
        Err(_) => return true,
    };
    let mut depth = 0;
    for t in &toks {
        match &t.tok {
            Tok::LParen => depth += 1,
            Tok::RParen => depth -= 1,
            x if depth == 0 && x.is_word(kw) => return true,
            _ => {}
        }
    }
    false
}

pub fn check_case(ctx: &Ctx, rep: &mut Report, fx: &Fix, n: u64, cx: Ctxt, calls: &[Call], label: &str) {
    rep.eval();
    crate::apply::set_route_seed(ctx.seed ^ n.wrapping_mul(0x9E3779B97F4A7C15) ^ vcore::prng::hash_str(label));
    // AND-chain context only takes leaf calls
    let calls_eff: Vec<Call> = if cx == Ctxt::AndChain {
        calls.iter().filter(|c| !matches!(c, Call::CondWhere(_))).cloned().collect()
    } else {
        calls.to_vec()
    };
    let model = |row: &[Option<bool>; 4]| if cx == Ctxt::AndChain { model_chain(&calls_eff, row) } else { model_calls(&calls_eff, row) };
    let want_t: Vec<i64> = (0..81).filter(|i| model(&fx.rows[*i as usize]) == T).collect();
    let null_rows = (0..81).filter(|i| model(&fx.rows[*i]) == N).count();
    let hist = || {
        calls_eff
            .iter()
            .map(|c| match c {
                Call::CondWhere(g) => format!("cond_where({})", show_g(g)),
                Call::AndWhere(a, f) => format!("and_where({}{})", COLS[*a], f),
                Call::AndWhereOption(Some((a, f))) => format!("and_where_option(Some {}{})", COLS[*a], f),
                Call::AndWhereOption(None) => "and_where_option(None)".into(),
            })
            .collect::<Vec<_>>()
            .join(".")
    };
    for inline in [true, false] {
        let r = guard(|| run_ctx(fx, cx, &calls_eff, inline));
        match r {
            Err(p) => {
                rep.violation("R.panic", "sqlite", panic_sig(&p), json!({"history": hist(), "context": format!("{cx:?}"), "panic": p}), ctx.shard, n);
                return;
            }
            Ok(Err(e)) => {
                rep.violation(
                    "R.engine-rejects",
                    "sqlite",
                    format!("{cx:?} {label}"),
                    json!({"history": hist(), "context": format!("{cx:?}"), "inline": inline, "error": e}),
                    ctx.shard,
                    n,
                );
                return;
            }
            Ok(Ok((sql, got))) => {
                rep.count("engine_rows_compared", 81);
                if got != want_t {
                    let extra: Vec<&i64> = got.iter().filter(|i| !want_t.contains(i)).collect();
                    let missing: Vec<&i64> = want_t.iter().filter(|i| !got.contains(i)).collect();
                    rep.violation(
                        "R.truth-table",
                        "sqlite",
                        format!("{cx:?} {label}"),
                        json!({"history": hist(), "context": format!("{cx:?}"), "inline": inline, "sql": sql,
                               "rows_selected_but_model_not_true": extra, "rows_model_true_but_not_selected": missing}),
                        ctx.shard,
                        n,
                    );
                    return;
                }
                // no condition => no predicate keyword
                if !has_any_condition(&calls_eff) {
                    let kw = match cx {
                        Ctxt::Having => Some("HAVING"),
                        Ctxt::SelectWhere | Ctxt::DeleteWhere | Ctxt::UpdateWhere | Ctxt::AndChain => Some("WHERE"),
                        _ => None,
                    };
                    if let Some(kw) = kw {
                        rep.count("no_condition_statements", 1);
                        if keyword_at_depth0(&sql, kw) {
                            rep.violation(
                                "R.no-predicate",
                                "sqlite",
                                format!("{cx:?}"),
                                json!({"history": hist(), "sql": sql}),
                                ctx.shard,
                                n,
                            );
                            return;
                        }
                    }
                }
                if n % 997 == 1 && inline {
                    rep.sample(json!({"context": format!("{cx:?}"), "history": hist(), "sql": sql, "rows_true": want_t.len(), "rows_null": null_rows}));
                }
            }
        }
    }
    if null_rows > 0 {
        rep.count("cases_with_null_truth_value", 1);
    }
    rep.note("contexts", format!("{cx:?}"));
    rep.nontrivial(vcore::prng::hash_str(&format!("{cx:?}{}", hist())));
}

/// Also check the negation (separates FALSE from NULL): wrap the whole history in one negated group.
fn negated(calls: &[Call]) -> Vec<Call> {
    let mut g = G { any: false, negate: true, members: vec![] };
    for c in calls {
        match c {
            Call::CondWhere(x) => g.members.push(M::Group(x.clone())),
            Call::AndWhere(a, f) | Call::AndWhereOption(Some((a, f))) => g.members.push(M::Leaf { atom: *a, form: *f }),
            Call::AndWhereOption(None) => {}
        }
    }
    vec![Call::CondWhere(g)]
}

/// Enumerate group shapes: members are leaves (placeholder) or sub-groups of smaller depth.
fn shapes(depth: usize, width: usize) -> Vec<G> {
    let sub: Vec<G> = if depth > 1 { shapes(depth - 1, width) } else { vec![] };
    // member options: 0 = leaf, 1.. = sub-group index
    let nopt = 1 + sub.len();
    let mut out = vec![];
    for any in [false, true] {
        for negate in [false, true] {
            for w in 0..=width {
                let combos = (nopt as u64).pow(w as u32);
                for mut k in 0..combos {
                    let mut members = vec![];
                    for _ in 0..w {
                        let o = (k % nopt as u64) as usize;
                        k /= nopt as u64;
                        members.push(if o == 0 { M::Leaf { atom: 0, form: 0 } } else { M::Group(sub[o - 1].clone()) });
                    }
                    out.push(G { any, negate, members });
                }
            }
        }
    }
    out
}

fn assign_leaves(g: &mut G, rng: &mut Rng) {
    for m in g.members.iter_mut() {
        match m {
            M::Leaf { atom, form } => {
                *atom = rng.below(4);
                *form = rng.below(NFORMS);
            }
            M::Group(x) => assign_leaves(x, rng),
            M::Absent => {}
        }
    }
}

fn random_g(rng: &mut Rng, depth: usize, width: usize) -> G {
    let w = rng.below(width + 1);
    let members = (0..w)
        .map(|_| {
            if depth > 1 && rng.chance(2, 5) {
                M::Group(random_g(rng, depth - 1, width))
            } else if rng.chance(1, 12) {
                M::Absent
            } else {
                M::Leaf { atom: rng.below(4), form: rng.below(NFORMS) }
            }
        })
        .collect();
    G { any: rng.coin(), negate: rng.chance(1, 3), members }
}

pub fn check(ctx: &Ctx, rep: &mut Report) {
    let fx = Fix::new();
    let mut n = 0u64;
    // (1) every shape of depth <= 2, width <= 3 as a single cond_where; SELECT context always, others 1 in 10
    let all = shapes(2, 3);
    let total_shapes = all.len();
    for (i, g0) in all.iter().enumerate() {
        if ctx.mine(n) {
            let mut rng = ctx.rng_global("shape", i as u64);
            let mut g = g0.clone();
            assign_leaves(&mut g, &mut rng);
            let calls = vec![Call::CondWhere(g)];
            let label = format!("single depth{}", depth_g(g0));
            check_case(ctx, rep, &fx, n, Ctxt::SelectWhere, &calls, &label);
            check_case(ctx, rep, &fx, n, Ctxt::SelectWhere, &negated(&calls), &format!("{label} negated"));
            if i % 10 == (ctx.seed % 10) as usize || !ctx.quick() {
                let cx = CONTEXTS[1 + (i / 10) % (CONTEXTS.len() - 2)];
                check_case(ctx, rep, &fx, n, cx, &calls, &label);
            }
        }
        n += 1;
    }
    if ctx.shard == 0 && ctx.replay.is_none() {
        rep.exhaustive_parts.push(format!(
            "every condition-tree shape (any/all x negate x 0..3 members, member = leaf or group) of depth <= 2 and width <= 3 ({total_shapes} shapes; atoms and leaf forms drawn at random) in the SELECT..WHERE context, plain and negated"
        ));
    }
    // (2) call sequences of 1..3 calls over depth-1 shapes (exhaustive) in every context by rotation
    let d1 = shapes(1, 2);
    let mut kinds: Vec<Call> = d1.iter().map(|g| Call::CondWhere(g.clone())).collect();
    kinds.push(Call::AndWhere(0, 0));
    kinds.push(Call::AndWhereOption(None));
    kinds.push(Call::AndWhereOption(Some((0, 0))));
    let k = kinds.len() as u64;
    let seq_total: u64 = (0..=3u32).map(|l| k.pow(l)).sum();
    for s in 0..seq_total {
        if ctx.mine(n) {
            let mut idx = s;
            let mut len = 0;
            let mut p = 1;
            while idx >= p {
                idx -= p;
                p *= k;
                len += 1;
            }
            let mut rng = ctx.rng_global("seq", s);
            let mut calls = vec![];
            for _ in 0..len {
                let mut c = kinds[(idx % k) as usize].clone();
                idx /= k;
                match &mut c {
                    Call::CondWhere(g) => assign_leaves(g, &mut rng),
                    Call::AndWhere(a, f) => {
                        *a = rng.below(4);
                        *f = rng.below(NFORMS);
                    }
                    Call::AndWhereOption(Some((a, f))) => {
                        *a = rng.below(4);
                        *f = rng.below(NFORMS);
                    }
                    _ => {}
                }
                calls.push(c);
            }
            let cx = CONTEXTS[(s % CONTEXTS.len() as u64) as usize];
            check_case(ctx, rep, &fx, n, cx, &calls, &format!("sequence len{len}"));
            if len > 0 && s % 3 == 0 {
                check_case(ctx, rep, &fx, n, Ctxt::SelectWhere, &negated(&calls), &format!("sequence len{len} negated"));
            }
        }
        n += 1;
    }
    if ctx.shard == 0 && ctx.replay.is_none() {
        rep.exhaustive_parts.push(format!(
            "every call sequence of length 0..3 over {k} call kinds (cond_where of each depth-1 shape of width <= 2, and_where, and_where_option(None|Some)) = {seq_total} histories, contexts by rotation"
        ));
    }
    // (3) depth-3 shapes of width <= 2: exhaustive (sharded, generated on the fly) in thorough only
    if !ctx.quick() {
        let sub = shapes(2, 2);
        let nopt = 1 + sub.len() as u64;
        let mut count = 0u64;
        for any in [false, true] {
            for negate in [false, true] {
                for w in 0..=2u32 {
                    for k0 in 0..nopt.pow(w) {
                        if ctx.mine(n) {
                            let mut k = k0;
                            let mut members = vec![];
                            for _ in 0..w {
                                let o = (k % nopt) as usize;
                                k /= nopt;
                                members.push(if o == 0 { M::Leaf { atom: 0, form: 0 } } else { M::Group(sub[o - 1].clone()) });
                            }
                            let mut g = G { any, negate, members };
                            if depth_g(&g) == 3 {
                                let mut rng = ctx.rng_global("shape3", n);
                                assign_leaves(&mut g, &mut rng);
                                check_case(ctx, rep, &fx, n, Ctxt::SelectWhere, &[Call::CondWhere(g)], "single depth3");
                            }
                        }
                        n += 1;
                        count += 1;
                    }
                }
            }
        }
        if ctx.shard == 0 && ctx.replay.is_none() {
            rep.exhaustive_parts.push(format!("every shape of depth <= 3 and width <= 2 ({count} shapes) in SELECT..WHERE"));
        }
    }
    // (4) random: depth <= 6, width <= 5 (depth 3 x width 3 is only sampled: ~1e13 shapes)
    let base = 1u64 << 40;
    let nrand = ctx.size(12_000, 1_600_000) / ctx.nshards;
    for r in 0..nrand {
        let n = base + r;
        if !ctx.wants(n) {
            continue;
        }
        let mut rng = ctx.rng("rand", r);
        let ncalls = 1 + rng.below(3);
        let calls: Vec<Call> = (0..ncalls)
            .map(|_| match rng.below(6) {
                0 => Call::AndWhere(rng.below(4), rng.below(NFORMS)),
                1 => Call::AndWhereOption(if rng.coin() { Some((rng.below(4), rng.below(NFORMS))) } else { None }),
                _ => {
                    let dmax = if rng.chance(1, 4) { 6 } else { 3 };
                    let depth = 1 + rng.below(dmax);
                    let wmax = if depth > 3 { 3 } else { 5 };
                    let width = 1 + rng.below(wmax);
                    Call::CondWhere(random_g(&mut rng, depth, width))
                }
            })
            .collect();
        let cx = *rng.pick(&CONTEXTS);
        check_case(ctx, rep, &fx, n, cx, &calls, "random");
        if rng.chance(1, 3) {
            check_case(ctx, rep, &fx, n, Ctxt::SelectWhere, &negated(&calls), "random negated");
        }
    }
}
