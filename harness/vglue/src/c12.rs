//! C12 — Rust values survive the trip through `Value` unchanged.
//!
//! Oracle: bitwise identity of the typed Rust value before / after the trip
//! (`to_bits` for floats, component-wise for date/decimal types), an independent
//! hand-written table "Rust type -> Value variant (-> ArrayType)", and an
//! exhaustive (source, target type) extraction matrix.

use sea_query::value::with_array::NotU8;
use sea_query::{ArrayType, FromValueTuple, IntoValueTuple, Nullable, Value, ValueTuple, ValueType};
use serde_json::{json, Value as J};
use std::borrow::Cow;
use std::mem::discriminant;
use vcore::prng::{hash_bytes, hash_str, mix, splitmix, Rng};
use vcore::report::Report;
use vcore::run::{guard, panic_sig, Ctx};

use chrono::{Datelike, Offset, TimeZone, Timelike};

// ---------------------------------------------------------------------------
// Independent view of a `Value`: variant name, ArrayType name, NULL-ness,
// canonical bit-level encoding. All matches are exhaustive on purpose: a new
// variant in sea-query stops the build here instead of silently escaping.
// ---------------------------------------------------------------------------

pub(crate) fn variant_name(v: &Value) -> &'static str {
    match v {
        Value::Bool(_) => "Bool",
        Value::TinyInt(_) => "TinyInt",
        Value::SmallInt(_) => "SmallInt",
        Value::Int(_) => "Int",
        Value::BigInt(_) => "BigInt",
        Value::TinyUnsigned(_) => "TinyUnsigned",
        Value::SmallUnsigned(_) => "SmallUnsigned",
        Value::Unsigned(_) => "Unsigned",
        Value::BigUnsigned(_) => "BigUnsigned",
        Value::Float(_) => "Float",
        Value::Double(_) => "Double",
        Value::String(_) => "String",
        Value::Char(_) => "Char",
        Value::Bytes(_) => "Bytes",
        Value::Json(_) => "Json",
        Value::ChronoDate(_) => "ChronoDate",
        Value::ChronoTime(_) => "ChronoTime",
        Value::ChronoDateTime(_) => "ChronoDateTime",
        Value::ChronoDateTimeUtc(_) => "ChronoDateTimeUtc",
        Value::ChronoDateTimeLocal(_) => "ChronoDateTimeLocal",
        Value::ChronoDateTimeWithTimeZone(_) => "ChronoDateTimeWithTimeZone",
        Value::TimeDate(_) => "TimeDate",
        Value::TimeTime(_) => "TimeTime",
        Value::TimeDateTime(_) => "TimeDateTime",
        Value::TimeDateTimeWithTimeZone(_) => "TimeDateTimeWithTimeZone",
        Value::Uuid(_) => "Uuid",
        Value::Decimal(_) => "Decimal",
        Value::BigDecimal(_) => "BigDecimal",
        Value::Array(_, _) => "Array",
        Value::Vector(_) => "Vector",
        Value::IpNetwork(_) => "IpNetwork",
        Value::MacAddress(_) => "MacAddress",
    }
}

pub(crate) const ALL_VARIANTS: [&str; 32] = [
    "Bool", "TinyInt", "SmallInt", "Int", "BigInt", "TinyUnsigned", "SmallUnsigned", "Unsigned", "BigUnsigned",
    "Float", "Double", "String", "Char", "Bytes", "Json", "ChronoDate", "ChronoTime", "ChronoDateTime",
    "ChronoDateTimeUtc", "ChronoDateTimeLocal", "ChronoDateTimeWithTimeZone", "TimeDate", "TimeTime",
    "TimeDateTime", "TimeDateTimeWithTimeZone", "Uuid", "Decimal", "BigDecimal", "Array", "Vector", "IpNetwork",
    "MacAddress",
];

pub(crate) fn array_name(t: &ArrayType) -> &'static str {
    match t {
        ArrayType::Bool => "Bool",
        ArrayType::TinyInt => "TinyInt",
        ArrayType::SmallInt => "SmallInt",
        ArrayType::Int => "Int",
        ArrayType::BigInt => "BigInt",
        ArrayType::TinyUnsigned => "TinyUnsigned",
        ArrayType::SmallUnsigned => "SmallUnsigned",
        ArrayType::Unsigned => "Unsigned",
        ArrayType::BigUnsigned => "BigUnsigned",
        ArrayType::Float => "Float",
        ArrayType::Double => "Double",
        ArrayType::String => "String",
        ArrayType::Char => "Char",
        ArrayType::Bytes => "Bytes",
        ArrayType::Json => "Json",
        ArrayType::ChronoDate => "ChronoDate",
        ArrayType::ChronoTime => "ChronoTime",
        ArrayType::ChronoDateTime => "ChronoDateTime",
        ArrayType::ChronoDateTimeUtc => "ChronoDateTimeUtc",
        ArrayType::ChronoDateTimeLocal => "ChronoDateTimeLocal",
        ArrayType::ChronoDateTimeWithTimeZone => "ChronoDateTimeWithTimeZone",
        ArrayType::TimeDate => "TimeDate",
        ArrayType::TimeTime => "TimeTime",
        ArrayType::TimeDateTime => "TimeDateTime",
        ArrayType::TimeDateTimeWithTimeZone => "TimeDateTimeWithTimeZone",
        ArrayType::Uuid => "Uuid",
        ArrayType::Decimal => "Decimal",
        ArrayType::BigDecimal => "BigDecimal",
        ArrayType::IpNetwork => "IpNetwork",
        ArrayType::MacAddress => "MacAddress",
    }
}

pub(crate) fn all_array_types() -> Vec<ArrayType> {
    vec![
        ArrayType::Bool,
        ArrayType::TinyInt,
        ArrayType::SmallInt,
        ArrayType::Int,
        ArrayType::BigInt,
        ArrayType::TinyUnsigned,
        ArrayType::SmallUnsigned,
        ArrayType::Unsigned,
        ArrayType::BigUnsigned,
        ArrayType::Float,
        ArrayType::Double,
        ArrayType::String,
        ArrayType::Char,
        ArrayType::Bytes,
        ArrayType::Json,
        ArrayType::ChronoDate,
        ArrayType::ChronoTime,
        ArrayType::ChronoDateTime,
        ArrayType::ChronoDateTimeUtc,
        ArrayType::ChronoDateTimeLocal,
        ArrayType::ChronoDateTimeWithTimeZone,
        ArrayType::TimeDate,
        ArrayType::TimeTime,
        ArrayType::TimeDateTime,
        ArrayType::TimeDateTimeWithTimeZone,
        ArrayType::Uuid,
        ArrayType::Decimal,
        ArrayType::BigDecimal,
        ArrayType::IpNetwork,
        ArrayType::MacAddress,
    ]
}

pub(crate) fn array_of(v: &Value) -> Option<&'static str> {
    match v {
        Value::Array(t, _) => Some(array_name(t)),
        _ => None,
    }
}

pub(crate) fn is_null(v: &Value) -> bool {
    match v {
        Value::Bool(x) => x.is_none(),
        Value::TinyInt(x) => x.is_none(),
        Value::SmallInt(x) => x.is_none(),
        Value::Int(x) => x.is_none(),
        Value::BigInt(x) => x.is_none(),
        Value::TinyUnsigned(x) => x.is_none(),
        Value::SmallUnsigned(x) => x.is_none(),
        Value::Unsigned(x) => x.is_none(),
        Value::BigUnsigned(x) => x.is_none(),
        Value::Float(x) => x.is_none(),
        Value::Double(x) => x.is_none(),
        Value::String(x) => x.is_none(),
        Value::Char(x) => x.is_none(),
        Value::Bytes(x) => x.is_none(),
        Value::Json(x) => x.is_none(),
        Value::ChronoDate(x) => x.is_none(),
        Value::ChronoTime(x) => x.is_none(),
        Value::ChronoDateTime(x) => x.is_none(),
        Value::ChronoDateTimeUtc(x) => x.is_none(),
        Value::ChronoDateTimeLocal(x) => x.is_none(),
        Value::ChronoDateTimeWithTimeZone(x) => x.is_none(),
        Value::TimeDate(x) => x.is_none(),
        Value::TimeTime(x) => x.is_none(),
        Value::TimeDateTime(x) => x.is_none(),
        Value::TimeDateTimeWithTimeZone(x) => x.is_none(),
        Value::Uuid(x) => x.is_none(),
        Value::Decimal(x) => x.is_none(),
        Value::BigDecimal(x) => x.is_none(),
        Value::Array(_, x) => x.is_none(),
        Value::Vector(x) => x.is_none(),
        Value::IpNetwork(x) => x.is_none(),
        Value::MacAddress(x) => x.is_none(),
    }
}

fn put(out: &mut Vec<u8>, b: &[u8]) {
    out.extend_from_slice(&(b.len() as u64).to_le_bytes());
    out.extend_from_slice(b);
}

pub(crate) fn enc_json(j: &J, out: &mut Vec<u8>) {
    match j {
        J::Null => out.push(b'n'),
        J::Bool(b) => out.extend_from_slice(&[b'b', *b as u8]),
        J::Number(n) => {
            if let Some(u) = n.as_u64() {
                out.push(b'u');
                out.extend_from_slice(&u.to_le_bytes());
            } else if let Some(i) = n.as_i64() {
                out.push(b'i');
                out.extend_from_slice(&i.to_le_bytes());
            } else {
                out.push(b'f');
                out.extend_from_slice(&n.as_f64().map(|f| f.to_bits()).unwrap_or(u64::MAX).to_le_bytes());
            }
        }
        J::String(s) => {
            out.push(b's');
            put(out, s.as_bytes());
        }
        J::Array(a) => {
            out.push(b'a');
            out.extend_from_slice(&(a.len() as u64).to_le_bytes());
            for e in a {
                enc_json(e, out);
            }
        }
        J::Object(m) => {
            out.push(b'o');
            out.extend_from_slice(&(m.len() as u64).to_le_bytes());
            for (k, e) in m {
                put(out, k.as_bytes());
                enc_json(e, out);
            }
        }
    }
}

fn enc_ndt(x: &chrono::NaiveDateTime, out: &mut Vec<u8>) {
    out.extend_from_slice(&x.date().num_days_from_ce().to_le_bytes());
    out.extend_from_slice(&x.time().num_seconds_from_midnight().to_le_bytes());
    out.extend_from_slice(&x.time().nanosecond().to_le_bytes());
}

fn enc_tdate(x: &time::Date, out: &mut Vec<u8>) {
    out.extend_from_slice(&x.to_julian_day().to_le_bytes());
}

fn enc_ttime(x: &time::Time, out: &mut Vec<u8>) {
    let (h, m, s, n) = x.as_hms_nano();
    out.extend_from_slice(&[h, m, s]);
    out.extend_from_slice(&n.to_le_bytes());
}

/// Canonical bit-level encoding of a `Value` (variant, NULL flag, payload bits).
pub(crate) fn enc(v: &Value, out: &mut Vec<u8>) {
    put(out, variant_name(v).as_bytes());
    if let Value::Array(t, _) = v {
        put(out, array_name(t).as_bytes());
    }
    if is_null(v) {
        out.push(0);
        return;
    }
    out.push(1);
    match v {
        Value::Bool(Some(x)) => out.push(*x as u8),
        Value::TinyInt(Some(x)) => out.extend_from_slice(&x.to_le_bytes()),
        Value::SmallInt(Some(x)) => out.extend_from_slice(&x.to_le_bytes()),
        Value::Int(Some(x)) => out.extend_from_slice(&x.to_le_bytes()),
        Value::BigInt(Some(x)) => out.extend_from_slice(&x.to_le_bytes()),
        Value::TinyUnsigned(Some(x)) => out.extend_from_slice(&x.to_le_bytes()),
        Value::SmallUnsigned(Some(x)) => out.extend_from_slice(&x.to_le_bytes()),
        Value::Unsigned(Some(x)) => out.extend_from_slice(&x.to_le_bytes()),
        Value::BigUnsigned(Some(x)) => out.extend_from_slice(&x.to_le_bytes()),
        Value::Float(Some(x)) => out.extend_from_slice(&x.to_bits().to_le_bytes()),
        Value::Double(Some(x)) => out.extend_from_slice(&x.to_bits().to_le_bytes()),
        Value::String(Some(x)) => put(out, x.as_bytes()),
        Value::Char(Some(x)) => out.extend_from_slice(&(*x as u32).to_le_bytes()),
        Value::Bytes(Some(x)) => put(out, x),
        Value::Json(Some(x)) => enc_json(x, out),
        Value::ChronoDate(Some(x)) => out.extend_from_slice(&x.num_days_from_ce().to_le_bytes()),
        Value::ChronoTime(Some(x)) => {
            out.extend_from_slice(&x.num_seconds_from_midnight().to_le_bytes());
            out.extend_from_slice(&x.nanosecond().to_le_bytes());
        }
        Value::ChronoDateTime(Some(x)) => enc_ndt(x, out),
        Value::ChronoDateTimeUtc(Some(x)) => enc_ndt(&x.naive_utc(), out),
        Value::ChronoDateTimeLocal(Some(x)) => {
            enc_ndt(&x.naive_utc(), out);
            out.extend_from_slice(&x.offset().fix().local_minus_utc().to_le_bytes());
        }
        Value::ChronoDateTimeWithTimeZone(Some(x)) => {
            enc_ndt(&x.naive_utc(), out);
            out.extend_from_slice(&x.offset().fix().local_minus_utc().to_le_bytes());
        }
        Value::TimeDate(Some(x)) => enc_tdate(x, out),
        Value::TimeTime(Some(x)) => enc_ttime(x, out),
        Value::TimeDateTime(Some(x)) => {
            enc_tdate(&x.date(), out);
            enc_ttime(&x.time(), out);
        }
        Value::TimeDateTimeWithTimeZone(Some(x)) => {
            enc_tdate(&x.date(), out);
            enc_ttime(&x.time(), out);
            out.extend_from_slice(&x.offset().whole_seconds().to_le_bytes());
        }
        Value::Uuid(Some(x)) => out.extend_from_slice(&x.as_u128().to_le_bytes()),
        Value::Decimal(Some(x)) => out.extend_from_slice(&x.serialize()),
        Value::BigDecimal(Some(x)) => {
            let (i, e) = x.as_bigint_and_exponent();
            put(out, &i.to_signed_bytes_le());
            out.extend_from_slice(&e.to_le_bytes());
        }
        Value::Array(_, Some(xs)) => {
            out.extend_from_slice(&(xs.len() as u64).to_le_bytes());
            for e in xs.iter() {
                enc(e, out);
            }
        }
        Value::Vector(Some(x)) => {
            out.extend_from_slice(&(x.as_slice().len() as u64).to_le_bytes());
            for f in x.as_slice() {
                out.extend_from_slice(&f.to_bits().to_le_bytes());
            }
        }
        Value::IpNetwork(Some(x)) => {
            match x.ip() {
                std::net::IpAddr::V4(a) => {
                    out.push(4);
                    out.extend_from_slice(&a.octets());
                }
                std::net::IpAddr::V6(a) => {
                    out.push(6);
                    out.extend_from_slice(&a.octets());
                }
            }
            out.push(x.prefix());
        }
        Value::MacAddress(Some(x)) => out.extend_from_slice(&x.bytes()),
        // NULL payloads were handled above
        _ => unreachable!("enc: NULL payload after the NULL check"),
    }
}

pub(crate) fn enc_v(v: &Value) -> Vec<u8> {
    let mut o = Vec::new();
    enc(v, &mut o);
    o
}

fn clip(s: String) -> String {
    if s.chars().count() <= 160 {
        s
    } else {
        let mut t: String = s.chars().take(160).collect();
        t.push('…');
        t
    }
}

pub(crate) fn show_value(v: &Value) -> String {
    guard(|| clip(format!("{v:?}"))).unwrap_or_else(|_| "<unprintable>".into())
}

// ---------------------------------------------------------------------------
// Generators
// ---------------------------------------------------------------------------

fn shape(a: u64, b: u64) -> u64 {
    match b & 3 {
        0 | 1 => a,
        2 => a >> ((b >> 2) & 63),
        _ => !(a >> ((b >> 2) & 63)),
    }
}

fn shape1(raw: u64) -> u64 {
    let mut s = raw;
    let a = splitmix(&mut s);
    let b = splitmix(&mut s);
    shape(a, b)
}

fn gen_u64(r: &mut Rng) -> u64 {
    let a = r.next_u64();
    let b = r.next_u64();
    shape(a, b)
}

const NASTY: [char; 14] =
    ['\0', '\'', '"', '\\', '\n', '\r', 'é', 'ß', '𝄞', '\u{FFFD}', '\u{10FFFF}', ' ', '\u{202E}', '\u{7f}'];

fn gen_string(r: &mut Rng) -> String {
    let max = match r.below(100) {
        0..=5 => 0,
        6..=45 => 8,
        46..=80 => 64,
        81..=97 => 1024,
        _ => 20_000,
    };
    let n = if max == 0 { 0 } else { r.below(max + 1) };
    let mode = r.below(4);
    let mut s = String::new();
    for _ in 0..n {
        let m = if mode == 3 { r.below(3) } else { mode };
        s.push(match m {
            0 => (0x20 + r.below(0x5f) as u8) as char,
            1 => r.any_char(),
            _ => *r.pick(&NASTY),
        });
    }
    s
}

fn gen_bytes(r: &mut Rng) -> Vec<u8> {
    let max = match r.below(100) {
        0..=5 => 0,
        6..=45 => 8,
        46..=80 => 64,
        81..=97 => 1024,
        _ => 60_000,
    };
    let n = if max == 0 { 0 } else { r.below(max + 1) };
    let mut v = Vec::with_capacity(n);
    while v.len() < n {
        let w = r.next_u64().to_le_bytes();
        let take = (n - v.len()).min(8);
        v.extend_from_slice(&w[..take]);
    }
    v
}

fn gen_f32(r: &mut Rng) -> f32 {
    if r.chance(1, 8) {
        *r.pick(&f32::specials())
    } else {
        f32::from_bits(r.next_u32())
    }
}

fn gen_f64(r: &mut Rng) -> f64 {
    if r.chance(1, 8) {
        *r.pick(&f64::specials())
    } else {
        f64::from_bits(r.next_u64())
    }
}

fn gen_json(r: &mut Rng, depth: usize) -> J {
    let k = if depth == 0 { r.below(6) } else { r.below(8) };
    match k {
        0 => J::Null,
        1 => J::Bool(r.coin()),
        2 => J::from(gen_u64(r) as i64),
        3 => J::from(gen_u64(r)),
        4 => {
            let f = gen_f64(r);
            match serde_json::Number::from_f64(f) {
                Some(n) => J::Number(n),
                None => J::from(-0.0f64),
            }
        }
        5 => J::String(if r.chance(1, 3) { gen_string(r) } else { r.string_from(&NASTY, 6, true) }),
        6 => {
            let n = r.below(5);
            J::Array((0..n).map(|_| gen_json(r, depth - 1)).collect())
        }
        _ => {
            let n = r.below(5);
            let mut m = serde_json::Map::new();
            for _ in 0..n {
                let key = r.string_from(&['a', 'b', 'z', 'é', ' ', '"', '\\', '1'], 4, true);
                m.insert(key, gen_json(r, depth - 1));
            }
            J::Object(m)
        }
    }
}

fn gen_ndate(r: &mut Rng, margin: i32) -> chrono::NaiveDate {
    let lo = chrono::NaiveDate::MIN.num_days_from_ce() + margin;
    let hi = chrono::NaiveDate::MAX.num_days_from_ce() - margin;
    let d = match r.below(4) {
        0 => r.range(lo as i64, hi as i64) as i32,
        1 => r.range(693_596, 770_000) as i32, // 1900..2109
        2 => r.range(-400, 400) as i32,
        _ => *r.pick(&[lo, lo + 1, hi - 1, hi, 0, 1, 719_163, 719_162]),
    };
    chrono::NaiveDate::from_num_days_from_ce_opt(d).unwrap_or_default()
}

fn gen_ntime(r: &mut Rng) -> chrono::NaiveTime {
    let secs = match r.below(4) {
        0 => *r.pick(&[0u32, 1, 59, 60, 86_399, 43_200]),
        _ => r.below(86_400) as u32,
    };
    let nano = match r.below(6) {
        0 => 0,
        1 => 999_999_999,
        2 if secs % 60 == 59 => 1_000_000_000 + r.below(1_000_000_000) as u32,
        3 => (r.below(1_000_000) as u32) * 1000,
        _ => r.below(1_000_000_000) as u32,
    };
    chrono::NaiveTime::from_num_seconds_from_midnight_opt(secs, nano).unwrap_or_default()
}

fn gen_ndt(r: &mut Rng, margin: i32) -> chrono::NaiveDateTime {
    chrono::NaiveDateTime::new(gen_ndate(r, margin), gen_ntime(r))
}

fn gen_tdate(r: &mut Rng) -> time::Date {
    let lo = time::Date::MIN.to_julian_day();
    let hi = time::Date::MAX.to_julian_day();
    let d = match r.below(4) {
        0 | 1 => r.range(lo as i64, hi as i64) as i32,
        2 => r.range(2_415_021, 2_490_000) as i32,
        _ => *r.pick(&[lo, lo + 1, hi - 1, hi, 2_440_588, 0]),
    };
    time::Date::from_julian_day(d).unwrap_or(time::Date::MIN)
}

fn gen_ttime(r: &mut Rng) -> time::Time {
    let n = match r.below(4) {
        0 => 0,
        1 => 999_999_999,
        2 => (r.below(1_000_000) as u32) * 1000,
        _ => r.below(1_000_000_000) as u32,
    };
    time::Time::from_hms_nano(r.below(24) as u8, r.below(60) as u8, r.below(60) as u8, n).unwrap_or(time::Time::MIDNIGHT)
}

// ---------------------------------------------------------------------------
// `Rt`: a Rust type that goes through `Value`, with its independent oracle.
// ---------------------------------------------------------------------------

pub(crate) trait Rt: Clone + std::fmt::Debug + Into<Value> + ValueType + 'static {
    /// expected `Value` variant (hand-written table, not derived from sea-query)
    const VARIANT: &'static str;
    /// expected ArrayType when the value is an array
    const ARRAY: Option<&'static str> = None;
    fn name() -> String;
    /// bitwise identity
    fn same(&self, o: &Self) -> bool;
    fn fp(&self) -> u64;
    /// coarse payload class for signatures
    fn class(&self) -> &'static str {
        ""
    }
    fn show(&self) -> String {
        guard(|| clip(format!("{self:?}"))).unwrap_or_else(|_| "<unprintable>".into())
    }
    fn gen(r: &mut Rng) -> Self;
    fn specials() -> Vec<Self>;
}

/// element types of `Vec<T>` arrays (everything sea-query marks `NotU8`)
pub(crate) trait Elem: Rt + NotU8 + Nullable {}

macro_rules! rt_int {
    ($t:ty, $variant:literal) => {
        impl Rt for $t {
            const VARIANT: &'static str = $variant;
            fn name() -> String {
                stringify!($t).to_string()
            }
            fn same(&self, o: &Self) -> bool {
                self == o
            }
            fn fp(&self) -> u64 {
                *self as u64
            }
            fn gen(r: &mut Rng) -> Self {
                if r.chance(1, 8) {
                    *r.pick(&Self::specials())
                } else {
                    gen_u64(r) as $t
                }
            }
            fn specials() -> Vec<Self> {
                let mut v = vec![<$t>::MIN, <$t>::MAX, 0, 1, <$t>::MAX - 1, <$t>::MIN + 1, <$t>::MAX / 2, <$t>::MAX / 2 + 1];
                v.push((0 as $t).wrapping_sub(1));
                let mut p: $t = 1;
                for _ in 0..(<$t>::BITS - 1) {
                    v.push(p);
                    v.push(p.wrapping_sub(1));
                    v.push((0 as $t).wrapping_sub(p));
                    p = p.wrapping_shl(1);
                }
                v
            }
        }
    };
}
rt_int!(i8, "TinyInt");
rt_int!(i16, "SmallInt");
rt_int!(i32, "Int");
rt_int!(i64, "BigInt");
rt_int!(u8, "TinyUnsigned");
rt_int!(u16, "SmallUnsigned");
rt_int!(u32, "Unsigned");
rt_int!(u64, "BigUnsigned");

impl Rt for bool {
    const VARIANT: &'static str = "Bool";
    fn name() -> String {
        "bool".into()
    }
    fn same(&self, o: &Self) -> bool {
        self == o
    }
    fn fp(&self) -> u64 {
        *self as u64
    }
    fn gen(r: &mut Rng) -> Self {
        r.coin()
    }
    fn specials() -> Vec<Self> {
        vec![false, true]
    }
}

impl Rt for char {
    const VARIANT: &'static str = "Char";
    fn name() -> String {
        "char".into()
    }
    fn same(&self, o: &Self) -> bool {
        self == o
    }
    fn fp(&self) -> u64 {
        *self as u64
    }
    fn gen(r: &mut Rng) -> Self {
        r.any_char()
    }
    fn specials() -> Vec<Self> {
        vec!['\0', 'a', '\'', '\u{7f}', '\u{80}', 'é', '\u{7ff}', '\u{800}', '\u{d7ff}', '\u{e000}', '\u{ffff}', '\u{10000}', '\u{10ffff}']
    }
}

fn fclass(nan: bool, inf: bool, zero: bool, sub: bool, neg: bool) -> &'static str {
    match (nan, inf, zero, sub, neg) {
        (true, _, _, _, false) => "[+NaN]",
        (true, _, _, _, true) => "[-NaN]",
        (_, true, _, _, false) => "[+inf]",
        (_, true, _, _, true) => "[-inf]",
        (_, _, true, _, false) => "[+0]",
        (_, _, true, _, true) => "[-0]",
        (_, _, _, true, _) => "[subnormal]",
        _ => "[normal]",
    }
}

macro_rules! rt_float {
    ($t:ty, $bits:ty, $variant:literal, $gen:ident) => {
        impl Rt for $t {
            const VARIANT: &'static str = $variant;
            fn name() -> String {
                stringify!($t).to_string()
            }
            fn same(&self, o: &Self) -> bool {
                self.to_bits() == o.to_bits()
            }
            fn fp(&self) -> u64 {
                self.to_bits() as u64
            }
            fn class(&self) -> &'static str {
                fclass(
                    self.is_nan(),
                    self.is_infinite(),
                    *self == 0.0,
                    self.is_subnormal(),
                    self.is_sign_negative(),
                )
            }
            fn show(&self) -> String {
                format!("{:?} (bits {:#x})", self, self.to_bits())
            }
            fn gen(r: &mut Rng) -> Self {
                $gen(r)
            }
            fn specials() -> Vec<Self> {
                let qnan = <$t>::NAN.to_bits();
                let sign: $bits = 1 << (<$bits>::BITS - 1);
                vec![
                    0.0,
                    -0.0,
                    1.0,
                    -1.0,
                    <$t>::INFINITY,
                    <$t>::NEG_INFINITY,
                    <$t>::NAN,
                    <$t>::from_bits(qnan | sign),
                    <$t>::from_bits(qnan | 1),
                    <$t>::from_bits((qnan | sign) ^ (1 << (<$t>::MANTISSA_DIGITS - 2)) | 1), // signalling, negative
                    <$t>::from_bits((qnan ^ (1 << (<$t>::MANTISSA_DIGITS - 2))) | 0x55),     // signalling
                    <$t>::MIN_POSITIVE,
                    <$t>::from_bits(1),
                    <$t>::from_bits(sign | 1),
                    <$t>::from_bits(<$t>::MIN_POSITIVE.to_bits() - 1),
                    <$t>::MAX,
                    <$t>::MIN,
                    <$t>::EPSILON,
                    0.1,
                    1.0e10,
                ]
            }
        }
    };
}
rt_float!(f32, u32, "Float", gen_f32);
rt_float!(f64, u64, "Double", gen_f64);

fn sclass(s: &str) -> &'static str {
    if s.is_empty() {
        "[empty]"
    } else if s.is_ascii() {
        "[ascii]"
    } else {
        "[unicode]"
    }
}

impl Rt for String {
    const VARIANT: &'static str = "String";
    fn name() -> String {
        "String".into()
    }
    fn same(&self, o: &Self) -> bool {
        self.as_bytes() == o.as_bytes()
    }
    fn fp(&self) -> u64 {
        hash_str(self)
    }
    fn class(&self) -> &'static str {
        sclass(self)
    }
    fn gen(r: &mut Rng) -> Self {
        gen_string(r)
    }
    fn specials() -> Vec<Self> {
        vec![String::new(), "a".into(), "it's".into(), "\0".into(), "é𝄞\u{10FFFF}".into(), "x".repeat(70_000)]
    }
}

impl Rt for Cow<'static, str> {
    const VARIANT: &'static str = "String";
    fn name() -> String {
        "Cow<str>".into()
    }
    fn same(&self, o: &Self) -> bool {
        self.as_bytes() == o.as_bytes()
    }
    fn fp(&self) -> u64 {
        hash_str(self)
    }
    fn class(&self) -> &'static str {
        sclass(self)
    }
    fn gen(r: &mut Rng) -> Self {
        if r.chance(1, 4) {
            Cow::Borrowed(*r.pick(&["", "borrowed", "é", "a'b", "\0"]))
        } else {
            Cow::Owned(gen_string(r))
        }
    }
    fn specials() -> Vec<Self> {
        vec![Cow::Borrowed(""), Cow::Borrowed("b"), Cow::Owned("o𝄞".into())]
    }
}

impl Rt for Vec<u8> {
    const VARIANT: &'static str = "Bytes";
    fn name() -> String {
        "Vec<u8>".into()
    }
    fn same(&self, o: &Self) -> bool {
        self == o
    }
    fn fp(&self) -> u64 {
        hash_bytes(self)
    }
    fn class(&self) -> &'static str {
        if self.is_empty() {
            "[empty]"
        } else {
            "[bytes]"
        }
    }
    fn gen(r: &mut Rng) -> Self {
        gen_bytes(r)
    }
    fn specials() -> Vec<Self> {
        vec![vec![], vec![0], vec![0xff, 0x00, 0x27, 0x5c], (0..=255u8).collect(), vec![0x80; 100_000]]
    }
}

impl Rt for J {
    const VARIANT: &'static str = "Json";
    fn name() -> String {
        "Json".into()
    }
    fn same(&self, o: &Self) -> bool {
        let (mut a, mut b) = (vec![], vec![]);
        enc_json(self, &mut a);
        enc_json(o, &mut b);
        a == b
    }
    fn fp(&self) -> u64 {
        let mut a = vec![];
        enc_json(self, &mut a);
        hash_bytes(&a)
    }
    fn class(&self) -> &'static str {
        match self {
            J::Null => "[null]",
            J::Bool(_) => "[bool]",
            J::Number(_) => "[number]",
            J::String(_) => "[string]",
            J::Array(_) => "[array]",
            J::Object(_) => "[object]",
        }
    }
    fn gen(r: &mut Rng) -> Self {
        gen_json(r, 4)
    }
    fn specials() -> Vec<Self> {
        vec![
            J::Null,
            json!(1),
            json!(1.0),
            json!(-0.0),
            json!(0.0),
            json!(u64::MAX),
            json!(i64::MIN),
            json!(""),
            json!([]),
            json!({}),
            json!({"b": 1, "a": [null, {"k": "é"}]}),
            json!([[[[[[1e308, 5e-324]]]]]]),
        ]
    }
}
